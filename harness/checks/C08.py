"""C08 SMARTS primitives and query atoms match exactly what is documented.
(also: the query API construction paths, the whole of smarts() incl. stereo marks - see corr_api, corr_full, search_stereo)
Theorems (coq/props/C08.v) about the Gallina model of the comparison methods, calc_labels, _query_parse, the atom
construction of smarts() and the bond tokens of _tokenize; correspondence of each of these with the real code
(exhaustive small spaces, generated, corpus, malformed); search with oracles independent of the model (a Python
reference of the documented conjunction, a regular-expression reading of bond spellings, RDKit attributes)."""
import itertools
import random
import re
import traceback

import boot  # noqa
import common
import coqcases
import corpus
import coqmol
from coqfmt import zraw, b, lst, opt, tup

replay = common.generic_replay

IMPORTS = 'Graph PeriodicTable Tokenize Smarts Query'
EXN = {'IncorrectSmarts': '!A', 'IncorrectSmiles': '!S', 'ValueError': '!V', 'IndexError': '!I', 'KeyError': '!K',
       'TypeError': '!T', 'AttributeError': '!U'}


def sexn(e):
    n = type(e).__name__
    if n in EXN:
        return EXN[n]
    return '!V' if isinstance(e, ValueError) else '!?'


def cstr(t):
    assert all(32 <= ord(c) < 127 or c == '\n' for c in t), repr(t)
    return '"' + t.replace('"', '""') + '"%string'


def zs(l):
    return '[' + ','.join(str(int(x)) for x in l) + ']'


def sopt(f, v):
    return '-' if v is None else f(v)


def sbool(v):
    return 'T' if v else 'F'


# ----------------------------------------------------------------------------------------------------------------
# batches (one Coq case = one helper application to a list of inputs and the expected text of all of them)

class Batches:
    def __init__(self, name, extra=''):
        self.name = name
        self.extra = extra
        self.cases = []
        self.meta = []

    def add(self, case, meta):
        self.cases.append(case)
        self.meta.append(meta)

    def run(self):
        """returns (ok, [meta of failing cases], log)"""
        if not self.cases:
            return True, [], ''
        size = sum(len(c) for c in self.cases) / len(self.cases)
        shard = max(10, int(120000 / max(size, 1)))
        ok, failing, log = coqcases.run_cases(self.name, IMPORTS, self.cases, extra=self.extra, shard=shard, timeout=900)
        return ok, [self.meta[i] for i in failing], log


def conclude(ck, name, bt, ok, bad, log):
    good = ok and not bad
    ck.oblige(f'correspondence: {name}', good, 'correspondence', log[-1500:] or repr(bad[:3])[:1500])
    ck.extra.setdefault('correspondence_cases', {})[name] = len(bt.cases)
    if bt.cases:
        ck.sample({'correspondence': name, 'model_call': bt.cases[len(bt.cases) // 2][:300]})
    if not good:
        ck.unchecked(f'correspondence {name}', log[-1500:], [repr(x)[:300] for x in bad[:20]])
    return good


# ----------------------------------------------------------------------------------------------------------------
# real objects

class A:
    """description of a molecule atom as the comparison methods see it"""
    __slots__ = ('num', 'iso', 'chg', 'rad', 'nb', 'hyb', 'h', 'het', 'rings')

    def __init__(self, num=6, iso=None, chg=0, rad=False, nb=2, hyb=1, h=2, het=0, rings=()):
        self.num, self.iso, self.chg, self.rad, self.nb, self.hyb, self.h, self.het, self.rings = \
            num, iso, chg, rad, nb, hyb, h, het, tuple(sorted(rings))

    def key(self):
        return (self.num, self.iso, self.chg, self.rad, self.nb, self.hyb, self.h, self.het, self.rings)

    def term(self):
        return (f'(mkLA {zraw(self.num)} {opt(self.iso, zraw)} {zraw(self.chg)} {b(self.rad)} {zraw(self.nb)} {zraw(self.hyb)} '
                f'{opt(self.h, zraw)} {zraw(self.het)} {lst(self.rings, zraw)})')

    def real(self):
        from chython.periodictable import Element
        a = Element.from_atomic_number(self.num)()
        a._isotope = self.iso
        a._charge = self.chg
        a._is_radical = self.rad
        a._neighbors = self.nb
        a._hybridization = self.hyb
        a._implicit_hydrogens = self.h
        a._heteroatoms = self.het
        a._ring_sizes = set(self.rings)
        a._in_ring = bool(self.rings)
        return a

    @classmethod
    def of(cls, a):
        return cls(a.atomic_number, a.isotope, a.charge, a.is_radical, a.neighbors, a.hybridization, a.implicit_hydrogens,
                   a.heteroatoms, tuple(a.ring_sizes))


class Q:
    """description of a query atom: kind E/A/L/M"""

    def __init__(self, kind, num=6, nums=(), iso=None, chg=0, rad=False, nb=(), hyb=(), h=(), het=(), rings=(), rset=False):
        self.kind, self.num, self.nums, self.iso, self.chg, self.rad = kind, num, tuple(nums), iso, chg, rad
        self.nb, self.hyb, self.h, self.het, self.rings, self.rset = tuple(nb), tuple(hyb), tuple(h), tuple(het), tuple(rings), rset

    def key(self):
        return (self.kind, self.num, self.nums, self.iso, self.chg, self.rad, self.nb, self.hyb, self.h, self.het, self.rings, self.rset)

    def qx(self):
        return (f'(mkQX {zraw(self.chg)} {b(self.rad)} {lst(self.nb, zraw)} {lst(self.hyb, zraw)} {lst(self.h, zraw)} '
                f'{lst(self.het, zraw)} {lst(self.rings, zraw)} {b(self.rset)})')

    def term(self):
        if self.kind == 'E':
            return f'(QElem {zraw(self.num)} {opt(self.iso, zraw)} {self.qx()})'
        if self.kind == 'A':
            return f'(QAny {self.qx()})'
        if self.kind == 'L':
            return f'(QList {lst(self.nums, zraw)} {self.qx()})'
        return f'(QMetal {lst(self.nb, zraw)} {lst(self.hyb, zraw)})'

    def real(self):
        """built through the public constructors (validating setters); a set in _ring_sizes only by the private slot"""
        from chython.periodictable import QueryElement, AnyElement, AnyMetal, ListElement, Element
        kw = dict(neighbors=list(self.nb) or None, hybridization=list(self.hyb) or None)
        if self.kind == 'M':
            return AnyMetal(**kw)
        kw.update(charge=self.chg, is_radical=self.rad, heteroatoms=list(self.het) or None,
                  implicit_hydrogens=list(self.h) or None)
        rings = self.rings
        if rings == (0,):
            kw['ring_sizes'] = 0
        elif rings and not self.rset:
            kw['ring_sizes'] = list(rings)
        if self.kind == 'E':
            q = QueryElement.from_atomic_number(self.num)(self.iso, **kw)
        elif self.kind == 'A':
            q = AnyElement(**kw)
        else:
            q = ListElement([Element.from_atomic_number(n).__name__ for n in self.nums], **kw)
        if self.rset:
            q._ring_sizes = set(rings)
        return q


def ref_match(q, a):
    """the documented conjunction, written independently of the code and of the model. returns bool, or 'E' when the
    comparison is undefined (a set stored in ring_sizes by hand)"""
    from chython.periodictable import Element
    def tuple_ok(t, v):
        return not t or v in t
    if q.kind == 'M':
        e = Element.from_atomic_number(a.num)()
        metal = not (e.is_forming_single_bonds or a.num in (2, 10, 18, 36, 54, 86, 118))
        return metal and tuple_ok(q.nb, a.nb) and tuple_ok(q.hyb, a.hyb)
    if q.kind == 'E' and q.num != a.num:
        return False
    if q.kind == 'L' and a.num not in q.nums:
        return False
    if q.chg != a.chg or q.rad != a.rad:
        return False
    if q.kind == 'E' and q.iso and q.iso != a.iso:
        return False
    if not (tuple_ok(q.nb, a.nb) and tuple_ok(q.hyb, a.hyb)):
        return False
    if q.rings and q.rset:
        return 'E'
    if q.rings == (0,):
        if a.rings:
            return False
    elif q.rings and not (set(q.rings) & set(a.rings)):
        return False
    if q.h and (a.h is None or a.h not in q.h):
        return False
    return tuple_ok(q.het, a.het)


def real_match(q, a):
    try:
        r = q.__eq__(a)
    except TypeError:
        return 'E'
    return bool(r)


# ----------------------------------------------------------------------------------------------------------------
# correspondence 1: the four __eq__ methods on grids (primitive value x attribute value, pairs of primitives)

def atom_grid(ck, rng):
    from chython import smiles
    base = dict(num=6, iso=None, chg=0, rad=False, nb=2, hyb=1, h=2, het=0, rings=())
    axes = dict(num=[1, 2, 3, 5, 6, 7, 8, 9, 11, 13, 14, 15, 16, 17, 18, 26, 29, 32, 35, 46, 53, 78, 85, 92, 118],
                iso=[None, 12, 13, 14, 0], chg=[-4, -2, -1, 0, 1, 2, 4], rad=[False, True], nb=[0, 1, 2, 3, 4, 6, 14],
                hyb=[1, 2, 3, 4], h=[None, 0, 1, 2, 3, 4], het=[0, 1, 2, 3, 14],
                rings=[(), (3,), (4,), (5,), (6,), (5, 6), (3, 4, 8), (7, 12), (65,)])
    atoms = {}
    def put(a):
        atoms.setdefault(a.key(), a)
    put(A(**base))
    names = list(axes)
    for i, x in enumerate(names):          # every value of every attribute, and every pair of values of two attributes
        for vx in axes[x]:
            put(A(**dict(base, **{x: vx})))
    pairs = list(itertools.combinations(names, 2))
    for x, y in pairs:
        for vx in axes[x][:5]:
            for vy in axes[y][:5]:
                put(A(**dict(base, **{x: vx, y: vy})))
    for _ in range(150 if ck.tier == 'quick' else 1500):
        put(A(**{k: rng.choice(v) for k, v in axes.items()}))
    n_synth = len(atoms)
    # atoms of real molecules, labelled by calc_labels
    pool = ['C[N+](C)(C)C', '[13CH3]C(=O)[O-]', 'c1ccccc1C#N', 'C1CC1C2CCC2', 'C=C=C', '[Fe+2]', 'O=S(=O)(O)c1ccc2ccccc2c1', '[CH3]',
            '[Na+].[Cl-]', 'C1CC2CCC1C2', 'N#N', '[2H]O[2H]', 'Cl[Pt](Cl)(N)N', 'C[Si](C)(C)C'] + \
        corpus.sample(corpus.lipo(), 25 if ck.tier == 'quick' else 250, ck.seed, 'c08-grid')
    for smi in pool:
        try:
            m = smiles(smi)
        except Exception:
            continue
        for _, a in m.atoms():
            put(A.of(a))
    ck.count('grid:synthetic-atoms', n_synth)
    ck.count('grid:corpus-atoms', len(atoms) - n_synth)
    return list(atoms.values())


def query_grid(ck, rng):
    qs = {}
    def put(q):
        qs.setdefault(q.key(), q)
    vals = dict(chg=[-4, -1, 0, 1, 2], rad=[False, True], nb=[(), (0,), (1,), (2,), (3,), (4,), (14,), (1, 2), (2, 3, 4), (0, 6)],
                hyb=[(), (1,), (2,), (3,), (4,), (1, 2), (2, 4), (1, 2, 3, 4)], h=[(), (0,), (1,), (2,), (3,), (0, 1), (1, 2, 3), (4,)],
                het=[(), (0,), (1,), (2,), (0, 1), (3, 14)],
                rings=[(), (0,), (3,), (5,), (6,), (5, 6), (3, 4), (8,), (7, 12, 65)])
    kinds = [('E', dict(num=6)), ('E', dict(num=7)), ('E', dict(num=8)), ('E', dict(num=26)), ('E', dict(num=1)), ('E', dict(num=118)),
             ('A', {}), ('L', dict(nums=(6, 7))), ('L', dict(nums=(8, 16, 9))), ('L', dict(nums=(26,)))]
    for kind, kw in kinds:
        put(Q(kind, **kw))
        for x, vs in vals.items():
            for v in vs:
                put(Q(kind, **dict(kw, **{x: v})))
    for iso in (None, 0, 12, 13, 14):
        for num in (6, 1):
            put(Q('E', num=num, iso=iso))
            put(Q('E', num=num, iso=iso, nb=(1, 2)))
    names = list(vals)
    for x, y in itertools.combinations(names, 2):       # pairs of primitives
        for kind, kw in (('E', dict(num=6)), ('A', {}), ('L', dict(nums=(6, 7, 8)))):
            for vx in vals[x][1:4]:
                for vy in vals[y][1:4]:
                    put(Q(kind, **dict(kw, **{x: vx, y: vy})))
    for nb in vals['nb']:
        for hyb in vals['hyb']:
            put(Q('M', nb=nb, hyb=hyb))
    for _ in range(150 if ck.tier == 'quick' else 1500):
        kind, kw = rng.choice(kinds)
        put(Q(kind, iso=rng.choice([None, None, 13]) if kind == 'E' else None, **dict(kw, **{k: rng.choice(v) for k, v in vals.items()})))
    # a set written into the private slot (what from_atom did before fix e7bbf46): the comparison raises TypeError
    for rings in ((5,), (5, 6)):
        put(Q('E', num=6, rings=rings, rset=True))
        put(Q('A', rings=rings, rset=True, nb=(2,)))
    return list(qs.values())


def corr_match(ck):
    rng = random.Random(f'{ck.seed}:c08-match')
    atoms = atom_grid(ck, rng)
    queries = query_grid(ck, rng)
    real_atoms = [a.real() for a in atoms]
    bt = Batches('c08_match', extra='Import ListNotations. Open Scope Z_scope. Definition atoms0 : list latom := ' + lst([a.term() for a in atoms], per_line=1) + '.')
    n_true = 0
    for q in queries:
        try:
            rq = q.real()
        except Exception as e:
            ck.unchecked('query grid', f'cannot build {q.key()}: {type(e).__name__}: {e}')
            continue
        row = []
        for a, ra in zip(atoms, real_atoms):
            got = real_match(rq, ra)
            want = ref_match(q, a)
            row.append('E' if got == 'E' else '1' if got else '0')
            if got is True:
                ck.case(('match', q.key(), a.key()))
                n_true += 1
            else:
                ck.evaluations += 1
            if got != want:
                ck.counterexample(f'match:{q.kind}:{primitive_of(q)}',
                                  f'{type(rq).__name__}.__eq__ disagrees with the documented conjunction',
                                  {'query': q.key(), 'atom': a.key()}, got, want, 'Python reference of the documented conjunction',
                                  replay_py=replay_match(q, a))
        bt.add(f'b_match_idx {q.term()} atoms0 {lst([i for i, r in enumerate(row) if r == "1"], zraw)} {lst([i for i, r in enumerate(row) if r == "E"], zraw)}',
               (q.key(), ''.join(row)))
        ck.count(f'match:kind={q.kind}')
    ck.count('match:pairs', len(queries) * len(atoms))
    ck.count('match:true', n_true)
    ok, bad, log = bt.run()
    good = conclude(ck, 'QueryElement/AnyElement/ListElement/AnyMetal.__eq__ == match_atom', bt, ok, bad, log)
    if not good:
        directed_match(ck, [Q(*k[:1], **dict(zip(('num', 'nums', 'iso', 'chg', 'rad', 'nb', 'hyb', 'h', 'het', 'rings', 'rset'), k[1:])))
                            for k, _ in bad[:30]])
    return good


def primitive_of(q):
    names = [n for n in ('iso', 'nb', 'hyb', 'h', 'het', 'rings') if getattr(q, n)]
    return '+'.join(names) or 'element'


def replay_match(q, a):
    return (f"import checks.C08 as c\nq = c.Q(*{q.key()[:1]!r}, **dict(zip(('num','nums','iso','chg','rad','nb','hyb','h','het','rings','rset'), {q.key()[1:]!r})))\n"
            f"a = c.A(*{a.key()!r})\nprint('real', c.real_match(q.real(), a.real()), 'documented', c.ref_match(q, a))")


def directed_match(ck, queries):
    """the correspondence disagreed: the documented-conjunction oracle on and around the disagreeing queries
    (every single-attribute variation of the query against a dense atom grid)"""
    rng = random.Random(f'{ck.seed}:c08-directed')
    axes = dict(num=[1, 6, 7, 8, 26, 118], iso=[None, 12, 13], chg=[-1, 0, 1], rad=[False, True], nb=list(range(0, 7)), hyb=[1, 2, 3, 4],
                h=[None, 0, 1, 2, 3], het=[0, 1, 2, 3], rings=[(), (3,), (5,), (6,), (5, 6), (8,)])
    atoms = [A(**{k: rng.choice(v) for k, v in axes.items()}) for _ in range(3000)]
    real_atoms = [a.real() for a in atoms]
    for q in queries:
        variants = [q]
        for name, vs in (('nb', [(), (1,), (2, 3)]), ('hyb', [(), (2,), (1, 4)]), ('h', [(), (0,), (1, 2)]), ('het', [(), (1,)]),
                         ('rings', [(), (0,), (5,), (5, 6)])):
            for v in vs:
                k = dict(zip(('num', 'nums', 'iso', 'chg', 'rad', 'nb', 'hyb', 'h', 'het', 'rings', 'rset'), q.key()[1:]))
                k[name] = v
                variants.append(Q(q.kind, **k))
        for v in variants:
            try:
                rq = v.real()
            except Exception:
                continue
            for a, ra in zip(atoms, real_atoms):
                got, want = real_match(rq, ra), ref_match(v, a)
                ck.case(('directed-match', v.key(), a.key()))
                if got != want:
                    ck.counterexample(f'match:{v.kind}:{primitive_of(v)}', f'{type(rq).__name__}.__eq__ disagrees with the documented conjunction',
                                      {'query': v.key(), 'atom': a.key()}, got, want, 'Python reference of the documented conjunction (directed)',
                                      replay_py=replay_match(v, a))
                    break


def corr_from_atom(ck):
    """QueryElement.from_atom on synthetic and corpus atoms, every combination of the five flags"""
    from chython.periodictable import QueryElement
    rng = random.Random(f'{ck.seed}:c08-from-atom')
    atoms = atom_grid(ck, rng)
    atoms = [a for a in atoms if a.iso != 0][:: (4 if ck.tier == 'quick' else 1)]
    bt = Batches('c08_from', extra='Import ListNotations. Open Scope Z_scope.')
    for a in atoms:
        ra = a.real()
        rows, flagsets = [], list(itertools.product((False, True), repeat=5))
        for f_nb, f_hyb, f_het, f_h, f_rings in flagsets:
            try:
                q = QueryElement.from_atom(ra, neighbors=f_nb, hybridization=f_hyb, heteroatoms=f_het, hydrogens=f_h, ring_sizes=f_rings)
                rows.append(show_qatom(q) + ('1' if q == ra else '0'))
            except Exception as e:
                rows.append(sexn(e))
            ck.case(('from_atom-grid', a.key(), f_nb, f_hyb, f_het, f_h, f_rings), nontrivial=bool(a.rings))
        bt.add(f'b_from_atom {a.term()} {cstr(chr(10).join(rows))}', (a.key(), rows))
    ck.count('from_atom:atoms', len(atoms))
    ok, bad, log = bt.run()
    return conclude(ck, 'QueryElement.from_atom == from_atom (all 32 flag combinations; built query and whether it matches its atom)', bt, ok, bad, log)


# ----------------------------------------------------------------------------------------------------------------
# correspondence 2: QueryBond.__eq__(Bond), exhaustive

def corr_bonds(ck):
    from chython.containers.bonds import Bond, QueryBond
    orders = (1, 2, 3, 4, 8)
    bonds = [(o, r) for o in orders for r in (False, True)]
    real_bonds = []
    for o, r in bonds:
        bd = Bond(o)
        bd._in_ring = r
        real_bonds.append(bd)
    bt = Batches('c08_bond', extra='Import ListNotations. Open Scope Z_scope. Definition bonds0 : list lbond := ' + lst([f'(mkLB {o} {b(r)})' for o, r in bonds]) + '.')
    for k in range(1, 6):
        for sub in itertools.combinations(orders, k):
            for ring in (None, True, False):
                q = QueryBond(list(sub), ring)
                row = ''
                for (o, r), bd in zip(bonds, real_bonds):
                    got = bool(q.__eq__(bd))
                    want = o in sub and (ring is None or ring == r)
                    row += '1' if got else '0'
                    ck.case(('bond', sub, ring, o, r), nontrivial=got)
                    if got != want:
                        ck.counterexample(f'bond-match:{"ring" if ring is not None else "order"}', 'QueryBond.__eq__(Bond) disagrees with: order listed and ring mark agrees',
                                          {'orders': sub, 'in_ring': ring, 'bond': (o, r)}, got, want, 'definition',
                                          replay_py=f"from chython.containers.bonds import Bond, QueryBond\nb=Bond({o}); b._in_ring={r}\nprint(QueryBond({list(sub)}, {ring}) == b)")
                # the constructor normalises: sorted tuple of distinct orders
                if q.order != tuple(sorted(set(sub))):
                    ck.counterexample('bond-order-normal', 'QueryBond does not store the sorted tuple of distinct orders', {'orders': sub}, q.order,
                                      tuple(sorted(set(sub))), 'definition')
                bt.add(f'b_bmatch (mkQB {lst(q.order, zraw)} {opt(ring, b)}) bonds0 {cstr(row)}', (sub, ring, row))
    ck.count('bond:pairs', len(bt.cases) * len(bonds))
    ok, bad, log = bt.run()
    return conclude(ck, 'QueryBond.__eq__(Bond) == qbond_match (exhaustive: 31 order sets x 3 ring marks x 10 bonds)', bt, ok, bad, log)


# ----------------------------------------------------------------------------------------------------------------
# correspondence 3: calc_labels (rows of every atom, ring mark of every bond) given the real SSSR

LABEL_SMILES = ['C', 'CC', 'C=C', 'C#C', 'C=C=C', 'c1ccccc1', 'C1CC1', 'C1CC2CCC1C2', 'C12C3C4C1C5C2C3C45', 'O=C=O', 'N#CC=C',
                '[H]C([H])([H])[H]', '[2H]O', 'C[N+](=O)[O-]', 'c1ccc2ccccc2c1', 'C1CCC2(CC1)CCCC2', 'OC(=O)c1ccccc1', 'S(=O)(=O)(O)O',
                'C#CC#C', 'C=CC=C', 'c1cc[nH]c1', 'FC(F)(F)F', 'C1=CC=CC=C1', '[Na+].[Cl-]', 'CC(C)(C)C', 'C1CC1C1CC1', 'B1OB1']


def hash_seq(seq):
    h = 0
    for x in seq:
        h = h * 7 + x
    return h


def label_molecules(ck):
    from chython import smiles
    mols = []
    for smi in LABEL_SMILES + corpus.sample(corpus.lipo(), 120 if ck.tier == 'quick' else 1500, ck.seed, 'c08-labels'):
        try:
            m = smiles(smi)
        except Exception:
            continue
        if m is not None and len(m) <= 60:
            mols.append((smi, m))
    # special (order 8) bonds: coordinate bonds inside and outside rings, added through the public API
    for smi, pairs in (('C1CCNCC1.[Cu]', [(4, 7)]), ('NCCN.[Pt]', [(1, 5), (4, 5)]), ('c1ccncc1.[Fe].C=C', [(4, 7), (7, 8), (7, 9)]),
                       ('C1CC1', [(1, 3)] and []), ('OCC(O)CO.[B]', [(1, 7), (4, 7), (6, 7)])):
        m = smiles(smi)
        for n, k in pairs:
            m.add_bond(n, k, 8)
        mols.append((smi + ' +special' + repr(pairs), m))
    # atoms that have aromatic bonds AND an exocyclic multiple bond, in every position of the bond table (the ring closed on the
    # atom before or after the '=O', the '=O' in a branch between the ring bonds, or written first)
    for smi in ('c1ccc[nH]c1=O', 'Cn1ccccc1=O', 'O=c1cccc[nH]1', 'c1cc(=O)cc[nH]1', 'O=c1cc[nH]ccc1=O', 'c1ccs(=O)c1', 'O=c1[nH]c(=O)c2ccccc2[nH]1',
                'c1ccoc(=O)c1', 'c12ccccc1c(=O)[nH]c2=O', 'c1ccc(=C)cc1', 'C=c1cccc[nH]1', 'c1cc[n+](=O)cc1', 'c1ccp(#N)cc1', 'N#p1ccccc1'):
        try:
            mols.append((smi, smiles(smi)))
        except Exception:
            pass
    # every sequence of at most four bond orders around one atom (exhaustive: 5 + 25 + 125 + 625 stars), built through the API so
    # that the bond table has exactly that order; neighbours alternate C, O, H, N
    from chython import MoleculeContainer
    import itertools as _it
    for k in ((1, 2, 3, 4) if ck.tier == 'quick' else (1, 2, 3, 4, 5)):
        for seq in _it.product((1, 2, 3, 4, 8), repeat=k):
            if ck.tier == 'quick' and k == 4 and (hash_seq(seq) + ck.seed) % 3:
                continue
            m = MoleculeContainer()
            c = m.add_atom('C')
            for i, o in enumerate(seq):
                m.add_bond(c, m.add_atom(('C', 'O', 'H', 'N')[i % 4]), o)
            mols.append(('star' + ''.join(map(str, seq)), m))
    m = smiles('C1CCCCC1')
    m.delete_bond(1, 2)
    m.add_bond(1, 2, 8)        # a ring closed only by a special bond is no ring
    mols.append(('C1CCCCC1 with 1-2 special', m))
    return mols


def label_replay(name, n):
    if name.startswith('star'):
        seq = [int(c) for c in name[4:]]
        return ("from chython import MoleculeContainer\nm=MoleculeContainer(); c=m.add_atom('C')\n"
                f"for i, o in enumerate({seq}): m.add_bond(c, m.add_atom(('C','O','H','N')[i % 4]), o)\n"
                "m.calc_labels(); a=m.atom(c); print(a.neighbors,a.heteroatoms,a.hybridization,a.explicit_hydrogens)")
    return (f"from chython import smiles\nm=smiles({name.split()[0]!r}); a=m.atom({n}); "
            "print(a.neighbors,a.heteroatoms,a.hybridization,a.explicit_hydrogens,a.in_ring,a.ring_sizes)")


def ref_labels(m):
    """neighbours / heteroatoms / hybridisation / explicit H recounted from the raw graph by the documented definitions"""
    out = {}
    for n, nbrs in m._bonds.items():
        env = [(m._atoms[k].atomic_number, int(bd)) for k, bd in nbrs.items() if int(bd) != 8]
        orders = [o for _, o in env]
        if 4 in orders:
            hyb = 4
        elif 3 in orders or orders.count(2) >= 2:
            hyb = 3
        elif orders.count(2) == 1:
            hyb = 2
        else:
            hyb = 1
        out[n] = (len(env), sum(1 for z, _ in env if z not in (1, 6)), hyb, sum(1 for z, _ in env if z == 1))
    return out


def corr_labels(ck):
    helper = ''
    bt = Batches('c08_labels', extra=helper)
    for name, m in label_molecules(ck):
        m.calc_labels()
        sssr = [list(r) for r in m.sssr]
        rows, brows = [], []
        ref = ref_labels(m)
        for n, a in m.atoms():
            row = (a.neighbors, a.heteroatoms, a.hybridization, a.explicit_hydrogens, a.in_ring, sorted(a.ring_sizes))
            rows.append((n, row))
            ck.case(('labels', name, n), nontrivial=a.neighbors > 0)
            ck.count(f'labels:hyb={a.hybridization}')
            ck.count(f'labels:rings={min(len(a.ring_sizes), 3)}')
            want_sizes = sorted({len(r) for r in sssr if n in r})
            if row[:4] != ref[n] or row[4] != bool(want_sizes) or row[5] != want_sizes:
                ck.counterexample(f'labels:{"ring" if row[:4] == ref[n] else "counts"}', 'calc_labels disagrees with the documented definition of neighbors / heteroatoms / hybridization / explicit hydrogens / ring sizes',
                                  {'molecule': name, 'atom': n}, row, ref[n] + (bool(want_sizes), want_sizes), 'recount from the raw graph and the SSSR',
                                  replay_py=label_replay(name, n))
        for n, k, bd in m.bonds():
            brows.append((n, k, bd.in_ring))
            brows.append((k, n, bd.in_ring))
            want = int(bd) != 8 and any(n in r and k in r for r in sssr)
            ck.count(f'labels:bond-order={int(bd)}:ring={bd.in_ring}')
            if bd.in_ring != want:
                ck.counterexample('labels:bond-ring', 'bond.in_ring is not "both ends in a common SSSR ring and not a special bond"',
                                  {'molecule': name, 'bond': (n, k)}, bd.in_ring, want, 'recount from the SSSR')
        rterm = lst([f'({zraw(n)}, ({r[0]}, {r[1]}, {r[2]}, {r[3]}, {b(r[4])}, {lst(r[5], zraw)}))' for n, r in rows])
        bterm = lst([f'({zraw(n)}, {zraw(k)}, {b(r)})' for n, k, r in brows])
        bt.add(f'labels_ok {coqmol.mol_term(m)} {lst([lst(r, zraw) for r in sssr])} {rterm} {bterm}', name)
    ok, bad, log = bt.run()
    return conclude(ck, 'MoleculeContainer.calc_labels == label_row / bond_ring_label (corpus + special-bond molecules, real SSSR as input)', bt, ok, bad, log)


# ----------------------------------------------------------------------------------------------------------------
# correspondence 4/5: _query_parse and the atom built by smarts('[body]')

BODY_ALPHA = 'CN#120+-:@?;,DhrxzaAM!R'


def show_parsed(d):
    el = d['element']
    els = el if isinstance(el, list) else [el]
    def ival(v):
        return 'i' + str(v) if isinstance(v, int) else zs(v)
    st = d.get('stereo')
    return '|'.join([sopt(str, d.get('isotope')), sopt(str, d.get('charge')), sopt(str, d.get('parsed_mapping')), sopt(sbool, st),
                     ','.join('#' + str(x) if isinstance(x, int) else x for x in els), sopt(zs, d.get('neighbors')),
                     sopt(zs, d.get('implicit_hydrogens')), sopt(ival, d.get('ring_sizes')), sopt(zs, d.get('heteroatoms')),
                     sopt(ival, d.get('hybridization')), sbool(d.get('masked', False))])


def real_parse(body):
    from chython.files.daylight.tokenize import _query_parse
    try:
        return show_parsed(_query_parse(body)[1])
    except Exception as e:
        return sexn(e)


def show_qatom(a):
    from chython.periodictable import AnyElement, AnyMetal, ListElement, Element
    if isinstance(a, AnyMetal):
        return 'M' + zs(a.neighbors) + zs(a.hybridization)
    qx = f'{a.charge}|{sbool(a.is_radical)}|' + zs(a.neighbors) + zs(a.hybridization) + zs(a.implicit_hydrogens) + zs(a.heteroatoms) + zs(a.ring_sizes)
    if isinstance(a, AnyElement):
        return 'A|' + qx
    if isinstance(a, ListElement):
        return 'L' + zs([Element.from_symbol(x)().atomic_number for x in a._elements]) + '|' + qx
    return f'E{a.atomic_number}|{sopt(str, a.isotope)}|' + qx


def real_atom(body):
    from chython import smarts
    try:
        q = smarts('[' + body + ']')
    except Exception as e:
        return sexn(e), e
    (n, a), = list(q.atoms())
    return show_qatom(a), a


def gen_bodies(ck, rng, n):
    """structured bracket bodies (documented subset, every field optional) and mutations of them"""
    out = []
    elements = ['C', 'N', 'O', 'S', 'Cl', 'Br', 'Fe', 'A', 'M', '#6', '#7', '#26', 'H', 'Si', 'Na', 'Xx', '#0', '#119', '#118', 'c']
    for _ in range(n):
        parts = []
        if rng.random() < .2:
            parts.append(str(rng.choice([1, 2, 12, 13, 14, 35, 0, 999])))
        k = rng.choice([1, 1, 1, 2, 3])
        parts.append(','.join(rng.choice(elements) for _ in range(k)))
        seps = []       # charge / stereo marks written as ';' segments of their own (the documented preferable form)
        if rng.random() < .15:
            (seps if rng.random() < .5 else parts).append(rng.choice(['@', '@@', '@?']))
        if rng.random() < .3:
            (seps if rng.random() < .5 else parts).append(rng.choice(['+', '-', '++', '--', '+2', '-3', '+4', '+-', '-+', '+5', '+1', '-1']))
        prims = []
        for _ in range(rng.choice([0, 1, 1, 2, 3])):
            t = rng.choice('DhrxzDhrxz' + 'aAMR')
            if t == 'a':
                prims.append('a')
            elif t == 'A':
                prims.append('A')
            elif t == 'M':
                prims.append('M')
            elif t == 'R':
                prims.append('!R')
            else:
                vals = rng.sample(range(0, 16), rng.choice([1, 1, 2, 3]))
                if rng.random() < .1:
                    vals.append(vals[0])
                prims.append(','.join(t + str(v) for v in vals))
        for x in seps:      # in any position among the primitives
            prims.insert(rng.randrange(len(prims) + 1), x)
        body = ''.join(parts) + ''.join(';' + p for p in prims)
        if rng.random() < .2:
            body += ':' + str(rng.choice([1, 2, 10, 999, 0]))
        out.append(body)
        if rng.random() < .5:           # a mutation: drop / duplicate / replace / insert one character
            i = rng.randrange(len(body))
            c = rng.choice(BODY_ALPHA + 'HOSl_. 3459')
            out.append(rng.choice([body[:i] + body[i + 1:], body[:i] + body[i] + body[i:], body[:i] + c + body[i + 1:], body[:i] + c + body[i:]]))
    return [x for x in out if x and all(32 < ord(c) < 127 and c not in '[]"' for c in x)]


def sep_bodies(ck):
    """every way of writing ONE charge or stereo mark (glued to the element, or as a ';' segment before / between / after the
    primitives) x element spellings x one or two primitives of every kind; two marks (stereo and charge) in every pair of positions"""
    heads = ['C', 'N', '#8', 'C,N', 'A', '13C', 'Cl,Br']
    marks = ['+', '-', '++', '-2', '@', '@@']
    prims = ['D2', 'h1', 'r5,r6', 'x1', 'z2,z3', 'a', '!R', 'M', 'D1,D3']
    sets = [[p] for p in prims] + [[p, q] for i, p in enumerate(prims) for q in prims[i + 1:] if not (p[0] == q[0] or {p, q} in ({'a', 'z2,z3'}, {'!R', 'r5,r6'}))]
    if ck.tier == 'quick':
        sets = sets[:len(prims)] + sets[len(prims) + ck.seed % 3::3]
    out = []
    for h_i, h in enumerate(heads):
        for ps in sets:
            for m_i, mk in enumerate(marks):
                if ck.tier == 'quick' and len(ps) == 2 and (h_i + m_i) % 2:
                    continue
                out.append(h + mk + ''.join(';' + p for p in ps))
                for pos in range(len(ps) + 1):
                    out.append(';'.join([h] + ps[:pos] + [mk] + ps[pos:]))
    for h in heads[:4]:
        for ps in sets[:len(prims)] + sets[len(prims)::7]:
            for st in ('@', '@@'):
                for chg in ('+', '-'):
                    for i in range(len(ps) + 1):
                        for j in range(len(ps) + 1):
                            segs = list(ps)
                            segs.insert(i, st)
                            segs.insert(j, chg)
                            out.append(';'.join([h] + segs))
    return list(dict.fromkeys(out))


def corr_parse(ck):
    rng = random.Random(f'{ck.seed}:c08-parse')
    bp = Batches('c08_parse', extra=f'Definition al : string := {cstr(BODY_ALPHA)}.')
    ba = Batches('c08_atom', extra=f'Definition al : string := {cstr(BODY_ALPHA)}.')
    prefixes = ['']
    for k in (1, 2):
        prefixes += [''.join(t) for t in itertools.product(BODY_ALPHA, repeat=k)]
    p3 = [''.join(t) for t in itertools.product(BODY_ALPHA, repeat=3)]
    prefixes += p3 if ck.tier == 'thorough' else rng.sample(p3, 60)
    p4 = [''.join(rng.choice(BODY_ALPHA) for _ in range(rng.choice([4, 5, 6, 7]))) for _ in range(80 if ck.tier == 'quick' else 3000)]
    prefixes += p4
    classes = {}
    bad_inputs = []
    def note(body, rp, ra):
        ck.case(('body', body), nontrivial=not rp.startswith('!'))
        classes[rp[:2] if rp.startswith('!') else 'ok'] = classes.get(rp[:2] if rp.startswith('!') else 'ok', 0) + 1
        if ra.startswith('!') and ra not in ('!A', '!S', '!V'):
            bad_inputs.append(body)
    for k_, pre in enumerate(prefixes):
        ins = [pre + c for c in BODY_ALPHA]
        rp = [real_parse(x) for x in ins]
        ra = [real_atom(x)[0] for x in ins]
        for x, p_, a_ in zip(ins, rp, ra):
            note(x, p_, a_)
        bp.add(f'sw_parse {cstr(pre)} al {cstr(chr(10).join(rp))}', (pre, rp))
        # quick: the atom construction is evaluated in Coq for every body of length <= 2 and a third of the longer prefixes
        # (the real smarts() runs on all of them: exception classes are always checked)
        if ck.tier == 'thorough' or len(pre) < 2 or (k_ + ck.seed) % 3 == 0:
            ba.add(f'sw_atom {cstr(pre)} al {cstr(chr(10).join(ra))}', (pre, ra))
    sep = sep_bodies(ck)
    ck.count('parse:separated-mark-bodies', len(sep))
    bodies = gen_bodies(ck, rng, 350 if ck.tier == 'quick' else 7000) + (sep if ck.tier == 'thorough' else sep[ck.seed % 4::4])
    for i in range(0, len(bodies), 25):
        part = bodies[i:i + 25]
        rp = [real_parse(x) for x in part]
        ra = [real_atom(x)[0] for x in part]
        for x, p_, a_ in zip(part, rp, ra):
            note(x, p_, a_)
        bp.add(f'b_parse {lst(part, cstr)} {cstr(chr(10).join(rp))}', (part, rp))
        ba.add(f'b_atom {lst(part, cstr)} {cstr(chr(10).join(ra))}', (part, ra))
    for k, v in classes.items():
        ck.count(f'parse:{k}', v)
    for body in bad_inputs[:50]:
        report_crash(ck, '[' + body + ']')
    ok, bad, log = bp.run()
    g1 = conclude(ck, '_query_parse == query_parse (all bodies of length <= 3 over 23 characters, sampled length 4-8, generated and mutated bodies)', bp, ok, bad, log)
    ok2, bad2, log2 = ba.run()
    g2 = conclude(ck, "atom of smarts('[body]') == smarts_atom (same bodies: class, numbers, isotope, charge, tuples, exception class)", ba, ok2, bad2, log2)
    if not (g1 and g2):
        directed_bodies(ck, [x for m_ in (bad + bad2)[:10] for x in ((m_[0] if isinstance(m_[0], list) else [m_[0] + c for c in BODY_ALPHA]))])
    return g1 and g2


# ----------------------------------------------------------------------------------------------------------------
# correspondence 5b: the four regular expressions of _query_parse against the scanners that stand for them in the translated
# function (the only hand-modelled part of _query_parse left), and int() on the digit groups

RE_ALPHA = '+-14:@?;C05'
SCAN_EXTRA = '''From Gen Require Import QueryParseBody.
Open Scope string_scope.
Definition show_m (o : option mobj) : string :=
  match o with None => "-" | Some m => show_z (g_len (m_pre m)) ++ "." ++ show_z (g_len (m_pre m) + g_len (m_grp m)) end.
Definition show_int (r : pyres Z) : string := match r with Ok n => show_z n | Err _ => "!" end.
Definition show_scans (s : str) : string :=
  "i" ++ show_m (re_match_iso_re s) ++ "=" ++ match re_match_iso_re s with Some m => show_int (g_int (m_grp m)) | None => "" end ++
  "c" ++ show_m (re_search_chg_re s) ++
  "m" ++ show_m (re_search_mpp_re s) ++ "=" ++ match re_search_mpp_re s with Some m => show_int (g_int (tl (m_grp m))) | None => "" end ++
  "s" ++ show_m (re_search_str_re s).
Definition sw_scans (prefix alpha : string) := batch (fun s => show_scans (s2l s)) (sweep prefix alpha).
Close Scope string_scope.'''


def real_scans(s):
    from re import match, search
    from chython.files.daylight import tokenize as tk
    def sm(m):
        return '-' if m is None else f'{m.start()}.{m.end()}'
    def si(f):
        try:
            return str(f())
        except Exception:
            return '!'
    i, c, m, st = match(tk.iso_re, s), search(tk.chg_re, s), search(tk.mpp_re, s), search(tk.str_re, s)
    return ('i' + sm(i) + '=' + (si(lambda: int(i.group())) if i else '') + 'c' + sm(c) +
            'm' + sm(m) + '=' + (si(lambda: int(m.group()[1:])) if m else '') + 's' + sm(st))


def corr_regex(ck):
    rng = random.Random(f'{ck.seed}:c08-regex')
    bt = Batches('c08_scan', extra=f'Definition al : string := {cstr(RE_ALPHA)}.\n' + SCAN_EXTRA)
    prefixes = [''] + [''.join(t) for k in ((1, 2) if ck.tier == 'quick' else (1, 2, 3)) for t in itertools.product(RE_ALPHA, repeat=k)]
    prefixes += [''.join(rng.choice(RE_ALPHA) for _ in range(rng.choice([3, 4, 5, 7]))) for _ in range(160 if ck.tier == 'quick' else 3000)]
    for pre in dict.fromkeys(prefixes):
        rows = [real_scans(pre + c) for c in RE_ALPHA]
        for c, r in zip(RE_ALPHA, rows):
            ck.case(('scan', pre + c), nontrivial=r != 'i-=c-m-=s-')
        bt.add(f'sw_scans {cstr(pre)} al {cstr(chr(10).join(rows))}', (pre, rows))
    ck.count('scan:strings', len(bt.cases) * len(RE_ALPHA))
    ok, bad, log = bt.run()
    return conclude(ck, 're.match(iso_re) / re.search(chg_re, mpp_re, str_re) (span of the leftmost match) and int() of the digit groups == the '
                        'scanners of the translated _query_parse (every string of length <= 3 over 11 characters, sampled longer)', bt, ok, bad, log)


# ----------------------------------------------------------------------------------------------------------------
# property-level oracle for bracket atoms: an independent reader of canonical bodies

HEAD = re.compile(r'^(?P<iso>[1-9][0-9]*)?(?P<el>[A-Z][a-z]?(?:,[A-Z][a-z]?)*|#[0-9]+(?:,#[0-9]+)*)(?P<st>@@?)?(?P<chg>\+\+?|--?|[+-][1-4])?$')
SEG_CHG = re.compile(r'^(?:\+\+?|--?|[+-][1-4])$')
SEG_PRIM = re.compile(r'^(?:!R|a|M|[Dhrxz][0-9]+(?:,[Dhrxz][0-9]+)*)$')


class _Body:
    """the segments of a bracket body of the documented subset, read by splitting at ';' (independent of the code's scans):
    [isotope] elements [@|@@] [charge] (';' (charge | @ | @@ | primitive))* [':' number]; the charge and the stereo mark may be
    glued to the element or stand as a segment of their own in ANY position ("<;> ... preferable for charge, stereo marks")"""

    def __init__(self, body):
        self.ok = False
        mp = re.search(r':([1-9][0-9]*)$', body)
        if mp:
            body = body[:mp.start()]
        self.map = int(mp.group(1)) if mp else None
        segs = body.split(';')
        h = HEAD.match(segs[0])
        if not h:
            return
        self.iso, self.el, self.st, self.chg = h['iso'], h['el'], h['st'], h['chg']
        self.prims = []
        for sg in segs[1:]:
            if SEG_CHG.match(sg):
                if self.chg:
                    return      # two charge marks: not defined
                self.chg = sg
            elif sg in ('@', '@@'):
                if self.st:
                    return
                self.st = sg
            elif SEG_PRIM.match(sg):
                self.prims.append(sg)
            else:
                return
        self.ok = True

    def __getitem__(self, k):
        return getattr(self, k)


def ref_body(body):
    """what a bracket body of the documented subset denotes, read independently (split at ';' + the documentation of smarts());
    None when the body is outside the subset or the documentation does not define it"""
    from chython.periodictable import Element
    m = _Body(body)
    if not m.ok:
        return None
    d = dict(iso=int(m['iso']) if m['iso'] else None, chg=0, nb=(), hyb=(), h=(), het=(), rings=())
    if m['chg']:
        c = m['chg']
        d['chg'] = (1 if c[0] == '+' else -1) * (int(c[1]) if c[-1].isdigit() else len(c))
    seen = set()
    reject = False
    for p in m['prims']:
        if p == 'a':
            key, val = 'hyb', (4,)
        elif p == '!R':
            key, val = 'rings', (0,)
        elif p == 'M':
            continue
        else:
            letters = {x[0] for x in p.split(',')}
            if len(letters) != 1:
                return None
            key = {'D': 'nb', 'h': 'h', 'r': 'rings', 'x': 'het', 'z': 'hyb'}[p[0]]
            val = tuple(sorted(int(x[1:]) for x in p.split(',')))
            lo, hi = {'nb': (0, 14), 'h': (0, 14), 'het': (0, 14), 'hyb': (1, 4), 'rings': (3, 10 ** 9)}[key]
            if len(set(val)) != len(val) or any(v < lo or v > hi for v in val):
                reject = True       # documented ranges: D h x in [0, 14], z in [1, 4], r >= 3, values unique
        if key in seen:
            return None         # the same primitive twice: not defined by the documentation
        seen.add(key)
        d[key] = val
    if reject:
        return 'REJECT'
    els = m['el'].split(',')
    nums = []
    for e in els:
        if e in ('A', 'M'):
            nums.append(e)
            continue
        try:
            nums.append(Element.from_atomic_number(int(e[1:]))().atomic_number if e[0] == '#' else Element.from_symbol(e)().atomic_number)
        except Exception:
            return None
    marks = (None if not m['st'] else m['st'] == '@', 'M' in m['prims'])
    def mk(*a, **kw):
        q = Q(*a, **kw)
        q.marks = marks      # (stereo mark, masked flag) the spelling asks for
        return q
    if len(nums) > 1:
        if any(isinstance(x, str) for x in nums) or d['iso'] is not None:
            return None
        return mk('L', nums=nums, **{k: v for k, v in d.items() if k != 'iso'})
    if nums[0] == 'A':
        return None if d['iso'] is not None else mk('A', **{k: v for k, v in d.items() if k != 'iso'})
    if nums[0] == 'M':
        if d['iso'] is not None or d['chg'] or d['h'] or d['het'] or d['rings'] or m['st']:
            return None
        return mk('M', nb=d['nb'], hyb=d['hyb'])
    return mk('E', num=nums[0], **d)


def marks_of(a):
    return (getattr(a, 'stereo', None), bool(a.masked))


def q_show(q):
    """the text show_qatom gives for the real object a description denotes"""
    if q.kind == 'M':
        return 'M' + zs(q.nb) + zs(q.hyb)
    qx = f'{q.chg}|{sbool(q.rad)}|' + zs(q.nb) + zs(q.hyb) + zs(q.h) + zs(q.het) + zs(q.rings)
    return {'A': 'A|', 'L': 'L' + zs(q.nums) + '|', 'E': f'E{q.num}|{sopt(str, q.iso)}|'}[q.kind] + qx


def check_body(ck, body, where):
    """exception class of smarts('[body]') and, for canonical bodies, the denoted query atom"""
    got, obj = real_atom(body)
    ck.case((where, body), nontrivial=not got.startswith('!'))
    if got.startswith('!') and got not in ('!A', '!S', '!V'):
        report_crash(ck, '[' + body + ']')
        return
    want = ref_body(body)
    if want == 'REJECT':
        ck.count(f'{where}:canonical-out-of-range')
        if not got.startswith('!'):
            ck.counterexample('smarts-atom-range-accepted', 'a primitive value outside the documented range (or a repeated value) is accepted',
                              {'smarts': '[' + body + ']'}, got, 'ValueError / IncorrectSmarts', 'documented ranges of the primitives',
                              replay_py=f"import checks.C08 as c\nprint(c.real_atom({body!r})[0])")
    elif want is not None:
        ck.count(f'{where}:canonical')
        if re.search(r';[-+@]', body):
            ck.count(f'{where}:canonical-with-separated-mark')
        gm = () if got.startswith('!') else marks_of(obj)
        if got != q_show(want) or gm != want.marks:
            ck.counterexample(f'smarts-atom-denotation:{primitive_of(want)}', "smarts('[body]') does not build the documented query atom",
                              {'smarts': '[' + body + ']'}, (got,) + gm, (q_show(want),) + want.marks,
                              'independent reader of bracket bodies (split at ;): class, element(s), isotope, charge, value tuples, stereo mark, masked flag',
                              replay_py=f"import checks.C08 as c\nprint(c.real_atom({body!r}), c.q_show(c.ref_body({body!r})), c.ref_body({body!r}).marks)")


def directed_bodies(ck, bodies):
    rng = random.Random(f'{ck.seed}:c08-directed-bodies')
    for body in bodies[:400]:
        check_body(ck, body, 'directed-body')
        for _ in range(20):
            if not body:
                break
            i = rng.randrange(len(body))
            c = rng.choice(BODY_ALPHA)
            check_body(ck, rng.choice([body[:i] + body[i + 1:], body[:i] + c + body[i + 1:], body[:i] + c + body[i:]]), 'directed-body')


KNOWN_CRASH = [
    ('IndexError', '_query_parse', 'smarts-or-empty-alternative'),
    ('KeyError', '_query_parse', 'smarts-charge-keyerror'),
    ('TypeError', '__init__:unexpected keyword', 'smarts-unsupported-kwarg-typeerror'),
    ('IndexError', 'smarts', 'smarts-cx-radical-index'),
    ('AttributeError', 'smarts', 'smarts-stereo-on-bond-list'),
    ('KeyError', 'smarts', 'smarts-stereo-popitem-keyerror'),
    ('KeyError', '_tokenize', 'smarts-not-any-bond-keyerror'),
    ('TypeError', '__init__:invalid order', 'smarts-double-ring-mark-typeerror'),
    ('IndexError', '_tokenize', 'smarts-leading-ring-mark-indexerror'),
]


def report_crash(ck, text):
    """smarts(text) raised something that is not a ValueError: a counterexample, keyed by exception class and place"""
    from chython import smarts
    try:
        smarts(text)
        return
    except ValueError:
        return
    except Exception as e:
        fn = traceback.extract_tb(e.__traceback__)[-1].name
        name = type(e).__name__
        key = None
        for n, place, k in KNOWN_CRASH:
            f, _, msg = place.partition(':')
            if n == name and f == fn and (not msg or msg in str(e)):
                key = k
        key = key or f'smarts-crash:{name}:{fn}'
        ck.counterexample(key, f'smarts() raises {name} ({e}) instead of the invalid-SMARTS error', {'smarts': text}, f'{name}: {e}',
                          'a query or IncorrectSmarts / IncorrectSmiles / ValueError', 'exception class',
                          replay_py=f"from chython import smarts\ntry:\n    print(smarts({text!r}))\nexcept Exception as e:\n    print(type(e).__name__, e)")


# ----------------------------------------------------------------------------------------------------------------
# correspondence 6: _tokenize / smarts_tokenize over the SMARTS alphabet; 7: the bond between two atoms

TOK_ALPHA = 'Cc-=#:~,!;@()1.%/[]l'
BOND_ALPHA = '-=#:~,!;@'


def show_token(t):
    from chython.containers.bonds import QueryBond
    ty, v = t
    if v is None:
        p = '~'
    elif isinstance(v, bool):
        p = sbool(v)
    elif isinstance(v, int):
        p = 'i' + str(v)
    elif isinstance(v, str):
        p = "'" + v + "'"
    elif isinstance(v, QueryBond):
        p = 'q' + zs(v.order) + sbool(v.in_ring)
    elif isinstance(v, list) and all(isinstance(x, int) for x in v):
        p = zs(v)
    elif isinstance(v, list):
        p = "c'" + ''.join(v) + "'"
    elif isinstance(v, dict):
        p = 'a{' + show_parsed(v) + '}'
        return p if ty == 0 else str(ty) + p
    else:
        p = '?' + repr(v)
    return str(ty) + p


def real_tokens(s, fn):
    try:
        return ' '.join(show_token(t) for t in fn(s))
    except Exception as e:
        return sexn(e)


def corr_tokens(ck):
    from chython.files.daylight.tokenize import _tokenize, smarts_tokenize
    rng = random.Random(f'{ck.seed}:c08-tok')
    bt = Batches('c08_tok', extra=f'Definition al : string := {cstr(TOK_ALPHA)}.')
    prefixes = [''] + list(TOK_ALPHA) + [''.join(t) for t in itertools.product(TOK_ALPHA, repeat=2)]
    p3 = [''.join(t) for t in itertools.product(TOK_ALPHA, repeat=3)]
    prefixes += p3 if ck.tier == 'thorough' else rng.sample(p3, 50)
    prefixes += [''.join(rng.choice(TOK_ALPHA) for _ in range(rng.choice([4, 5, 6, 8]))) for _ in range(60 if ck.tier == 'quick' else 2000)]
    # prefixes that end inside a bond token, so that every one-character continuation of every bond state is seen
    prefixes += ['C' + ''.join(t) for k in ((1, 2) if ck.tier == 'quick' else (1, 2, 3)) for t in itertools.product(BOND_ALPHA, repeat=k)]
    seen = set()
    for pre in prefixes:
        if pre in seen:
            continue
        seen.add(pre)
        ins = [pre + c for c in TOK_ALPHA]
        rt = [real_tokens(x, _tokenize) for x in ins]
        for x, r in zip(ins, rt):
            ck.case(('tok', x), nontrivial=not r.startswith('!'))
            ck.count('tokenize:' + (r[:2] if r.startswith('!') else 'ok'))
        bt.add(f'sw_tokens {cstr(pre)} al {cstr(chr(10).join(rt))}', (pre, rt))
    # smarts_tokenize on whole SMARTS (bracket bodies parsed)
    texts = gen_smarts(rng, 200 if ck.tier == 'quick' else 3000)
    texts = [t for t in texts if all(32 < ord(c) < 127 and c != '"' for c in t)]
    for i in range(0, len(texts), 20):
        part = texts[i:i + 20]
        rt = [real_tokens(x, smarts_tokenize) for x in part]
        for x, r in zip(part, rt):
            ck.case(('stok', x), nontrivial=not r.startswith('!'))
            ck.count('smarts_tokenize:' + (r[:2] if r.startswith('!') else 'ok'))
        bt.add(f'b_stokens {lst(part, cstr)} {cstr(chr(10).join(rt))}', (part, rt))
    ok, bad, log = bt.run()
    good = conclude(ck, '_tokenize == tokenize_raw over the SMARTS alphabet (all strings of length <= 3 over 20 characters, every continuation of every bond prefix, sampled longer) and smarts_tokenize on generated SMARTS', bt, ok, bad, log)
    if not good:
        for m_ in bad[:10]:
            for x in (m_[0] if isinstance(m_[0], list) else [m_[0] + c for c in TOK_ALPHA]):
                check_text(ck, x, 'directed-tokens')
                if re.fullmatch(r'C[-=#:~,!;@]*', x):
                    check_bond_text(ck, x[1:], 'directed-tokens')
    return good


BOND_RE = re.compile(r'^(?:(?:(?P<a>[-=#:~])(?:,(?P<b>[-=#:~]))?|!(?P<n>[-=#:]))(?:;(?P<r>!?)@)?)?$')
ORDER = {'-': 1, '=': 2, '#': 3, ':': 4, '~': 8}


def ref_bond(t):
    """documented reading of the text between two atoms: None = not in the documented subset"""
    m = BOND_RE.match(t)
    if not m:
        return None
    if m['n']:
        orders = tuple(sorted({1, 2, 3, 4} - {ORDER[m['n']]}))
    elif m['a']:
        orders = tuple(sorted({ORDER[m['a']]} | ({ORDER[m['b']]} if m['b'] else set())))
    else:
        orders = (1,)
    ring = None if m['r'] is None else (m['r'] == '')
    return orders, ring


def real_bond(t):
    from chython import smarts
    try:
        q = smarts('C' + t + 'C')
    except Exception as e:
        return sexn(e)
    bs = list(q.bonds())
    if len(bs) != 1 or len(q) != 2:
        return '!shape'
    return zs(bs[0][2].order) + sopt(sbool, bs[0][2].in_ring)


def check_bond_text(ck, t, where):
    got = real_bond(t)
    want = ref_bond(t)
    ck.case((where, t), nontrivial=want is not None)
    if got.startswith('!') and got not in ('!A', '!S', '!V'):
        report_crash(ck, 'C' + t + 'C')
    elif want is None and not got.startswith('!'):
        ck.counterexample('bond-spelling-accepted', 'a bond spelling outside the documented subset is accepted', {'smarts': 'C' + t + 'C'}, got,
                          'IncorrectSmarts', 'regular expression of the documented bond spellings',
                          replay_py=f"from chython import smarts\nq=smarts({'C' + t + 'C'!r}); print(list(q.bonds()))")
    elif want is not None and got != zs(want[0]) + sopt(sbool, want[1]):
        ck.counterexample('bond-spelling-denotation', 'a documented bond spelling is rejected or read as other orders / ring mark', {'smarts': 'C' + t + 'C'},
                          got, zs(want[0]) + sopt(sbool, want[1]), 'regular expression of the documented bond spellings',
                          replay_py=f"from chython import smarts\nq=smarts({'C' + t + 'C'!r}); print(list(q.bonds()))")
    # the same text with nothing after it must be rejected
    from chython import smarts
    if t:
        try:
            smarts('C' + t)
            ck.counterexample('bond-at-end-accepted', 'a SMARTS that ends with a bond / negation / ring mark is accepted', {'smarts': 'C' + t}, 'accepted',
                              'IncorrectSmarts / IncorrectSmiles', 'definition',
                              replay_py=f"from chython import smarts\nprint(smarts({'C' + t!r}))")
        except ValueError:
            pass
        except Exception:
            report_crash(ck, 'C' + t)


def check_bond_contexts(ck):
    """each documented bond spelling after a branch, inside a branch, after a ring-closure digit and on a ring closure"""
    from chython import smarts
    docs = [t for t in [''] + [''.join(x) for k in range(1, 7) for x in itertools.product(BOND_ALPHA, repeat=k) if k <= 3 or x[-1] == '@'] if ref_bond(t)]
    docs = [t for t in docs if t]
    for t in docs:
        want = ref_bond(t)
        for text, n, k in (('C(C)' + t + 'N', 1, 3), ('C(' + t + 'N)C', 1, 2), ('C1' + t + 'NC1', 1, 2), ('N' + t + '1CC1', 1, 3), ('N1CC' + t + '1', 1, 3),
                           ('[C;D2]' + t + '[N,O]', 1, 2), ('C%12' + t + 'NC%12', 1, 2), ('Cl' + t + 'N', 1, 2)):
            ck.case(('bond-context', text))
            try:
                q = smarts(text)
                bd = q._bonds[n][k]
                got = (bd.order, bd.in_ring)
            except ValueError as e:
                got = type(e).__name__
            except Exception:
                report_crash(ck, text)
                continue
            if got != want:
                ck.counterexample('bond-spelling-denotation', 'a documented bond spelling is rejected or read as other orders / ring mark in context', {'smarts': text},
                                  got, want, 'regular expression of the documented bond spellings',
                                  replay_py=f"from chython import smarts\nq=smarts({text!r}); print(list(q.bonds()))")
    ck.count('bond-context:spellings', len(docs))


def corr_bond_spellings(ck):
    bt = Batches('c08_bsp')
    maxlen = 4 if ck.tier == 'quick' else 5
    texts = [''] + [''.join(t) for k in range(1, maxlen + 1) for t in itertools.product(BOND_ALPHA, repeat=k)]
    n_doc = 0
    for i in range(0, len(texts), 60):
        part = texts[i:i + 60]
        rows = []
        for t in part:
            check_bond_text(ck, t, 'bond-text')
            r = real_bond(t)
            n_doc += not r.startswith('!')
            # the model's bond_of_spelling is defined for three-token results only; compare whenever either side has a bond
            rows.append(r)
        keep = [(t, r) for t, r in zip(part, rows)]
        bt.add(f'b_bond {lst([t for t, _ in keep], cstr)} {cstr(chr(10).join(r for _, r in keep))}', ([t for t, _ in keep], [r for _, r in keep]))
    ck.count('bond-text:accepted', n_doc)
    ck.count('bond-text:all', len(texts))
    ok, bad, log = bt.run()
    return conclude(ck, f"bond of smarts('C'+t+'C') == bond_of_spelling t (every text t of length <= {maxlen} over 9 bond characters)", bt, ok, bad, log)


# ----------------------------------------------------------------------------------------------------------------
# generated SMARTS: an abstract query and its spelling

def gen_atom(rng):
    """(Q description or None when not canonical, text)"""
    if rng.random() < .35:
        s = rng.choice(['C', 'N', 'O', 'S', 'P', 'F', 'Cl', 'Br', 'I', 'B'])
        return s
    el = rng.choice(['C', 'N', 'O', 'S', 'Fe', 'A', 'M', '#6', '#8', 'C,N', 'O,S,F', '#6,#7', 'Cl', 'H'])
    body = ('13' if el == 'C' and rng.random() < .1 else '') + el
    if el not in ('M',) and rng.random() < .2:
        body += rng.choice(['+', '-', '++', '-2', '+3'])
    if el != 'M':
        for t, vals in rng.sample([('D', range(0, 5)), ('h', range(0, 4)), ('r', range(3, 9)), ('x', range(0, 4)), ('z', range(1, 5))], rng.choice([0, 1, 1, 2])):
            vs = sorted(rng.sample(list(vals), rng.choice([1, 1, 2])))
            body += ';' + ','.join(t + str(v) for v in vs)
        if rng.random() < .1:
            body += ';!R' if ';r' not in body else ''
        if rng.random() < .1 and ';z' not in body:
            body += ';a'
    else:
        if rng.random() < .5:
            body += ';D' + str(rng.randrange(0, 7))
    if rng.random() < .15:
        body += ';M'
    return '[' + body + ']'


def gen_bond(rng):
    t = rng.choice(['', '', '', '-', '=', '#', ':', '~', '-,=', '=,#', '-,:', '!-', '!=', '!:', '!#'])
    if t and rng.random() < .3:
        t += rng.choice([';@', ';!@'])
    return t


def gen_smarts(rng, n):
    out = []
    for _ in range(n):
        k = rng.choice([1, 2, 2, 3, 4, 5, 6])
        s = gen_atom(rng)
        depth = 0
        ring_open = False
        for i in range(1, k):
            if rng.random() < .15:
                s += '(' + gen_bond(rng) + gen_atom(rng) + ')'
            if not ring_open and i + 2 < k and rng.random() < .2:
                s += gen_bond(rng) + '1'
                ring_open = i
            s += gen_bond(rng) + gen_atom(rng)
            if ring_open and i >= ring_open + 2:
                s += gen_bond(rng) + '1' if False else '1'
                ring_open = False
        if ring_open:
            s = s.replace('1', '', 1) if s.count('1') == 1 else s
        out.append(s)
        if rng.random() < .6:       # malformed neighbours
            i = rng.randrange(len(s))
            c = rng.choice(TOK_ALPHA + BODY_ALPHA + '|^ 2')
            out.append(rng.choice([s[:i] + s[i + 1:], s[:i] + c + s[i + 1:], s[:i] + c + s[i:], s + c, s[:i] + s[i] + s[i:]]))
        if rng.random() < .08:
            out.append(s + ' |^1:' + ','.join(str(rng.randrange(0, 8)) for _ in range(rng.choice([1, 2]))) + '|')
    return out


def check_text(ck, text, where):
    """smarts(text) returns a query or raises a ValueError (IncorrectSmarts / IncorrectSmiles / ValueError / MappingError)"""
    from chython import smarts
    try:
        q = smarts(text)
    except ValueError as e:
        ck.case((where, text), nontrivial=False)
        ck.count(f'{where}:' + type(e).__name__)
        return None
    except Exception:
        ck.case((where, text), nontrivial=False)
        ck.count(f'{where}:CRASH')
        report_crash(ck, text)
        return None
    ck.case((where, text))
    ck.count(f'{where}:accepted')
    return q


LINEAR = re.compile(r'^(?P<a0>\[[^\[\]]+\]|Cl|Br|[CNOSPFIB])(?P<rest>(?:[-=#:~,!;@]*(?:\[[^\[\]]+\]|Cl|Br|[CNOSPFIB]))*)$')
STEP = re.compile(r'(?P<b>[-=#:~,!;@]*)(?P<a>\[[^\[\]]+\]|Cl|Br|[CNOSPFIB])')


def check_linear(ck, text, q):
    """an accepted branch-free, ring-free SMARTS: every atom and bond is what its own spelling denotes"""
    m = LINEAR.match(text)
    if not m or q is None:
        return
    atoms = [m['a0']] + [x['a'] for x in STEP.finditer(m['rest'])]
    bonds = [x['b'] for x in STEP.finditer(m['rest'])]
    got_atoms = [a for _, a in q.atoms()]
    if len(got_atoms) != len(atoms):
        ck.counterexample('smarts-linear-atom-count', 'number of query atoms differs from the number of atom symbols', {'smarts': text}, len(got_atoms), len(atoms), 'regular expression')
        return
    ck.count('linear:checked')
    nums = list(q._atoms)
    for i, (sp, a) in enumerate(zip(atoms, got_atoms)):
        want = ref_body(sp[1:-1] if sp[0] == '[' else sp)
        if want is not None and want != 'REJECT' and show_qatom(a) != q_show(want):
            ck.counterexample(f'smarts-atom-denotation:{primitive_of(want)}', 'a query atom of a multi-atom SMARTS is not what its spelling denotes',
                              {'smarts': text, 'atom': i}, show_qatom(a), q_show(want), 'independent reader of canonical bracket bodies')
    for i, sp in enumerate(bonds):
        want = ref_bond(sp)
        try:
            bd = q._bonds[nums[i]][nums[i + 1]]
        except KeyError:
            ck.counterexample('smarts-linear-bond-missing', 'consecutive atoms of a linear SMARTS are not bonded', {'smarts': text, 'bond': i}, 'no bond', sp, 'definition')
            continue
        if want is None:
            ck.counterexample('bond-spelling-accepted', 'a bond spelling outside the documented subset is accepted', {'smarts': text, 'bond': sp},
                              repr(bd), 'IncorrectSmarts', 'regular expression of the documented bond spellings')
        elif (bd.order, bd.in_ring) != want:
            ck.counterexample('bond-spelling-denotation', 'a bond of a multi-atom SMARTS is not what its spelling denotes', {'smarts': text, 'bond': sp},
                              (bd.order, bd.in_ring), want, 'regular expression of the documented bond spellings')


def search_stream(ck):
    rng = random.Random(f'{ck.seed}:c08-stream')
    n = 2500 if ck.tier == 'quick' else 40000
    fixed = ['C |^1:5|', 'C |^1:0|', 'C |^1:0,1|', '[C;,D1]', '[C;D1,]', '[M+]', '[M@]', '[2A]', '[12C,N]', 'C/C=,#C/C', 'C/C!-C/C', 'C!~C', 'C-;@;@C',
             ';@C', 'C-;', 'C-;!', 'C!', '[C+-]', 'C-,=,#C', '', ' ', '[C;M][C;M]', 'C/C=C/C', 'F/C=C/1.F1', '[C:1][C:1]', 'C11', 'C1C1', 'C%12CC%12',
             '[C;D2;h1;r5,r6;x1;z2]=;@[N,O;!R]', '[#6;a]:;@[#7;a]', '[C;r5,r6;a]-;!@[C;h1,h2;z2,z4] |^1:1|']
    for text in fixed + gen_smarts(rng, n):
        q = check_text(ck, text, 'stream')
        check_linear(ck, text, q)
    # single bracket atoms of the documented subset, each read independently
    for body in gen_bodies(ck, rng, 600 if ck.tier == 'quick' else 6000):
        check_body(ck, body, 'body')
    for body in sep_bodies(ck):         # the charge / stereo mark in every position among the primitives
        check_body(ck, body, 'body-sep')
    # from_atom: a query made from an atom matches that atom; ring part as documented
    from chython import smiles
    from chython.periodictable import QueryElement
    for smi in ['C1CC1C', 'c1ccccc1O', 'C1CC2CCC1C2', 'CC(=O)[O-]', '[13CH4]'] + corpus.sample(corpus.lipo(), 40 if ck.tier == 'quick' else 400, ck.seed, 'c08-from'):
        try:
            m = smiles(smi)
        except Exception:
            continue
        for n_, a in m.atoms():
            for flags in ((True,) * 5, (False, False, False, False, True), (True, False, True, False, False)):
                kw = dict(zip(('neighbors', 'hybridization', 'heteroatoms', 'hydrogens', 'ring_sizes'), flags))
                ck.case(('from_atom', smi, n_, flags), nontrivial=bool(a.ring_sizes))
                try:
                    q = QueryElement.from_atom(a, **kw)
                    ok = q == a
                    rs = q.ring_sizes
                except Exception as e:
                    ok, rs = f'{type(e).__name__}: {e}', None
                want_rs = (tuple(sorted(a.ring_sizes)) or (0,)) if flags[4] else ()
                if ok is not True or rs != want_rs:
                    ck.counterexample('from_atom-ring_sizes-set' if flags[4] else 'from_atom-self-match', 'QueryElement.from_atom(a, ...) does not match a / stores other ring sizes',
                                      {'smiles': smi, 'atom': n_, 'flags': kw}, (ok, rs), (True, want_rs), 'definition',
                                      replay_py=f"from chython import smiles\nfrom chython.periodictable import QueryElement\nm=smiles({smi!r}); a=m.atom({n_}); q=QueryElement.from_atom(a, **{kw!r}); print(q.ring_sizes, q == a)")


# ----------------------------------------------------------------------------------------------------------------
# search: every primitive against attributes determined independently (RDKit, no re-perception of aromaticity) on corpus atoms

def rdkit_attrs(smi):
    """per atom index (SMILES order): dict of attributes as RDKit sees the molecule AS WRITTEN; None when not usable"""
    from rdkit import Chem
    ps = Chem.SmilesParserParams()
    ps.removeHs = False
    ps.sanitize = False
    rd = Chem.MolFromSmiles(smi, ps)
    if rd is None:
        return None
    try:
        rd.UpdatePropertyCache(strict=False)
        sssr = [tuple(r) for r in Chem.GetSSSR(rd)]
        symm = [tuple(r) for r in Chem.GetSymmSSSR(rd)]
    except Exception:
        return None
    unique_rings = len(sssr) == len(symm)
    out = []
    for a in rd.GetAtoms():
        bts = [bd.GetBondType() for bd in a.GetBonds()]
        arom = any(t == Chem.BondType.AROMATIC for t in bts)
        nd = sum(1 for t in bts if t == Chem.BondType.DOUBLE)
        hyb = 4 if arom else 3 if (any(t == Chem.BondType.TRIPLE for t in bts) or nd >= 2) else 2 if nd == 1 else 1
        out.append(dict(num=a.GetAtomicNum(), iso=a.GetIsotope() or None, chg=a.GetFormalCharge(), nb=a.GetDegree(),
                        het=sum(1 for x in a.GetNeighbors() if x.GetAtomicNum() not in (1, 6)), hyb=hyb, h=a.GetTotalNumHs(),
                        rings=tuple(sorted({len(r) for r in symm if a.GetIdx() in r})), in_ring=any(a.GetIdx() in r for r in symm),
                        unique_rings=unique_rings))
    bonds = {}
    order = {Chem.BondType.SINGLE: 1, Chem.BondType.DOUBLE: 2, Chem.BondType.TRIPLE: 3, Chem.BondType.AROMATIC: 4}
    for bd in rd.GetBonds():
        i, j = bd.GetBeginAtomIdx(), bd.GetEndAtomIdx()
        bonds[frozenset((i + 1, j + 1))] = (order.get(bd.GetBondType()), any(i in r and j in r and (abs(r.index(i) - r.index(j)) in (1, len(r) - 1)) for r in symm))
    return out, bonds


def search_rdkit(ck):
    from chython import smiles, smarts
    from rdkit import RDLogger
    RDLogger.DisableLog('rdApp.*')
    pool = ['c1ccccc1C(=O)O', 'C1CC1CC#N', 'C[N+](C)(C)CC([O-])=O', 'C1CC2CCC1CC2', 'O=C1NC=CC=C1', 'ClC(Cl)=C=C', 'c1ccc2[nH]ccc2c1', 'FC(F)(F)c1ccncc1',
            '[13CH3]O', 'CS(=O)(=O)N', 'C1CCCCCCC1', 'C12CC1C2', 'c1ccc[nH]c1=O', 'Cn1ccccc1=O', 'O=c1cccc[nH]1', 'c1cc(=O)cc[nH]1',
            'O=c1[nH]c(=O)c2ccccc2[nH]1', 'c1ccoc(=O)c1', 'C[NH+](C)C', 'C[NH2+]C', 'C[NH3+]', 'C[N+](=O)[O-]', 'C[O-]', 'C[OH+]C', 'C[S-]',
            'C[n+]1ccccc1', '[O-]c1ccccc1', 'C[N-]C'] + corpus.sample(corpus.lipo(), 110 if ck.tier == 'quick' else 1500, ck.seed, 'c08-rdkit')
    qcache = {}
    def query(text):
        """the query of a documented SMARTS; None (and a counterexample) when the implementation rejects it"""
        if text not in qcache:
            try:
                qcache[text] = smarts(text)
            except Exception as e:
                qcache[text] = None
                ck.counterexample('smarts-documented-rejected', 'a SMARTS of the documented subset is rejected', {'smarts': text}, f'{type(e).__name__}: {e}',
                                  'a query', 'documentation of smarts()', replay_py=f"from chython import smarts\nprint(smarts({text!r}))")
        return qcache[text]
    disagreements = 0
    for smi in pool:
        try:
            m = smiles(smi)
        except Exception:
            continue
        rk = rdkit_attrs(smi)
        if m is None or rk is None or len(rk[0]) != len(m) or list(m._atoms) != list(range(1, len(m) + 1)):
            ck.count('rdkit:skipped')
            continue
        attrs, rbonds = rk
        if any(attrs[n - 1]['num'] != a.atomic_number for n, a in m.atoms()):
            ck.count('rdkit:skipped')
            continue
        raw = ref_labels(m)
        ck.count('rdkit:molecules')
        elements = sorted({a.atomic_symbol for _, a in m.atoms()})
        # ---- atom primitives: (smarts text, predicate on the independent attributes, attributes the predicate reads)
        tests = []
        for e in elements + ['A']:
            z = None if e == 'A' else next(a.atomic_number for _, a in m.atoms() if a.atomic_symbol == e)
            el = (lambda t, z=z: z is None or t['num'] == z)
            neutral = (lambda t: t['chg'] == 0)
            for k in range(0, 5):
                tests.append((f'[{e};D{k}]', lambda t, k=k, el=el: el(t) and neutral(t) and t['nb'] == k, ('nb',)))
                tests.append((f'[{e};h{k}]', lambda t, k=k, el=el: el(t) and neutral(t) and t['h'] == k, ('h',)))
            for k in range(0, 4):
                tests.append((f'[{e};x{k}]', lambda t, k=k, el=el: el(t) and neutral(t) and t['het'] == k, ('het',)))
            for k in range(1, 5):
                tests.append((f'[{e};z{k}]', lambda t, k=k, el=el: el(t) and neutral(t) and t['hyb'] == k, ('hyb',)))
            tests.append((f'[{e};a]', lambda t, el=el: el(t) and neutral(t) and t['hyb'] == 4, ('hyb',)))
            for k in (3, 4, 5, 6, 7, 8):
                tests.append((f'[{e};r{k}]', lambda t, k=k, el=el: el(t) and neutral(t) and k in t['rings'], ('rings',)))
            tests.append((f'[{e};r5,r6]', lambda t, el=el: el(t) and neutral(t) and bool({5, 6} & set(t['rings'])), ('rings',)))
            tests.append((f'[{e};!R]', lambda t, el=el: el(t) and neutral(t) and not t['in_ring'], ('in_ring',)))
            tests.append((f'[{e}+]', lambda t, el=el: el(t) and t['chg'] == 1, ()))
            tests.append((f'[{e}-]', lambda t, el=el: el(t) and t['chg'] == -1, ()))
            # the charge as a ';' segment of its own BEFORE / BETWEEN other primitives: all of them still hold
            for sign, c in (('+', 1), ('-', -1)):
                for k in range(0, 5):
                    tests.append((f'[{e};{sign};D{k}]', lambda t, k=k, c=c, el=el: el(t) and t['chg'] == c and t['nb'] == k, ('nb',)))
                    tests.append((f'[{e};{sign};h{k}]', lambda t, k=k, c=c, el=el: el(t) and t['chg'] == c and t['h'] == k, ('h',)))
                tests.append((f'[{e};D1,D2;{sign};x0,x1]', lambda t, c=c, el=el: el(t) and t['chg'] == c and t['nb'] in (1, 2) and t['het'] in (0, 1), ('nb', 'het')))
                tests.append((f'[{e};{sign};z1;!R]', lambda t, c=c, el=el: el(t) and t['chg'] == c and t['hyb'] == 1 and not t['in_ring'], ('hyb', 'in_ring')))
            tests.append((f'[{e};D2,D3;h1]', lambda t, el=el: el(t) and neutral(t) and t['nb'] in (2, 3) and t['h'] == 1, ('nb', 'h')))
            tests.append((f'[{e};z2;x1,x2]', lambda t, el=el: el(t) and neutral(t) and t['hyb'] == 2 and t['het'] in (1, 2), ('hyb', 'het')))
            tests.append((f'[{e};D3;r6]', lambda t, el=el: el(t) and neutral(t) and t['nb'] == 3 and 6 in t['rings'], ('nb', 'rings')))
        # the same primitives built through the query API with bare ints (0 included), lists and tuples
        for e in elements:
            z = next(a.atomic_number for _, a in m.atoms() if a.atomic_symbol == e)
            for k in (0, 1, 2):
                tests.append((('api', e, 'neighbors', k), lambda t, k=k, z=z: t['num'] == z and t['chg'] == 0 and t['nb'] == k, ('nb',)))
                tests.append((('api', e, 'implicit_hydrogens', k), lambda t, k=k, z=z: t['num'] == z and t['chg'] == 0 and t['h'] == k, ('h',)))
                tests.append((('api', e, 'heteroatoms', k), lambda t, k=k, z=z: t['num'] == z and t['chg'] == 0 and t['het'] == k, ('het',)))
            tests.append((('api', e, 'neighbors', (0, 1)), lambda t, z=z: t['num'] == z and t['chg'] == 0 and t['nb'] in (0, 1), ('nb',)))
            tests.append((('api', e, 'hybridization', 1), lambda t, z=z: t['num'] == z and t['chg'] == 0 and t['hyb'] == 1, ('hyb',)))
            tests.append((('api', e, 'ring_sizes', 0), lambda t, z=z: t['num'] == z and t['chg'] == 0 and not t['in_ring'], ('in_ring',)))
        tests.append((('api', 'A', 'neighbors', 0), lambda t: t['chg'] == 0 and t['nb'] == 0, ('nb',)))
        tests.append((('api', 'A', 'heteroatoms', 0), lambda t: t['chg'] == 0 and t['het'] == 0, ('het',)))
        tests.append(('[C,N]', lambda t: t['num'] in (6, 7) and t['chg'] == 0, ()))
        tests.append(('[#8,#16;D1]', lambda t: t['num'] in (8, 16) and t['chg'] == 0 and t['nb'] == 1, ('nb',)))
        tests.append(('[13C]', lambda t: t['num'] == 6 and t['chg'] == 0 and t['iso'] == 13, ()))
        tests.append(('[M]', lambda t: False, ()))          # no metal in these organic molecules (checked below)
        has_metal = any(a.atomic_number not in (1, 5, 6, 7, 8, 9, 14, 15, 16, 17, 33, 34, 35, 53) for _, a in m.atoms())
        for text, pred, reads in tests:
            if text == '[M]' and has_metal:
                continue
            if isinstance(text, tuple):
                from chython.periodictable import QueryElement, AnyElement
                qa = (AnyElement if text[1] == 'A' else QueryElement.from_symbol(text[1]))(**{text[2]: text[3]})
                text = f'{text[1]}({text[2]}={text[3]!r})'
            else:
                if query(text) is None:
                    continue
                qa = query(text).atom(1)
            for n, a in m.atoms():
                t = attrs[n - 1]
                # the two independent determinations (RDKit, recount from the raw graph) must agree with each other, otherwise
                # the atom is not used for this primitive (dialect difference, not a statement about the query)
                mine = dict(nb=raw[n][0], het=raw[n][1], hyb=raw[n][2], h=a.implicit_hydrogens)
                if any(k in mine and mine[k] != t[k] for k in reads) or (('rings' in reads or 'in_ring' in reads) and not t['unique_rings']) \
                        or a.is_radical:
                    disagreements += 1
                    continue
                want = bool(pred(t))
                got = bool(qa == a)
                ck.case(('rdkit', smi, n, text), nontrivial=want)
                if got != want:
                    ck.counterexample(f'api-setter:{text.split("(")[1].split("=")[0]}' if '(' in text else f'primitive:{re.sub("[0-9]+", "", text.split(";", 1)[-1].strip("[]"))}', 'a SMARTS primitive matches / does not match an atom against the independently determined attribute',
                                      {'smiles': smi, 'atom': n, 'smarts': text}, got, want, 'RDKit attributes of the molecule as written + recount from the raw graph',
                                      replay_py=f"from chython import smiles, smarts\nm=smiles({smi!r}); q=smarts({text!r}); print(q.atom(1) == m.atom({n}), [x[1] for x in q.get_mapping(m, _cython=False, automorphism_filter=False)])")
            ck.count('rdkit:atom-queries')
        # the full matcher on a few of them (pure-Python path): the set of matched atoms is the set satisfying the predicate
        rng = random.Random(f'{ck.seed}:{smi}')
        for text, pred, reads in rng.sample([t for t in tests if isinstance(t[0], str)], 12):
            if reads and any(not attrs[n - 1]['unique_rings'] or raw[n][:3] != (attrs[n - 1]['nb'], attrs[n - 1]['het'], attrs[n - 1]['hyb'])
                             or a.implicit_hydrogens != attrs[n - 1]['h'] or a.is_radical for n, a in m.atoms()):
                continue
            if (text == '[M]' and has_metal) or query(text) is None:
                continue
            got = sorted(mp[1] for mp in query(text).get_mapping(m, _cython=False, automorphism_filter=False))
            want = sorted(n for n in m._atoms if pred(attrs[n - 1]))
            ck.case(('rdkit-mapping', smi, text), nontrivial=bool(want))
            if got != want:
                ck.counterexample(f'mapping:{re.sub("[0-9]+", "", text.split(";", 1)[-1].strip("[]"))}', 'get_mapping of a one-atom SMARTS does not return exactly the atoms with the attribute',
                                  {'smiles': smi, 'smarts': text}, got, want, 'RDKit attributes of the molecule as written',
                                  replay_py=f"from chython import smiles, smarts\nm=smiles({smi!r}); q=smarts({text!r}); print(sorted(x[1] for x in q.get_mapping(m, _cython=False, automorphism_filter=False)))")
        # ---- bond primitives
        if not all(t['unique_rings'] for t in attrs):
            continue
        for sp in ('-', '=', '#', ':', '~', '-,=', '=,:', '!-', '!:', '-;@', '-;!@', '=;@', ':;@', '!-;!@', '-,=;@'):
            want_o, want_r = ref_bond(sp)
            if query('[A]' + sp + '[A]') is None:
                continue
            qb = query('[A]' + sp + '[A]')._bonds[1][2]
            for n, k, bd in m.bonds():
                o, r = rbonds.get(frozenset((n, k)), (None, None))
                if o is None or o != int(bd):
                    continue
                want = o in want_o and (want_r is None or want_r == r)
                got = bool(qb == bd)
                ck.case(('rdkit-bond', smi, n, k, sp), nontrivial=want)
                if got != want:
                    ck.counterexample(f'bond-primitive:{"ring" if want_r is not None else "order"}', 'a SMARTS bond matches / does not match a bond against the independently determined order and ring membership',
                                      {'smiles': smi, 'bond': (n, k), 'smarts': '[A]' + sp + '[A]'}, got, want, 'RDKit bond type as written and ring membership',
                                      replay_py=f"from chython import smiles, smarts\nm=smiles({smi!r}); q=smarts({'[A]' + sp + '[A]'!r}); print(q.bond(1, 2) == m.bond({n}, {k}), m.bond({n}, {k}).in_ring)")
    ck.count('rdkit:atoms-skipped-oracles-disagree', disagreements)


# ----------------------------------------------------------------------------------------------------------------
# the statement translators are sensitive: every single-edit mutant of the translated source region either fails closed or
# changes the generated Gallina text (so the tie theorem is re-checked against a different function)

SENS = [('gen_queryparse', 'chython/files/daylight/tokenize.py', None, '_query_parse'),
        ('gen_queryeq', 'chython/periodictable/base/query.py', ('QueryElement', 'AnyElement', 'ListElement', 'AnyMetal'), '__eq__'),
        ('gen_labels', 'chython/containers/molecule.py', ('MoleculeContainer',), 'calc_labels'),
        ('gen_qbondeq', 'chython/containers/bonds.py', ('QueryBond',), '__eq__'),
        ('gen_fromatom', 'chython/periodictable/base/query.py', ('QueryElement',), 'from_atom')]


def _mutants(fn, region=None, skip_lines=()):
    """(description, apply, undo) for single edits of the function node (applied in place, undone afterwards)"""
    import ast
    out = []
    def inside(n):
        return (region is None or (region[0] <= getattr(n, 'lineno', 0) <= region[1])) and getattr(n, 'lineno', 0) not in skip_lines
    raise_consts = {id(c) for r in ast.walk(fn) if isinstance(r, ast.Raise) for c in ast.walk(r) if isinstance(c, ast.Constant)}
    notes = [x.annotation for x in fn.args.args + fn.args.kwonlyargs if x.annotation is not None] + ([fn.returns] if fn.returns is not None else [])
    raise_consts |= {id(c) for r in notes for c in ast.walk(r) if isinstance(c, ast.Constant)}      # type annotations
    doc = fn.body[0].value if fn.body and isinstance(fn.body[0], ast.Expr) and isinstance(fn.body[0].value, ast.Constant) else None
    for parent in ast.walk(fn):
        for field in ('body', 'orelse'):
            stmts = getattr(parent, field, None)
            if not isinstance(stmts, list):
                continue
            for i, st in enumerate(list(stmts)):
                if not isinstance(st, ast.stmt) or not inside(st):
                    continue
                if isinstance(st, (ast.Continue, ast.Break)):
                    other = ast.Break() if isinstance(st, ast.Continue) else ast.Continue()
                    out.append((f'line {st.lineno}: {type(st).__name__.lower()} -> {type(other).__name__.lower()}',
                                lambda stmts=stmts, i=i, other=other: stmts.__setitem__(i, other), lambda stmts=stmts, i=i, st=st: stmts.__setitem__(i, st)))
                if isinstance(st, (ast.Assign, ast.AugAssign, ast.Raise)) or (isinstance(st, ast.If) and not st.orelse):
                    if isinstance(st, ast.Assign) and isinstance(st.targets[0], ast.Attribute) and st.targets[0].attr == '_in_ring':
                        continue        # the ring mark of the bond: documented as left out of the label translation
                    out.append((f'line {st.lineno}: statement deleted ({type(st).__name__})',
                                lambda stmts=stmts, i=i: stmts.__setitem__(i, ast.Pass()), lambda stmts=stmts, i=i, st=st: stmts.__setitem__(i, st)))
                if isinstance(st, ast.If):
                    t = st.test
                    out.append((f'line {st.lineno}: if-test negated', lambda st=st, t=t: setattr(st, 'test', ast.UnaryOp(op=ast.Not(), operand=t)),
                                lambda st=st, t=t: setattr(st, 'test', t)))
    swap = {ast.Eq: ast.NotEq, ast.NotEq: ast.Eq, ast.In: ast.NotIn, ast.NotIn: ast.In, ast.Gt: ast.GtE, ast.Lt: ast.LtE}
    for n in ast.walk(fn):
        if not inside(n):
            continue
        if isinstance(n, ast.Compare) and type(n.ops[0]) in swap:
            o = n.ops[0]
            out.append((f'line {n.lineno}: {type(o).__name__} -> {swap[type(o)].__name__}', lambda n=n, o=o: n.ops.__setitem__(0, swap[type(o)]()),
                        lambda n=n, o=o: n.ops.__setitem__(0, o)))
        if isinstance(n, ast.Constant) and n is not doc and id(n) not in raise_consts and type(n.value) in (int, str, bool):
            v = n.value
            nv = (not v) if type(v) is bool else v + 1 if type(v) is int else ('Q' if v != 'Q' else 'W')
            out.append((f'line {n.lineno}: literal {v!r} -> {nv!r}', lambda n=n, nv=nv: setattr(n, 'value', nv), lambda n=n, v=v: setattr(n, 'value', v)))
        if isinstance(n, ast.BoolOp):
            o = n.op
            out.append((f'line {n.lineno}: and <-> or', lambda n=n, o=o: setattr(n, 'op', ast.Or() if isinstance(o, ast.And) else ast.And()),
                        lambda n=n, o=o: setattr(n, 'op', o)))
    return out


def translator_sensitivity(ck):
    import ast
    import importlib
    import os
    import shutil
    import tempfile
    from coqfmt import TranslatorError
    tmp = tempfile.mkdtemp(prefix='c08_sens_')
    try:
        for modname, rel, classes, fname in SENS:
            mod = importlib.import_module(modname)
            src = open(os.path.join(common.REPO, rel)).read()
            tree = ast.parse(src)
            fns = []
            for node in tree.body:
                if classes is None and isinstance(node, ast.FunctionDef) and node.name == fname:
                    fns.append(node)
                elif classes and isinstance(node, ast.ClassDef) and node.name in classes:
                    fns += [f for f in node.body if isinstance(f, ast.FunctionDef) and f.name == fname and (not f.decorator_list or fname == 'from_atom')]
            dest = os.path.join(tmp, modname + '.v')
            os.makedirs(os.path.join(tmp, os.path.dirname(rel)), exist_ok=True)
            def translate():
                with open(os.path.join(tmp, rel), 'w') as f:
                    f.write(ast.unparse(tree))
                if os.path.exists(dest):
                    os.remove(dest)
                try:
                    mod.main(tmp, dest)
                except TranslatorError:
                    return None
                except Exception as e:      # any other failure of the translator is also a refusal
                    return None
                return open(dest).read()
            base = translate()
            if base is None or not fns:
                ck.count(f'sensitivity:{modname}:skipped (source not translatable)')
                continue
            region = None
            if modname == 'gen_labels':     # only the loop over the bonds of an atom is translated
                loops = [x for x in ast.walk(fns[0]) if isinstance(x, ast.For)]
                outer = loops[0]
                region = (outer.body[0].lineno, max(x.end_lineno for x in outer.body if any(
                    isinstance(y, ast.Name) and y.id in ('neighbors', 'heteroatoms', 'hybridization', 'explicit_hydrogens') for y in ast.walk(x))))
            skip = set()
            if modname == 'gen_labels':     # ... and of it the four counters: the ring marks (bond._in_ring and the names it reads) are left out
                counters = ('neighbors', 'heteroatoms', 'hybridization', 'explicit_hydrogens')
                skip = {x.lineno for x in ast.walk(fns[0]) if isinstance(x, ast.Assign) and (
                    (isinstance(x.targets[0], ast.Attribute) and x.targets[0].attr == '_in_ring') or
                    (isinstance(x.targets[0], ast.Name) and x.targets[0].id not in counters))}
            silent, n, closed = [], 0, 0
            for fn in fns:
                for k_, (what, apply, undo) in enumerate(_mutants(fn, region, skip)):
                    if ck.tier == 'quick' and (k_ + ck.seed) % 2:
                        continue        # quick: every second mutant (which half depends on the seed), thorough: all
                    apply()
                    try:
                        got = translate()
                    finally:
                        undo()
                    n += 1
                    ck.case(('sensitivity', modname, fn.lineno, what), nontrivial=got is not None)
                    if got is None:
                        closed += 1
                    elif got == base:
                        silent.append(what)
            ck.count(f'sensitivity:{modname}:mutants', n)
            ck.count(f'sensitivity:{modname}:fail-closed', closed)
            ck.oblige(f'translator {modname}: every single-edit mutant of the translated source region fails closed or changes the generated function '
                      '(mutants: statement deleted, if-test negated, comparison flipped, literal changed, and/or swapped, continue/break swapped)',
                      not silent, 'translator', '; '.join(silent[:20]) or f'{n} mutants, {closed} refused by the translator')
    finally:
        shutil.rmtree(tmp, ignore_errors=True)


def run(ck):
    ck.trusted += ['translators tools/gen_smarts.py, tools/gen_tokens.py, tools/gen_elements.py, tools/gen_queryparse.py, tools/gen_queryeq.py, tools/gen_labels.py, tools/gen_qbondeq.py, tools/gen_fromatom.py (Python ast)',
                   'correspondence runner harness/checks/C08.py + harness/coqcases.py', 'CachedMethods shim harness/boot.py', 'CPython 3.12.1',
                   'RDKit 2026.3 and the Python reference oracles of harness/checks/C08.py (search only)']
    ck.assumptions += ['the comparison methods, calc_labels, the class dispatch / setters of smarts() and _tokenize are hand-modelled '
                       '(coq/model/Query.v, Smarts.v, Tokenize.v); tie = correspondence by vm_compute on exhaustive small spaces, generated, corpus '
                       'and malformed inputs; constants, tables and branch conditions come from the translators; the body of _query_parse is '
                       'translated statement by statement (tools/gen_queryparse.py) and proved equal to the hand model (its four regular '
                       'expressions and int() stay hand-modelled scanners, tied by correspondence)',
                       'the SSSR is an input of the label model (C06); implicit hydrogens are an input (C04)',
                       'parser(), QueryContainer and the CXSMARTS / stereo part of smarts() are not modelled: search only',
                       'domain of the string models: ASCII without white space, fewer than 4300 digits per number']
    ck.extra['rule'] = ('correspondence: (query, atom) grids = every primitive value x every attribute value, pairs of primitives, random conjunctions, corpus atoms; '
                        'all 93 query bonds x 10 bonds; label rows of corpus and special-bond molecules; every bracket body of length <= 3 over 23 characters '
                        '+ sampled/generated/mutated longer ones through _query_parse and smarts(); every string of length <= 3 over 20 characters through '
                        '_tokenize; every bond text of length <= 4 over 9 characters. search: generated SMARTS and one-character mutations (exception class, '
                        'denotation of linear patterns), canonical bracket bodies read by an independent regular expression, every primitive on corpus atoms '
                        'against RDKit attributes. non-trivial = a match / an accepted input')
    proved = common.standard_proof_steps(ck, translators=['smarts', 'tokens', 'elements', 'queryparse', 'queryeq', 'labels', 'qbondeq', 'fromatom'], extra_targets=['model/SmartsFull.vo'])
    tied = True
    import time
    timing = {}
    for fn in (corr_match, corr_from_atom, corr_api, corr_bonds, corr_full, corr_cx, corr_add_copy, corr_labels, corr_parse, corr_regex, corr_tokens, corr_bond_spellings):
        t0 = time.time()
        tied = fn(ck) and tied
        timing[fn.__name__] = round(time.time() - t0, 1)
    for fn in (search_stream, check_bond_contexts, search_stereo, search_cx, search_rdkit):
        t0 = time.time()
        fn(ck)
        timing[fn.__name__] = round(time.time() - t0, 1)
    t0 = time.time()
    try:
        translator_sensitivity(ck)
    except Exception as e:      # a source shape the mutation operators do not handle: the translators themselves fail closed above
        ck.count(f'sensitivity:skipped ({type(e).__name__})')
    timing['translator_sensitivity'] = round(time.time() - t0, 1)
    ck.extra['timing_s'] = timing
    ck.extra['proved'] = proved
    ck.extra['tied'] = tied


# ----------------------------------------------------------------------------------------------------------------
# the query API: constructor and setters with None / bare ints (0 included) / lists / tuples, for every query class

API_VALUES = [None, -1, 0, 1, 2, 3, 4, 5, 14, 15, [], [0], (0,), [1, 2], (2, 1), [0, 0], [15], [3, 3], [3, 4], [2], [-1], [0, 14],
              [1, 2, 3, 4], [5], (2, 8), [4, 1], [65, 3]]
API_FIELD = {'neighbors': ('nb', 0), 'heteroatoms': ('het', 0), 'implicit_hydrogens': ('h', 0), 'hybridization': ('hyb', 1), 'ring_sizes': ('rings', 2)}


def api_classes():
    from chython.periodictable import QueryElement, AnyElement, AnyMetal, ListElement
    from functools import partial
    return [('E', QueryElement.from_atomic_number(8), dict(num=8)), ('A', AnyElement, {}),
            ('L', partial(ListElement, ['C', 'O']), dict(nums=(6, 8))), ('M', AnyMetal, {})]


def ival_term(v):
    if v is None:
        return 'None'
    if isinstance(v, int):
        return f'(Some (IInt {zraw(v)}))'
    return f'(Some (IList {lst(list(v), zraw)}))'


def intended(attr, v):
    """what the documentation says the value means: None = unconstrained, an int = that one value, a list = its values"""
    if v is None:
        return ()
    if isinstance(v, int):
        return (v,)
    return tuple(sorted(v))


def corr_api(ck):
    rng = random.Random(f'{ck.seed}:c08-api')
    axes = dict(num=[8, 6, 26, 29], chg=[0], nb=[0, 1, 2, 3, 4, 5, 14], hyb=[1, 2, 3, 4], h=[None, 0, 1, 2, 3], het=[0, 1, 2, 3, 14],
                rings=[(), (3,), (4,), (5,), (3, 4), (65,)])
    atoms = [A(**{k: rng.choice(v) for k, v in axes.items()}) for _ in range(120)] + \
        [A(num=8, nb=k, h=k2, het=k3) for k in range(0, 4) for k2 in (0, 1) for k3 in (0, 1)]
    real_atoms = [a.real() for a in atoms]
    bt = Batches('c08_api', extra='Import ListNotations. Open Scope Z_scope.')
    for kind, cls, kw in api_classes():
        for attr, (field, code) in API_FIELD.items():
            if kind == 'M' and attr not in ('neighbors', 'hybridization'):
                continue
            for path in ('constructor', 'setter'):
                rows = []
                for v in API_VALUES:
                    try:
                        if path == 'constructor':
                            q = cls(**{attr: v})
                        else:
                            q = cls()
                            setattr(q, attr, v)
                        got = tuple(getattr(q, attr))
                        rows.append(zs(got))
                    except Exception as e:
                        rows.append(sexn(e))
                        ck.case(('api', kind, attr, path, repr(v)), nontrivial=False)
                        continue
                    ck.case(('api', kind, attr, path, repr(v)))
                    ck.count(f'api:{attr}:accepted')
                    # the accepted value must constrain exactly as documented
                    qd = Q(kind, **dict(kw, **{field: intended(attr, v)})) if kind != 'M' else Q('M', **{field: intended(attr, v)})
                    for a, ra in zip(atoms, real_atoms):
                        g, w = real_match(q, ra), ref_match(qd, a)
                        if g != w:
                            ck.counterexample(f'api-setter:{attr}', f'a query atom built through the query API ({path}, {attr}={v!r}) does not constrain as documented',
                                              {'class': type(q).__name__, 'path': path, 'attribute': attr, 'value': v, 'stored': got, 'atom': a.key()}, g, w,
                                              'Python reference of the documented conjunction',
                                              replay_py=f"import checks.C08 as c\nk, cls, kw = [x for x in c.api_classes() if x[0] == {kind!r}][0]\nq = cls(**{{{attr!r}: {v!r}}})\nprint(getattr(q, {attr!r}), q == c.A(*{a.key()!r}).real())")
                            break
                bt.add(f'b_api {code} {lst(API_VALUES, ival_term)} {cstr(chr(10).join(rows))}', (kind, attr, path, rows))
    ok, bad, log = bt.run()
    return conclude(ck, 'query API: neighbors / heteroatoms / implicit_hydrogens / hybridization / ring_sizes through constructor and setter of every class '
                        '== validate_api / validate_hyb / validate_rings (None, bare ints incl. 0, lists, tuples)', bt, ok, bad, log)


# ----------------------------------------------------------------------------------------------------------------
# the whole of smarts(): atoms with stereo marks, bonds with order, ring mark and cis/trans flag

def show_full(q):
    order = {n: i for i, n in enumerate(q._atoms)}
    atoms = ' '.join(show_qatom(a) + '/' + sopt(sbool, getattr(a, 'stereo', None)) for _, a in q.atoms())
    bonds = sorted((min(order[n], order[m]), max(order[n], order[m]), bd) for n, m, bd in q.bonds())
    return atoms + ' ; ' + ' '.join(f'{i}-{j}:{zs(bd.order)}{sopt(sbool, bd.in_ring)}/{sopt(sbool, bd.stereo)}' for i, j, bd in bonds)


def real_full(text):
    from chython import smarts
    try:
        return show_full(smarts(text))
    except Exception as e:
        return sexn(e)


def stereo_smarts(rng, n):
    """SMARTS with direction marks on both sides of double bonds, of order lists, of negated and ring-marked bonds"""
    ends = ['F', 'Cl', 'C', 'N', '[C;D1]', '[#8]', '[A]', 'O']
    mids = ['=', '=', '=', '=,#', '=,:', '!-', '!:', '=;@', '=;!@', '=,#;!@', '-', '#', '', '~']
    marks = ['/', '\\', '']
    out = []
    for _ in range(n):
        k = rng.choice([1, 1, 1, 2, 3])
        s = rng.choice(ends) + rng.choice(marks)
        for i in range(k):
            c1, c2 = rng.choice(['C', 'C', '[C;D3]', 'N', 'C(F)']), rng.choice(['C', 'C', 'N', '[C;h1]', 'C(C)'])
            s += c1 + rng.choice(mids) + c2 + rng.choice(marks)
            if i + 1 < k:
                s += rng.choice(['C', '', 'C', 'N']) + rng.choice(marks)
        s += rng.choice(ends)
        out.append(s)
        if rng.random() < .25:      # ring closures carrying marks, branches
            out.append(rng.choice(['F/C=C/1.F1', 'C1/C=C\\CCCCC1', 'C/1=C/CCCCCC1', 'F/C=C(/F)Cl', 'C(/F)=C/Cl', 'F/C(Cl)=C/F', 'C/C=C/C=C/C', 'C/C=C/C-C/C=C/C',
                                       'C/C=C=C/C', 'F/C=C/C(/F)=C/F', 'C\\C(/F)=C/C']))
    return out


def show_parse_state(text):
    """the record parser(smarts_tokenize(text), False) returns, in the text form of SmartsFull.show_parse_state"""
    from chython.files.daylight.tokenize import smarts_tokenize
    from chython.files.daylight.parser import parser
    from chython.containers.bonds import QueryBond
    try:
        pr = parser(smarts_tokenize(text), False)
    except Exception as e:
        return sexn(e)
    def pl(v):
        if isinstance(v, QueryBond):
            return 'q' + zs(v.order) + sbool(v.in_ring)
        if isinstance(v, list):
            return zs(v)
        return 'i' + str(v)
    return ';'.join([','.join(f'({n}.{m}.{pl(b_)})' for n, m, b_ in pr['bonds']),
                     ','.join(f'{i}:{sbool(v)}' for i, v in pr['stereo_atoms'].items()),
                     ','.join(f'{n}:{{' + '.'.join(f'{m}:{sbool(v)}' for m, v in d.items()) + '}' for n, d in pr['stereo_bonds'].items()),
                     str(len(pr['atoms']))])


def corr_full(ck):
    rng = random.Random(f'{ck.seed}:c08-full')
    fixed = ['', 'F/C=1=1', 'F/C1=1', 'F/C=,#1=,#1', 'C/C=C(/C)C(/C)=C/C', 'F/C(=C/F)=C/F', 'C/C=C/C-C/C=C/C', 'F/C(/Cl)=C/F', 'FC(/Cl)=C/F', 'F/C=C(/Cl)\\F', 'F/C=C/F', 'F/C=C\\F', 'F\\C=C\\F', 'F\\C=C/F', 'FC=CF', 'C/C=,#C/C', 'C/C=,#C\\C', 'C/C!-C/C', 'C/C!-C\\C', 'C/C=;@C/C', 'C/C=;!@C\\C',
             'C/C=C/C=C/C', 'C/C=C/C-C/C=C/C', 'F/C=C/1.F1', 'C1/C=C\\CCCCC1', '[C@](F)(Cl)(Br)I', '[C@@;D3](F)Cl', '[A@]F', '[C,N@]F', '[M@]', 'C/C', 'C/C=C',
             '[C:1][C:1]', '[C:1][N:2]', 'C11', 'C1C1', 'C=1C=1', 'C%12CC%12', 'c1ccccc1', 'C(C)(C)C', 'C.C', '[C;M]C', 'C-,=C', 'C~C', 'C!-;@C', '[C+-]', 'C!', '(C)C']
    texts = fixed + stereo_smarts(rng, 250 if ck.tier == 'quick' else 3000) + gen_smarts(rng, 150 if ck.tier == 'quick' else 2000)
    texts = [t for t in dict.fromkeys(texts) if all(32 < ord(c) < 127 and c != '"' for c in t)]
    bt = Batches('c08_full')
    bt_imports = None
    for i in range(0, len(texts), 20):
        part = texts[i:i + 20]
        rows = [real_full(t) for t in part]
        for t, r in zip(part, rows):
            ck.case(('full', t), nontrivial=not r.startswith('!'))
            ck.count('full:' + (r[:2] if r.startswith('!') else 'ok'))
            if '/T' in r.split(' ; ')[-1] or '/F' in r.split(' ; ')[-1]:
                ck.count('full:with-cis-trans-flag')
            if r.startswith('!') and r not in ('!A', '!S', '!V'):
                report_crash(ck, t)
        bt.add(f'b_full {lst(part, cstr)} {cstr(chr(10).join(rows))}', (part, rows))
    # the atom numbers: explicit ones kept, fresh ones above them, masked atoms by their rank (process-wide counter)
    def real_numbers(t):
        from chython import smarts
        try:
            q = smarts(t)
        except Exception as e:
            return sexn(e)
        nums = list(q._atoms)
        masked = sorted(n for n in nums if n > 10 ** 9)
        return ','.join(f'm{masked.index(n)}' if n > 10 ** 9 else str(n) for n in nums)
    extra_n = ['[C:7]C[N;M:2][O;M]C[S;M]', '[C:3][C:1]C', 'C[C:5]C', '[C;M][C;M]', '[C:2]C[C:2]', 'C(C)[N:4]', 'CCC', '[A:9][M;M][C,N:1]O']
    texts_n = [t for t in dict.fromkeys(extra_n + texts) if t]
    for i in range(0, len(texts_n), 25):
        part = texts_n[i:i + 25]
        rows = [real_numbers(t) for t in part]
        for t, r in zip(part, rows):
            if not r.startswith('!'):
                ck.count('numbers:' + ('masked' if 'm' in r else 'explicit' if ':' in t else 'fresh'))
                nums = r.split(',')
                if len(set(nums)) != len(nums):
                    ck.counterexample('smarts-atom-numbers-distinct', 'smarts() gave two atoms the same number', {'smarts': t}, r, 'distinct numbers', 'definition')
        bt.add(f'b_numbers {lst(part, cstr)} {cstr(chr(10).join(rows))}', (part, rows))
    # the intermediate state: what parser(smarts_tokenize(text), False) returns (bonds in order, stereo_atoms, stereo_bonds)
    texts_p = [t for t in texts if t]
    for i in range(0, len(texts_p), 20):
        part = texts_p[i:i + 20]
        rows = [show_parse_state(t) for t in part]
        for t, r in zip(part, rows):
            ck.count('parse-state:' + (r[:2] if r.startswith('!') else 'ok'))
        bt.add(f'b_parse_state {lst(part, cstr)} {cstr(chr(10).join(rows))}', (part, rows))
    size = sum(len(c) for c in bt.cases) / max(len(bt.cases), 1)
    ok, failing, log = coqcases.run_cases(bt.name, IMPORTS + ' SmartsFull', bt.cases, shard=max(10, int(120000 / max(size, 1))), timeout=900)
    bad = [bt.meta[i] for i in failing]
    good = conclude(ck, 'smarts() == smarts_full (atoms with stereo marks; bonds with orders, ring mark and cis/trans flag; exception class) and the intermediate '
                        'parser record (bonds in order, stereo_atoms, stereo_bonds) == smarts_parse, on direction-mark patterns and generated SMARTS', bt, ok, bad, log)
    if not good:
        for part, _ in bad[:10]:
            for t in part:
                check_text(ck, t, 'directed-full')
        search_stereo(ck, extra=[t for part, _ in bad[:10] for t in part])
    return good


CX_BLOCKS = ['|^1:0|', '|^1:0,2|', '|^2:1|', '|^7:0|', '|^8:0|', '|^0:0|', '|^1:5|', '|^1:0,|', '|^1:,0|', '|^1:0^1:1|', '^1:0', '|^1:0', '^1:0|', '|', '||',
             '|^1:a|', '|^3:0,1,2|', '|^1:00|', '|^1:01,1|', '|^1:0|x', '|x^1:1y^2:0,3|', '|^1:1,1|', '|^1:2,9|', '|^^1:0|', '|^1:0,1,2,3,4,5|', '|$;;$|', '|^1:|']


def corr_cx(ck):
    """smarts(smr + ' ' + cx): CXSMARTS radical blocks, well-formed and malformed, on atoms of every class"""
    rng = random.Random(f'{ck.seed}:c08-cx')
    smrs = ['C', 'CN', 'CNO', '[C;D2]C', '[A]C', '[C,N]O', '[M]', '[M]C', 'C[M;D15]', '[C;D15]', 'C(C)C', 'C1CC1', 'C=,#C', '[13C@+;h1]F', 'C/C=C/C', '[C;M]C', 'C!', '[Xx]C'] + \
        gen_smarts(rng, 40 if ck.tier == 'quick' else 600)
    smrs = [t for t in dict.fromkeys(smrs) if t and '|' not in t and all(32 < ord(c) < 127 and c != '"' for c in t)]
    pairs = [(s_, c) for s_ in smrs[:18] for c in CX_BLOCKS] + [(s_, rng.choice(CX_BLOCKS)) for s_ in smrs[18:] for _ in range(2)]
    bt = Batches('c08_cx')
    for i in range(0, len(pairs), 25):
        part = pairs[i:i + 25]
        rows = [real_full(s_ + ' ' + c) for s_, c in part]
        for (s_, c), r in zip(part, rows):
            ck.case(('cx', s_, c), nontrivial=not r.startswith('!') and '|T|' in r)
            ck.count('cx:' + (r[:2] if r.startswith('!') else 'radical' if '|T|' in r else 'ok'))
            if r.startswith('!') and r not in ('!A', '!S', '!V'):
                report_crash(ck, s_ + ' ' + c)
        bt.add(f'b_cx {lst([tup(cstr(s_), "(Some " + cstr(c) + ")") for s_, c in part])} {cstr(chr(10).join(rows))}', (part, rows))
    size = sum(len(c) for c in bt.cases) / max(len(bt.cases), 1)
    ok, failing, log = coqcases.run_cases(bt.name, IMPORTS + ' SmartsFull', bt.cases, shard=max(10, int(120000 / max(size, 1))), timeout=900)
    bad = [bt.meta[i] for i in failing]
    good = conclude(ck, "smarts(smr + ' ' + cx) == smarts_cx (CXSMARTS radical blocks, well-formed and malformed: radical flags, index check, exception class)", bt, ok, bad, log)
    if not good:
        for part, _ in bad[:10]:
            for s_, c in part:
                check_cx(ck, s_, c)
    return good


def check_cx(ck, smr, cx):
    """independent reading of a radical block: exactly the atoms whose positions the block names are radicals"""
    from chython import smarts
    try:
        base = smarts(smr)
    except Exception:
        return
    n = len(base)
    want = None
    if cx.startswith('|') and cx.endswith('|'):
        idx = [int(i) for x in re.findall(r'\^[1-7]:[0-9]+(?:,[0-9]+)*', cx) for i in x[3:].split(',')]
        want = 'reject' if any(i >= n for i in idx) else sorted(set(idx))
    else:
        want = []
    try:
        q = smarts(smr + ' ' + cx)
        got = sorted(i for i, (_, a) in enumerate(q.atoms()) if getattr(a, 'is_radical', False))
    except ValueError:
        got = 'reject'
    except Exception:
        report_crash(ck, smr + ' ' + cx)
        return
    from chython.periodictable import AnyMetal
    if want != 'reject' and any(isinstance(a, AnyMetal) for i, (_, a) in enumerate(base.atoms()) if i in want):
        want = 'reject'
    ck.case(('cx-oracle', smr, cx), nontrivial=bool(want) and want != 'reject')
    if got != want:
        ck.counterexample('smarts-cx-radicals', 'the CXSMARTS radical block does not mark exactly the named atoms', {'smarts': smr + ' ' + cx}, got, want,
                          'independent reading of the block',
                          replay_py=f"from chython import smarts\nq=smarts({smr + ' ' + cx!r}); print([a.is_radical for _, a in q.atoms()])")


def search_cx(ck):
    rng = random.Random(f'{ck.seed}:c08-cx-search')
    for smr in ['C', 'CN', 'CNO', '[C;D2]C(C)C', '[A]C', '[C,N]O', '[M]C', 'C1CC1', 'C=,#C']:
        for cx in CX_BLOCKS:
            check_cx(ck, smr, cx)


def corr_add_copy(ck):
    """QueryContainer.add_atom(Element | str | int) normalisation and Query.copy(full)"""
    from chython.containers import QueryContainer
    rng = random.Random(f'{ck.seed}:c08-add')
    bt = Batches('c08_add', extra='Import ListNotations. Open Scope Z_scope.')
    atoms = [a for a in atom_grid(ck, rng) if a.iso != 0][::9]
    args = [('AElem ' + a.term(), a.real()) for a in atoms] + \
        [(f'ASym (s2l {cstr(x)})', x) for x in ['C', 'N', 'Cl', 'Fe', 'A', 'M', 'Xx', 'c', 'H', 'Og', 'CH', '#6']] + \
        [(f'ANum {zraw(x)}', x) for x in [1, 6, 26, 118, 0, 119, -1, 1000]]
    for i in range(0, len(args), 30):
        part = args[i:i + 30]
        rows = []
        for term, x in part:
            try:
                g = QueryContainer('')
                rows.append(show_qatom(g.atom(g.add_atom(x))))
            except Exception as e:
                rows.append(sexn(e))
            ck.case(('add_atom', term), nontrivial=not rows[-1].startswith('!'))
        bt.add(f'b_add {lst(["(" + t + ")" for t, _ in part])} {cstr(chr(10).join(rows))}', ([t for t, _ in part], rows))
    from chython import smarts
    bodies = ['C', 'C@', 'C@@;M', 'C;M', '13C@+;D1,D2;h0;r5,r6;x1;z1,z2;M:7', 'A@;D2', 'A;M', 'C,N@;!R', 'C,N;M;a', 'M', 'M;M;D2', 'M;z2', '#6;h1', 'Xx', 'M+', 'C;D15']
    def sf(a):
        return show_qatom(a) + '/' + sopt(sbool, getattr(a, 'stereo', None)) + '/' + sbool(a.masked)
    rows = []
    for body in bodies:
        try:
            a = smarts('[' + body + ']')
            a = a.atom(next(iter(a._atoms)))
            rows.append(' '.join([sf(a), sf(a.copy()), sf(a.copy(full=True)), sf(a.copy(full=True).copy())]))
        except Exception as e:
            rows.append(sexn(e))
        ck.case(('copy', body), nontrivial=not rows[-1].startswith('!'))
    bt.add(f'b_copy {lst(bodies, cstr)} {cstr(chr(10).join(rows))}', (bodies, rows))
    size = sum(len(c) for c in bt.cases) / max(len(bt.cases), 1)
    ok, failing, log = coqcases.run_cases(bt.name, IMPORTS + ' SmartsFull', bt.cases, extra=bt.extra, shard=max(10, int(120000 / max(size, 1))), timeout=900)
    return conclude(ck, 'QueryContainer.add_atom(Element | str | int) == add_atom_norm; Query.copy(full) == qcopy (comparison data, stereo mark, masked flag)', bt, ok,
                    [bt.meta[i] for i in failing], log)


def search_stereo(ck, extra=()):
    """cis/trans marks: a marked SMARTS double bond matches exactly the molecule bonds of that configuration.
    Reference: RDKit HasSubstructMatch(useChirality=True) of the plain '=' pattern, combined with ring membership for ;@ / ;!@"""
    from chython import smiles, smarts
    from rdkit import Chem, RDLogger
    RDLogger.DisableLog('rdApp.*')
    ends = ['F', 'Cl', 'C', 'N']
    mols = []
    for x in ends:
        for y in ends:
            mols += [f'{x}/C=C/{y}', f'{x}/C=C\\{y}', f'{x}C=C{y}']
    mols += ['C1/C=C\\CCCCC1', 'C1/C=C/CCCCCCCC1', 'C/C(F)=C/C', 'C/C(F)=C\\C', 'C/C=C/C#N', 'F/C=C/C=C/F', 'F/C=C\\C=C/F', 'C1=CCCCCCC1', 'CC#CC', 'F/C=N/C', 'OC/C=C/CO']
    queries = []
    for x in ('F', 'C', 'Cl'):
        for y in ('F', 'C', 'N'):
            for m1, m2 in (('/', '/'), ('/', '\\'), ('\\', '\\'), ('\\', '/'), ('', '')):
                for mid, ring in (('=', None), ('=,#', None), ('!-', None), ('=;@', True), ('=;!@', False)):
                    queries.append((x, m1, mid, m2, y, ring))
    tri_q = ['F/C(/Cl)=C/F', 'F/C(/Cl)=C\\F', 'FC(/Cl)=C/F', 'Cl/C(/F)=C/F', 'F/C=C(/Cl)\\F', 'F/C(Cl)=C/F', 'C(/F)(/Cl)=C/F', 'F/C=C(/Cl)F']
    tri_m = ['F/C(/Cl)=C/F', 'F/C(/Cl)=C\\F', 'FC(Cl)=CF', 'F/C=C(/Cl)F', 'F/C=C(\\Cl)F']
    for text in tri_q:
        rq = Chem.MolFromSmarts(text)
        try:
            q = smarts(text)
        except Exception:
            report_crash(ck, text)
            continue
        for s in tri_m:
            want = Chem.MolFromSmiles(s).HasSubstructMatch(rq, useChirality=True)
            got = q.is_substructure(smiles(s))
            ck.case(('stereo-branch', text, s), nontrivial=want)
            if got != want:
                ck.counterexample('smarts-stereo-branch-mark-inverted', 'a SMARTS with a direction mark on a branch of a double-bond atom matches the other configuration',
                                  {'smarts': text, 'smiles': s}, got, want, 'RDKit HasSubstructMatch(useChirality=True)',
                                  replay_py=f"from chython import smiles, smarts\nprint(smarts({text!r}).is_substructure(smiles({s!r})))")
    rng = random.Random(f'{ck.seed}:c08-stereo')
    if ck.tier == 'quick':
        queries = rng.sample(queries, 90)
    cm = {}
    for s in mols:
        try:
            cm[s] = (smiles(s), Chem.MolFromSmiles(s))
        except Exception:
            pass
    for x, m1, mid, m2, y, ring in queries:
        text = f'{x}{m1}C{mid}C{m2}{y}'
        plain = Chem.MolFromSmarts(f'{x}{m1}C=C{m2}{y}')
        try:
            q = smarts(text)
        except Exception as e:
            ck.counterexample('smarts-documented-rejected', 'a SMARTS of the documented subset is rejected', {'smarts': text}, f'{type(e).__name__}: {e}', 'a query',
                              'documentation of smarts()')
            continue
        for s, (m, rd) in cm.items():
            if m is None or rd is None or (mid in ('=,#', '!-') and '#' in s):
                continue        # the reference pattern is the plain double bond
            want = False
            for match in rd.GetSubstructMatches(plain, useChirality=True, uniquify=False):
                bd = rd.GetBondBetweenAtoms(match[1], match[2])
                if ring is None or bd.IsInRing() == ring:
                    want = True
            got = q.is_substructure(m)
            ck.case(('stereo', text, s), nontrivial=want)
            ck.count('stereo:pairs')
            if got != want:
                ck.counterexample(f'stereo-mark:{"marked" if m1 else "unmarked"}', 'a SMARTS with cis/trans marks matches / does not match against the independently determined configuration',
                                  {'smarts': text, 'smiles': s}, got, want, "RDKit HasSubstructMatch(useChirality=True) of the '=' pattern + ring membership",
                                  replay_py=f"from chython import smiles, smarts\nq=smarts({text!r}); print(q.is_substructure(smiles({s!r})), [(n, m, b, b.stereo) for n, m, b in q.bonds()])")
