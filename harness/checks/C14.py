"""C14 normalisation conserves composition, is idempotent and numbering independent (PARTIAL by design).

proof:          coq/props/C14.v: table obligations over the regenerated rule tables (Gen.StdRules) and, for ANY rule table
                satisfying them and ANY sound matcher, conservation of atoms / elements / isotopes / adjacency / net charge by
                the rule engine (Model.Standardize mirrors Standardize.__standardize and the pass sequence of standardize()).
correspondence: the real engine is run with QueryContainer.get_mapping instrumented (what the matcher yields is an INPUT of
                the model): every rule that matched is replayed in the model from the molecule as it was when the matcher was
                called (intermediate states compared), every recorded mapping is tested against the matcher specification
                the theorems assume (match_ok), whole private passes and whole standardize() runs are compared (molecule,
                log, set of recalculated atoms); explicify_hydrogens / implicify_hydrogens on generated, corpus and
                malformed molecules; the accepted paths of fix_resonance; each rule on its own minimal instantiation.
                standardize_charges: its loop bodies are translated from the source (tools/gen_c14charges.py) and replayed on the recorded
                matcher output, SSSR and canonical orders (whole function after thiele(), intermediate charges, theorem hypotheses).
search:         on the real code, independent of the model: heavy-atom multiset / net charge / hydrogen count per operation,
                no exception and no valence error on valence-valid input, idempotence, explicify/implicify mutually
                inverse, renumbering equivariance (tautomer fixing off), the documented pairs of test_groups.py,
                tautomer enumeration (composition, no duplicates, no failure)."""
import ast
import collections
import os
import random
import traceback

import boot  # noqa
import common
import coqcases
import coqmol
import corpus
from coqfmt import zraw, b, lst, opt, tup

replay = common.generic_replay

IMPORTS = 'Graph Standardize StandardizeMatch StandardizeTie StandardizeNeutral StandardizeChargesBase StandardizeCharges StandardizeChargesPre StandardizeFerrocene StandardizeChargesTie'
EXTRA = 'From Gen Require Import StdRules.'
COLL = {0: 'double_rules', 1: 'single_rules', 2: 'metal_rules'}

# ---------------------------------------------------------------------------------------------
# instrumentation of the real engine


class Recorder:
    """records, for every call `pattern.get_mapping(mol, ...)` on a pattern of the three rule collections, the molecule
    as it was at that moment and the mappings the generator yielded (lazily, exactly as the engine consumed them)"""

    def __init__(self, observe_too=False, eager=False):
        self.observe_too = observe_too
        self.eager = eager
        from chython.containers import QueryContainer
        from chython.algorithms.standardize import molecule as engine
        self.pid = {}
        self.colls = {0: engine.double_rules, 1: engine.single_rules, 2: engine.metal_rules}
        for c, coll in self.colls.items():
            for i, r in enumerate(coll):
                self.pid[id(r[0])] = (c, i)
        self.rec = None
        self.qc = QueryContainer
        self.orig = QueryContainer.get_mapping
        rec = self

        def wrapped(self, other, **kw):
            key = rec.pid.get(id(self))
            if rec.rec is None or key is None:
                yield from rec.orig(self, other, **kw)
                return
            if rec.dirty or rec.snap is None:
                if rec.observe_too:
                    rec.snap = ''
                    rec.obs = observe(other)
                    rec.obs['h1ok'] = valence_valid(other) or bool(rec.obs['invalid'])
                else:
                    rec.snap = coqmol.mol_term(other)
                    rec.rings = lst([f'({zraw(n)}, {lst(sorted(a.ring_sizes), zraw)})' for n, a in other.atoms() if a.ring_sizes])
                    rec.natoms = len(other)
                rec.dirty = False
            c, i = key
            stage = {1: 2, 2: 3}.get(c, 1 if (0, i) in rec.seen_double else 0)
            if c == 0:
                rec.seen_double.add((0, i))
            # what the matcher yields on the molecule as it is NOW (the Python fallback matcher is lazy: what it yields later depends on the
            # patches the engine makes in between; the compiled matcher works on a snapshot)
            eager = [list(mp.items()) for mp in rec.orig(self, other, **kw)] if rec.eager else None
            entry = {'eager': eager, 'c': c, 'ridx': i, 'stage': stage if rec.stage is None else rec.stage, 'g0': rec.snap, 'maps': [], 'obs': rec.obs, 'rings': rec.rings, 'natoms': rec.natoms}
            rec.rec.append(entry)
            for mp in rec.orig(self, other, **kw):
                entry['maps'].append(list(mp.items()))
                rec.dirty = True
                yield mp
        self.wrapped = wrapped

    def __enter__(self):
        self.qc.get_mapping = self.wrapped
        return self

    def __exit__(self, *a):
        self.qc.get_mapping = self.orig

    def run(self, fn, stage=None):
        self.rec, self.snap, self.dirty, self.seen_double, self.stage, self.obs, self.rings, self.natoms = [], None, True, set(), stage, None, '[]', 0
        try:
            out = fn()
        finally:
            rec, self.rec = self.rec, None
        return out, rec


def maps_term(maps):
    return lst([lst([tup(zraw(p), zraw(n)) for p, n in mp]) for mp in maps])


def table_term(rec):
    return lst([f'({zraw(e["stage"])}, {zraw(e["ridx"])}, {maps_term(e["maps"])})' for e in rec if e['maps']])


def rlog_term(log):
    """the engine's log entries (tuple(match), r, text) with r >= 0"""
    out = []
    for mt, r, text in log:
        if r < 0:
            continue
        out.append(f'({lst(sorted(mt), zraw)}, {zraw(r)}, {b(text.startswith("bad charge formed"))})')
    return lst(out)


def zl(xs):
    return lst(list(xs), zraw)


# ---------------------------------------------------------------------------------------------
# molecules


def test_groups_data():
    path = os.path.join(common.REPO, 'chython/algorithms/standardize/test/test_groups.py')
    try:
        tree = ast.parse(open(path).read())
        for node in tree.body:
            if isinstance(node, ast.Assign) and getattr(node.targets[0], 'id', None) == 'data':
                return [(x, y) for x, y in ast.literal_eval(node.value)]
    except Exception:
        pass
    return []


def instantiate_rule(rule):
    """the pattern of a rule built as a real molecule: first element / first bond order of every list, the charge and
    radical state the pattern names, carbon substituents until the smallest allowed neighbour count is reached"""
    from chython import MoleculeContainer
    from chython.periodictable import Element
    from chython.periodictable.base.query import AnyMetal, AnyElement, ListElement
    q = rule[0]
    m = MoleculeContainer()
    nxt = max(q._atoms) + 1
    for n, a in q._atoms.items():
        if type(a) is AnyMetal:
            z, chg, rad = 22, 0, False
        elif type(a) is AnyElement:
            z, chg, rad = 6, a.charge, a.is_radical
        elif type(a) is ListElement:
            z, chg, rad = a.atomic_numbers[0], a.charge, a.is_radical
        else:
            z, chg, rad = a.atomic_number, a.charge, a.is_radical
        m.add_atom(Element.from_atomic_number(z)(charge=chg, is_radical=rad), n)
    for n, k, bd in q.bonds():
        m.add_bond(n, k, bd.order[0])
    for n, a in q._atoms.items():
        want = [d for d in a.neighbors if d >= len(q._bonds[n])]
        if want:
            for _ in range(min(want) - len(q._bonds[n])):
                m.add_atom(Element.from_atomic_number(6)(), nxt)
                m.add_bond(n, nxt, 1)
                nxt += 1
    return m


def geminal_instance(rule, shift=40):
    """two copies of a rule's pattern sharing the rule's first any-atom (the overlap of Any-atoms the engine explicitly accepts), e.g. a
    geminal dinitro compound; the shared atom gets a number that is not a pattern index"""
    from chython import MoleculeContainer
    from chython.periodictable import Element
    from chython.periodictable.base.query import AnyMetal, AnyElement, ListElement
    q, any_atoms = rule[0], rule[3]
    if not any_atoms:
        return None
    shared = any_atoms[0]
    m = MoleculeContainer()

    def number(copy, n):
        return shift if n == shared else n + copy * 100 + 50
    for copy in (0, 1):
        for n, a in q._atoms.items():
            if n == shared and copy:
                continue
            if type(a) is AnyMetal:
                z, chg, rad = 22, 0, False
            elif type(a) is AnyElement:
                z, chg, rad = 6, a.charge, a.is_radical
            elif type(a) is ListElement:
                z, chg, rad = a.atomic_numbers[0], a.charge, a.is_radical
            else:
                z, chg, rad = a.atomic_number, a.charge, a.is_radical
            m.add_atom(Element.from_atomic_number(z)(charge=chg, is_radical=rad), number(copy, n))
        for n, k, bd in q.bonds():
            m.add_bond(number(copy, n), number(copy, k), bd.order[0])
    nxt = 400
    for copy in (0, 1):
        for n, a in q._atoms.items():
            if n == shared:
                continue
            want = [d for d in a.neighbors if d >= len(q._bonds[n])]
            if want:
                for _ in range(min(want) - len(q._bonds[n])):
                    m.add_atom(Element.from_atomic_number(6)(), nxt)
                    m.add_bond(number(copy, n), nxt, 1)
                    nxt += 1
    return m


GEMINAL = ['CC(N(=O)=O)N(=O)=O', 'C(N(=O)=O)(N(=O)=O)N(=O)=O', 'CC(C)(N(=O)=O)N(=O)=O', 'O=N(=O)CN(=O)=O', 'CCC(N(=O)=O)(N(=O)=O)CC', 'O=N(=O)C(C)C(C)N(=O)=O',
           'CC(N(=O)=O)(N(=O)=O)N(=O)=O', 'CN(N(=O)=O)N(=O)=O', 'CC(S(=O)(=O)[S-])S(=O)(=O)[S-]', 'CC([N+](=O)[O-])N(=O)=O', 'O=N(=O)c1ccccc1N(=O)=O',
           'C(S(N)(=N)=O)S(N)(=N)=O', 'CC(N(=O)=N)N(=O)=N', 'C[Ti](C#N)(C#N)C#N', '[Ti](C#N)(C#N)(N(=O)=O)N(=O)=O']

DECORATIONS = ['[N+](=O)[O-]', 'N(=O)=O', 'S(=O)(=O)O', 'P(=O)(O)O', 'N=[N+]=[N-]', 'N=N#N', '[N+]#N', 'C#N', '[N+]#[C-]', 'N#C',
               'S(C)(=O)=O', '[S+](C)[O-]', 'C(=O)[O-]', 'C(O)=C', 'C(=N)O', 'N=O', '[NH3+]', 'C(=O)O', 'B(O)O', '[N+](C)(C)[O-]',
               'N(C)(C)=O', 'P(C)(C)(C)=C', 'C(N)=[NH2+]', 'OS(=O)(=O)[O-]', '[P+](C)(C)(C)[O-]', 'S(=O)(=O)[S-]', 'Cl(=O)(=O)=O',
               'N(=O)[O]', 'C(=O)S', 'C=[N+]=[N-]', '[O-]', 'N(C)N=O', 'OO', 'N=C=O', 'N=C=S', 'SC#N']


def decorate(smi, rng, groups=None):
    """a corpus molecule with one of the functional-group spellings the rule tables mention attached to a hydrogen-bearing carbon"""
    from chython import smiles
    from chython.periodictable import Element
    m = smiles(smi)
    cs = [n for n, a in m.atoms() if a.atomic_number == 6 and (a.implicit_hydrogens or 0) > 0]
    if not cs:
        return None
    n = rng.choice(cs)
    dec = smiles(rng.choice(groups)) if groups else smiles('C' + rng.choice(DECORATIONS))
    first = min(dec._atoms)
    top = max(m._atoms)
    mp = {k: (n if k == first else top + k) for k in dec._atoms}
    for k, a in dec._atoms.items():
        if k != first:
            m.add_atom(Element.from_atomic_number(a.atomic_number)(charge=a.charge, is_radical=a.is_radical), mp[k])
    for k, j, bd in dec.bonds():
        m.add_bond(mp[k], mp[j], int(bd))
    return m


SMALL_ATOMS = ['C', 'N', 'O', 'S', 'P', '[N+]', '[O-]', '[N-]', '[S+]', '[C-]', '[C+]', 'B', 'Cl']
SMALL_CORE = ['C', 'N', 'O', 'S', '[N+]', '[O-]', '[N-]']
SMALL_BONDS = ['', '=', '#']


def small_space(tier, stride=1):
    """exhaustive small molecules: every 1- and 2-atom molecule over 13 atom types and 3 bond orders, every 3-atom chain over 7 atom types
    (valence-invalid ones included: that is what the rules repair); quick takes every `stride`-th"""
    out = list(SMALL_ATOMS)
    out += [a + bd + c for a in SMALL_ATOMS for bd in SMALL_BONDS for c in SMALL_ATOMS]
    if tier == 'thorough':
        out += [a + b1 + c + b2 + e for a in SMALL_CORE for b1 in SMALL_BONDS for c in SMALL_CORE for b2 in SMALL_BONDS for e in SMALL_CORE]
    return out[::stride]


def mol_inputs(ck, rng):
    """(tag, molecule factory) list: documented pairs, rule instantiations, metal-organics, decorated corpus, corpus, malformed"""
    from chython import smiles
    out = []
    for raw, _ in test_groups_data():
        out.append(('doc', raw))
    extra = ['[Ti+4](C#N)(C#N)C#N', '[Ti](C#N)(C#N)(C#N)(C#N)(C#N)C#N', '[Fe](C#N)(C#N)(C#N)(C#N)(C#N)C#N', '[Fe+2](C#N)C#N',
             '[Cu]C#N', '[Pd](Cl)(Cl)=C1N(C)C=CN1C', 'Cl[Pd](Cl)=C1N(C)CCN1C', 'C[Mg]Br', 'C[Li]', '[Na]OC', 'CC(=O)O[Na]', '[Zn](C)C', 'CC[Al](CC)CC', '[Pd](Cl)(Cl)(N)N', 'Cl[Pt](Cl)(N)N',
             'O=N(=O)c1ccccc1N(=O)=O', 'CN(=O)=O.CN(=O)=O', 'OP(=O)(O)OP(=O)(O)O', 'C[S+](C)[O-].C[S+](C)[O-]', 'FP(F)(F)(F)(F)F',
             'F[P-](F)(F)(F)(F)F', '[O-][N+](=O)c1ccc(cc1)[N+](=O)[O-]', 'C[N+](C)(C)C', 'CN(C)(C)C.CN(C)(C)C', 'O=C1NC=CC=C1',
             'OC1=NC(O)=NC=C1', 'O=C1NC(=O)NC=C1', 'CC(O)=CC(C)=O', 'N=C(O)c1ccccc1', 'OS(=N)(=N)O', 'CS(=N)(=N)O',
             '[O-][Cl+3]([O-])([O-])O', 'C[N+]#N', 'CN=[N+]=[N-]', 'CN=N#N', 'C1=CC=CC=C1', 'c1ccccc1', 'c1cc[nH]c1', 'C[C@H](N)C(O)=O',
             'F/C=C/N(=O)=O', 'C[C@H](F)N(=O)=O', '[CH2-][N+]#N', 'C[N+](=O)[O-]', '[O]N(C)[CH2]', 'C[N](C)=O |^1:1|', '[H]C([H])([H])N(=O)=O',
             'B1(C)[H]B(C)[H]1', '[NH4+].[Cl-]', 'CC(=O)[O-].[Na+]', '[Na+].[O-]c1ccccc1', 'C[NH3+].[O-]C(C)=O', '[Cu+2].[O-]C(C)=O.[O-]C(C)=O']
    for s in extra:
        out.append(('extra', s))
    for s in GEMINAL:
        out.append(('geminal', s))
    if ck is not None:
        for s in small_space(ck.tier, 15 if ck.tier == 'quick' else 1):
            out.append(('small', s))
    return out


# ---------------------------------------------------------------------------------------------
# correspondence: the rule engine


MATCHER_CASES = ([], [])


def corr_matcher(ck, rng):
    """collected by corr_engine (same recorded runs)"""
    return list(MATCHER_CASES[0]), list(MATCHER_CASES[1])


def corr_engine(ck, rng):
    from chython import smiles
    n_corpus = 30 if ck.tier == 'quick' else 600
    n_decor = 40 if ck.tier == 'quick' else 800
    cases, meta = [], []
    mcases, mmeta = MATCHER_CASES
    del mcases[:], mmeta[:]
    rules_fired = collections.Counter()
    rules_self = {}

    def add(case, m):
        cases.append(case)
        meta.append(m)

    def one_molecule(tag, label, make, ft):
        """whole standardize() + every matched rule as a step"""
        try:
            m = make()
        except Exception as e:
            ck.count(f'engine:{tag}:unbuildable')
            return
        if m is None:
            return
        with Recorder(eager=True) as R:
            try:
                log, rec = R.run(lambda: m.standardize(logging=True, fix_tautomers=ft, _fix_stereo=False))
            except Exception as e:
                ck.count(f'engine:{tag}:raises {type(e).__name__}')
                return
        final = coqmol.mol_term(m)
        fired = [k for k, e in enumerate(rec) if e['maps']]
        ck.count(f'engine:{tag}')
        ck.count(f'engine:rules matched per run={min(len(fired), 4)}')
        ck.case(('engine', tag, label, ft), nontrivial=bool(fired))
        if not rec:
            return
        for k in fired:
            e = rec[k]
            g1 = rec[k + 1]['g0'] if k + 1 < len(rec) else final
            rules_fired[(e['c'], e['ridx'])] += 1
            ck.count('engine:steps')
            if len(e['maps']) > 1:
                ck.count('engine:steps with several mappings')
            add(f'step_ok {e["c"]} {e["stage"]} {e["ridx"]} {e["g0"]} {maps_term(e["maps"])} {g1}',
                {'kind': 'step', 'tag': tag, 'mol': label, 'rule': f'{COLL[e["c"]]}[{e["ridx"]}]', 'fix_tautomers': ft,
                 'spec': f'step_spec {e["c"]} {e["ridx"]} {e["g0"]} {maps_term(e["maps"])}'})
        # the matcher specification: the set of yielded mappings == the set of embeddings (matched rules, and a sample of unmatched ones)
        for k, e in enumerate(rec):
            if e['eager'] or hash_pick(label, k, 'unmatched') % (160 if tag == 'small' else 60 if ck.tier == 'quick' else 40) == 0:
                if len(e['eager']) <= 48:
                    mcases.append(f'matches_ok {e["c"]} {e["ridx"]} {e["rings"]} {e["g0"]} {maps_term(e["eager"])}')
                    mmeta.append({'kind': 'matcher', 'tag': tag, 'mol': label, 'rule': f'{COLL[e["c"]]}[{e["ridx"]}]', 'yielded': len(e['eager'])})
                    ck.count('matcher:rule ' + ('matched' if e['eager'] else 'not matched'))
                    if len(e['eager']) != len(e['maps']):
                        ck.count('matcher:lazy fallback matcher yields another number of mappings than on the unpatched molecule')
        pre = next((list(mt) for mt, r, text in log if r == -1 and text == 'resonance fixed'), [])
        fixed = next((sorted(mt) for mt, r, text in log if r == -1 and text == 'standardized atoms'), [])
        if any(text.startswith('bad charge') for _, _, text in log):
            ck.count('engine:bad charge formed')
        add(f'passes_ok {b(ft)} {table_term(rec)} {zl(pre)} {rec[0]["g0"]} {final} {rlog_term(log)} {zl(fixed)}',
            {'kind': 'standardize()', 'tag': tag, 'mol': label, 'fix_tautomers': ft})
        if rec[0]['natoms'] <= 14 and all(len(e['eager']) <= 1 for e in rec) and tag in ('doc', 'extra', 'small', 'geminal'):
            mcases.append(f'passes_bf_ok {b(ft)} {zl(pre)} {rec[0]["g0"]} {final} {zl(fixed)}')
            mmeta.append({'kind': 'standardize() with the specification matcher', 'tag': tag, 'mol': label, 'fix_tautomers': ft})
            ck.count('matcher:whole standardize() inside Coq')

    inputs = mol_inputs(ck, rng)
    for tag, s in inputs:
        one_molecule(tag, s, lambda s=s: smiles(s), True)
    for tag, s in inputs[::3]:
        one_molecule(tag, s, lambda s=s: smiles(s), False)
    # every rule on its own minimal instantiation (private pass, so that the collection and the stage are the rule's own)
    with Recorder() as R:
        for c, coll in R.colls.items():
            for i, rule in enumerate(coll):
                try:
                    m = instantiate_rule(rule)
                except Exception as e:
                    rules_self[(c, i)] = f'unbuildable: {type(e).__name__}'
                    continue
                stage = {0: 0, 1: 2, 2: 3}[c]
                g0 = coqmol.mol_term(m)
                try:
                    (log, fixed), rec = R.run(lambda: m._Standardize__standardize(coll, True), stage=stage)
                except Exception as e:
                    rules_self[(c, i)] = f'raises {type(e).__name__}'
                    continue
                own = [e for e in rec if e['ridx'] == i and e['maps']]
                rules_self[(c, i)] = 'fires' if own else 'does not match its instantiation'
                if own:
                    rules_fired[(c, i)] += 1
                ck.case(('self', c, i), nontrivial=bool(own))
                add(f'pass_ok {c} {stage} true {table_term(rec)} {g0} {coqmol.mol_term(m)} {rlog_term(log)} {zl(sorted(fixed))}',
                    {'kind': 'pass on own instantiation', 'rule': f'{COLL[c]}[{i}]', 'mol': str(m)})
    # two groups of one rule sharing the rule's any-atom (generated from the tables): the accepted overlap of Any-atoms
    for c, coll in Recorder().colls.items():
        for i, rule in enumerate(coll):
            if rule[3]:
                one_molecule('geminal rule', f'geminal {COLL[c]}[{i}] {rule[0]}', lambda rule=rule: geminal_instance(rule), True)
    # corpus and decorated corpus molecules, renumbered at random half of the time
    lip = corpus.lipo()
    for k, s in enumerate(corpus.sample(lip, n_corpus, ck.seed, 'c14-engine')):
        def make(s=s, k=k):
            m = smiles(s)
            if k % 2:
                m = corpus.renumber(m, random.Random(f'{ck.seed}:{k}'))
            if k % 3 == 0:
                m.kekule()
            return m
        one_molecule('corpus', s, make, k % 4 != 0)
    for k, s in enumerate(corpus.sample(lip, n_decor, ck.seed, 'c14-decor')):
        def make(s=s, k=k):
            m = decorate(s, random.Random(f'{ck.seed}:d{k}'))
            if m is not None and k % 2:
                m = corpus.renumber(m, random.Random(f'{ck.seed}:r{k}'))
            return m
        one_molecule('decorated', s, make, k % 4 != 0)
    n_rules = sum(len(c) for c in Recorder().colls.values())
    ck.extra['rules_matched_in_correspondence'] = f'{len(rules_fired)} of {n_rules}'
    ck.extra['rules_not_matching_own_instantiation'] = sorted(f'{COLL[c]}[{i}]: {v}' for (c, i), v in rules_self.items() if v != 'fires')
    ck.extra['rules_never_matched'] = sorted(f'{COLL[c]}[{i}]' for c, coll in Recorder().colls.items() for i in range(len(coll))
                                             if (c, i) not in rules_fired)
    return cases, meta


def run_corr(ck, name, cases, meta, what, shard=60):
    ok, failing, log = coqcases.run_cases(name, IMPORTS, cases, extra=EXTRA, shard=shard)
    ck.extra.setdefault('correspondence_cases', {})[name] = len(cases)
    ck.oblige(what, ok and not failing, 'correspondence', log or str([meta[i] for i in failing[:5]]))
    if cases:
        ck.sample({'model_call': cases[0][:600], 'meta': {k: v for k, v in meta[0].items() if k != 'spec'}})
    return ok, failing, log


# ---------------------------------------------------------------------------------------------
# correspondence: hydrogens, resonance

EXN = {'KeyError': 'KeyError', 'ValueError': 'ValueError', 'IndexError': 'IndexError', 'TypeError': 'TypeError',
       'StopIteration': 'StopIteration', 'AttributeError': 'AttributeError', 'ValenceError': 'ValenceError'}

H_SMILES = ['[H]C([H])([H])[H]', '[H][H]', '[2H]C', '[H]O[H]', 'C[H]', '[H]C([H])=O', '[H]N([H])([H])[H]', '[H][N+]([H])([H])[H]', '[H+]', '[H-]', '[H]',
            '[H]~C', 'C~[H]', '[1H]C', '[3H]O[H]', '[H]C#N', '[H]OS(=O)(=O)O[H]', '[H]c1ccccc1', '[H]C1=CC=CC=C1', 'B1(C)[H]B(C)[H]1',
            '[H]C([H])([H])C([H])([H])O[H]', '[H]Cl', '[H][Cl+][H]', '[H][O-]', '[H][O+]([H])[H]', '[H]P([H])([H])([H])[H]', '[H]S([H])([H])[H]',
            '[H]N=O', '[H]N(=O)=O', '[H]C([H])([H])N(=O)=O', '[H][C]([H])[H] |^1:1|', '[H][C-]([H])[H]', '[H][C+]([H])[H]', '[Na][H]', '[H][Fe][H]',
            '[H]C([H])([H])[2H]', 'C([H])([H])([H])([H])[H]', '[H]O', '[H]N', 'O([H])([H])[H]', '[H]F', 'F[H]F', '[H]B([H])[H]', '[H][B-]([H])([H])[H]',
            '[H]C(=[H])', '[H]=C', 'CB1(C)~[H]B(C)(C)~[H]1', 'B1~[H]B~[H]1', 'CB(C)~[H]', 'C[H]~B(C)C', 'B~[H]~B', '[H]~[H]', 'CB1(C)~[H]B(C)(C)[H]1']


def pyres_mol(fn, m):
    try:
        fn()
        return f'(Ok {coqmol.mol_term(m)})'
    except Exception as e:
        return f'(Err {EXN.get(type(e).__name__, "OtherError")})'


def corr_hydrogens(ck, rng):
    from chython import smiles
    cases, meta = [], []
    n_corpus = 35 if ck.tier == 'quick' else 500
    pool = [('h', s) for s in H_SMILES] + [('small', s) for s in small_space(ck.tier, 13 if ck.tier == 'quick' else 1)] + [('doc', raw) for raw, _ in test_groups_data()[::2]] + \
           [('corpus', s) for s in corpus.sample(corpus.lipo(), n_corpus, ck.seed, 'c14-h')]
    for k, (tag, s) in enumerate(pool):
        try:
            m = smiles(s)
        except Exception:
            ck.count(f'hydrogens:{tag}:unparsable')
            continue
        if m is None:
            continue
        if tag == 'corpus':
            if k % 2:
                m = corpus.renumber(m, random.Random(f'{ck.seed}:h{k}'))
            if k % 3:
                m.kekule()
        # explicify
        g0 = coqmol.mol_term(m)
        e = m.copy()
        res = pyres_mol(lambda: e.explicify_hydrogens(_fix_stereo=False), e)
        cases.append(f'explicify_ok {g0} {res}')
        meta.append({'kind': 'explicify', 'tag': tag, 'mol': s})
        added = len(e) - len(m)
        ck.count('hydrogens:explicify ' + ('raises' if res.startswith('(Err') else 'adds' if added else 'adds nothing'))
        ck.case(('explicify', s, k), nontrivial=added > 0)
        # implicify the input itself and the explicified molecule (and the latter with some hydrogens removed again)
        todo = [('input', m.copy())]
        if not res.startswith('(Err') and added:
            todo.append(('explicified', e.copy()))
            if tag != 'corpus' or k % 5 == 0:
                p = e.copy()
                hs = [n for n, a in p.atoms() if a.atomic_number == 1]
                r = random.Random(f'{ck.seed}:p{k}')
                for n in r.sample(hs, max(1, len(hs) // 3)):
                    p.delete_atom(n)     # the neighbour keeps implicit count 0 + recalculation by delete_atom
                todo.append(('partly explicit', p))
        for what, x in todo:
            g0 = coqmol.mol_term(x)
            before = len(x)
            res = pyres_mol(lambda: x.implicify_hydrogens(_fix_stereo=False), x)
            cases.append(f'implicify_ok {g0} {res}')
            meta.append({'kind': 'implicify', 'tag': tag, 'mol': s, 'what': what})
            ck.count('hydrogens:implicify ' + ('raises' if res.startswith('(Err') else 'removes' if len(x) < before else 'removes nothing'))
            ck.case(('implicify', s, k, what), nontrivial=len(x) < before)
    return cases, meta


RES_SMILES = ['[CH2-]C=C[CH2+]', '[O-]C=CC=[NH2+]', '[O-]C=C[CH2+]', '[CH2]C=C[CH2] |^1:0,3|', '[CH2]C=CC=C[CH2] |^1:0,5|', '[CH2][CH2] |^1:0,1|',
              '[O-]C=CC=CC=[N+](C)C', 'C[N+](C)=CC=C[O-]', '[O-][N+](=O)C', '[CH2-][N+]#N', '[N-]=[N+]=NC', 'C[S+]=CC=C[O-]', 'C[S+]=C[CH2-]',
              '[CH2-]C=[O+]C', 'NC=C[CH2+]', 'N#CC=C[CH2+]', 'CN(C)C=CC=[O+]C', '[CH2-]c1cccc[n+]1C', '[O-]c1cccc[n+]1C', '[O-]C1=CC=CC=[N+]1C',
              '[O-]C1=CC=[N+](C)C=C1', '[CH2-]C=CC=[N+](C)C', '[O]C=C[CH2] |^1:0,3|', '[O]C=CC=C[O] |^1:0,5|', '[CH2-]C=C[NH+]=C', '[O-]C(C)=[O+]C',
              '[CH2-]C#C[CH2+]', '[CH2-]C=C=C[CH2+]', '[O-]C=C[C+](C)C', '[CH2-]C=CC=CC=CC=C[CH2+]', '[NH-]C=C[CH2+]', '[S-]C=C[CH2+]', '[B-](C)(C)(C)C=C[CH2+]',
              '[O-]P(C)(C)=C[CH2+]', '[CH-]=C[CH2+]', '[CH2-][S+](C)C', 'C[N+](C)(C)C=C[O-]', '[O-]C=C[N+](C)(C)C', '[O-]C=C[P+](C)(C)C',
              # rejected paths: X-[S+]=X reached through its single bond (b != 1), amine donor -> cationic / nitrile nitrogen, exit atoms whose
              # valence would not survive the discharge (roll back), next to accepted paths of the same families
              '[O-]C=C[S+]=C', 'CC(C)=[S+]C=C(C)[O-]', 'C[N-]C=C[S+]=CC', '[CH2-]C=C[S+]=C', '[O-]C=CC=C[S+]=C', 'CN(C)C=C[S+]=C', 'NC=C[S+]=C', '[O-]C=CC=[S+]C',
              '[O-]C=C[Se+]=C', '[S-]C=C[S+]=C', '[O-]C=C[S+]=C.[O-]C=C[CH2+]', '[O-]C=C[O+](C)C', '[S-]C=C[O+](C)C', '[CH2-]C=C[O+](C)C', '[O-]C=C[N+](C)=C',
              'CNC=CC=[N+](C)C', 'CNC=C[N+](C)=C', 'NC=CC=[N+](C)C', 'NC=CC#N', 'CNC=CC#N', '[O-]C=CC#N', '[O-]C=C[NH+]=C', '[O-]C=C[S+](C)C', '[O-]C=C[P+](C)(C)C',
              # saturated onium cations with hydrogens as exits (recorded finding fix_resonance-changes-composition), amidinium oscillation
              '[O-]C=C[NH2+]C', 'CN(C)C=C[NH3+]', 'CN(C)C=C[OH2+]', 'C[N-]C=C[NH2+]C', 'NC(=[NH2+])C1=CC=CC=C1NC', 'CN(C)C=CC=[NH2+]',
              '[CH2-]C=C[CH2+].[CH2-]C=C[CH2+]', '[O-]C=C[CH+]C=C[O-]', '[CH2+]C=C[CH-]C=C[CH2+]', 'NC=CC=[O+]C', 'CNC=C[CH2+]', '[CH2-]C=CN#N']


def corr_resonance(ck, rng):
    from chython import smiles
    from chython.algorithms.standardize.resonance import Resonance
    name = '_Resonance__find_delocalize_path'
    orig = getattr(Resonance, name)
    steps = []

    def wrapped(self, start, finish, constrains, odd_only):
        last = None
        try:
            for p in orig(self, start, finish, constrains, odd_only):
                last = [tuple(x) for x in p]
                yield p
        except GeneratorExit:     # the consumer left the loop with `break`: this path was accepted
            steps.append((odd_only, start, last))
            raise

    cases, meta = [], []
    n_corpus = 40 if ck.tier == 'quick' else 400
    pool = [('res', s) for s in RES_SMILES] + [('doc', raw) for raw, _ in test_groups_data()[1::2]]
    pool += [('decorated', s) for s in corpus.sample(corpus.lipo(), n_corpus, ck.seed, 'c14-res')]
    setattr(Resonance, name, wrapped)
    try:
        for k, (tag, s) in enumerate(pool):
            try:
                m = smiles(s) if tag != 'decorated' else decorate(s, random.Random(f'{ck.seed}:res{k}'), RES_GROUPS)
            except Exception:
                ck.count(f'resonance:{tag}:unbuildable')
                continue
            if m is None:
                continue
            if k % 2:
                m = corpus.renumber(m, random.Random(f'{ck.seed}:rr{k}'))
            g0 = coqmol.mol_term(m)
            del steps[:]
            try:
                hs = m.fix_resonance(logging=True, _fix_stereo=False)
            except Exception as e:
                ck.count(f'resonance:raises {type(e).__name__}')
                continue
            st = lst([f'({"RRad" if odd else "RChg"} {zraw(n)} {lst([tup(zraw(a), zraw(c), zraw(o)) for a, c, o in p])})' for odd, n, p in steps])
            cases.append(f'resonance_ok {g0} {st} {zl(hs)} {coqmol.mol_term(m)}')
            meta.append({'kind': 'fix_resonance', 'tag': tag, 'mol': s, 'paths': len(steps)})
            ck.count(f'resonance:paths applied={min(len(steps), 3)}')
            if any(odd for odd, _, _ in steps):
                ck.count('resonance:radical path')
            ck.case(('resonance', s, k), nontrivial=bool(steps))
    finally:
        setattr(Resonance, name, orig)
    return cases, meta


RES_GROUPS = ['C=C[CH2+]', 'C[CH2+]', 'C=CC=[O+]C', 'C[CH2-]', 'C=C[CH2-]', 'C[O-]', 'C=[N+](C)C', 'C[N+](C)=C', 'C=C[O-]', 'C=CC=C[CH2+]', 'C=C[NH-]',
              'C[CH2] |^1:1|', 'C=C[CH2] |^1:2|']


CATIONS = ['C[NH3+]', '[NH4+]', 'C[NH2+]C', 'c1cc[nH+]cc1', '[NH3+]CC[NH3+]', 'C[NH+](C)C', 'NC(N)=[NH2+]', 'C[N+](C)(C)C', '[Na+]']
ANIONS = ['[Cl-]', 'CC([O-])=O', '[Br-]', 'CS([O-])(=O)=O', '[O-]c1ccccc1', '[O-]C(=O)CC([O-])=O', 'C[O-]', '[OH-]']


def salt_family():
    """salts with k acid (protonated nitrogen) and j base (anion) components, balanced and unbalanced in both directions"""
    out = []
    for i, c in enumerate(CATIONS):
        for k, j in ((1, 1), (2, 1), (3, 2), (1, 2), (2, 3), (3, 1), (1, 0), (0, 1)):
            if (i + k + j) % 3 == 0 or (k, j) in ((2, 1), (1, 2)):
                cs = [CATIONS[(i + x) % len(CATIONS)] for x in range(k)]
                an = [ANIONS[(i + 2 * x + j) % len(ANIONS)] for x in range(j)]
                out.append('.'.join(cs + an))
    return sorted(set(out))


def corr_neutralize(ck, rng):
    """neutralize(keep_charge=True / False): donors / acceptors as the real stripped acid / base patterns match them (inputs of the model), the
    combination the code takes read off the result; the model moves the protons"""
    from chython import smiles
    from chython.algorithms.tautomers._acid import stripped_rules as acid
    from chython.algorithms.tautomers._base import stripped_rules as base
    cases, meta = [], []
    pool = [('salt', s) for s in SALTS + salt_family()] + [('doc result', w) for _, w in test_groups_data()[::4]] + \
           [('corpus', s) for s in corpus.sample(corpus.lipo(), 25 if ck.tier == 'quick' else 300, ck.seed, 'c14-neutral')]
    for k, (tag, s) in enumerate(pool):
        for keep in (True, False):
            try:
                m = prepared(smiles(s), bool(k % 2))
            except Exception:
                continue
            if m is None or not valence_valid(m):
                continue
            if tag == 'corpus' and k % 3 == 0:
                m = corpus.renumber(m, random.Random(f'{ck.seed}:n{k}'))

            def sites(rules):
                out = []
                for q in rules:
                    for mp in q.get_mapping(m, automorphism_filter=False):
                        if mp[1] not in out:
                            out.append(mp[1])
                return out
            donors, acceptors = sites(acid), sites(base)
            g0 = coqmol.mol_term(m)
            q0 = {n: a.charge for n, a in m.atoms()}
            try:
                r = m.neutralize(keep_charge=keep, _fix_stereo=False)
            except Exception as e:
                ck.count(f'neutralize:raises {type(e).__name__}')
                continue
            larger = donors if len(donors) > len(acceptors) else acceptors
            chosen = [n for n in larger if m._atoms[n].charge != q0[n]]
            res = f'(Some {coqmol.mol_term(m)})' if r else 'None'
            cases.append(f'neutralize_ok {b(keep)} {g0} {zl(donors)} {zl(acceptors)} {zl(chosen)} {res}')
            meta.append({'kind': 'neutralize', 'tag': tag, 'mol': s, 'keep_charge': keep, 'donors': len(donors), 'acceptors': len(acceptors)})
            ck.count('neutralize:' + ('nothing to do' if not r else 'balanced' if len(donors) == len(acceptors) else
                                      'more donors' if len(donors) > len(acceptors) else 'more acceptors') + ('' if keep else ' (keep_charge=False)'))
            ck.case(('neutralize', s, keep, k), nontrivial=bool(r))
    return cases, meta


# ---------------------------------------------------------------------------------------------
# correspondence: standardize_charges (heterocycle loops; bodies translated from the source)

CHARGE_SMILES = ['c1c[nH]c(n1)-c1[nH]cc[nH+]1', 'C(c1c[nH]c[nH+]1)c1cc[nH][nH+]1', 'c1cc2[nH]cc[n+]2[nH]1', 'Cc1cc2[nH]cc[n+]2[nH]1', 'c1cn2cc[nH]c2[nH+]1', 'Cn1cc[n+](C)c1C',
                 'c1c[nH+]c2cc[nH]cc12', 'c1cc2[nH+]ccc2[nH]1', 'c1ccn2cc[nH+]c2c1', 'C[n+]1ccn(C)c1-c1n(C)cc[n+]1C', 'c1ccc2[nH]c[nH+]c2c1', 'c1cc2c(cc1)[nH][nH+]c2',
                 'Cn1cc[nH+]c1', 'c1c[nH]cn1', 'c1ccncc1', 'C[n+]1cc[nH]c1', 'c1c[nH+]c[nH]1.c1cc[nH][nH+]1', 'O=C1NC=C[NH2+]1', 'C1=C[N+]2=CCNC2=N1', 'c1cc2[nH]ccc2[nH+]1',
                 'c1cc2cc[nH]c2c[nH+]1', 'c1cc2c[nH]cc2c[nH+]1', 'c1cc2c[nH+]ccc2[nH]1', 'c1[nH]cc2ccc[nH+]c12', '[Fe+2].c1cc[cH-]c1.C[c-]1cccc1', 'C[c-]1cccc1',
                 # cyclopentadienyl-type anions (the ferrocene block): every charge position, fused, hetero, doubly charged, with a cation elsewhere
                 'CC1=C[CH-]C=C1', 'C[C-]1C=CC=C1', 'CC1=CC=C[CH-]1', '[CH-]1C=Cc2ccccc12', 'c1cc[cH-]c1', '[Fe+2].C[c-]1cccc1.CC[c-]1cccc1', 'c1cc[n-]c1',
                 'CC1=C(C)[C-](C)C(C)=C1C', 'Cc1c[cH-]c(C)c1', 'C[N+](C)(C)Cc1cc[cH-]c1', '[CH-]1C=CC(=C1)c1cc[cH-]c1', 'c1cc2cc[cH-]c2c1', 'Cc1cc[cH-]c1.c1c[nH]c[nH+]1']


class ChargeRecorder:
    """records what q.get_mapping yields for the patterns of fixed_rules / morgan_rules (as consumed), the molecule when the first
    pattern is tried (after thiele()), the charges when the first morgan pattern is tried (end of the loop over fixed_rules) and the
    canonical order computed after the last morgan pattern was tried"""

    def __init__(self):
        from chython.containers import QueryContainer
        from chython.algorithms.morgan import Morgan
        from chython.algorithms.standardize import _charged
        self.qc, self.orig = QueryContainer, QueryContainer.get_mapping
        self.cp = Morgan.__dict__['atoms_order']
        self.orig_order = self.cp.func
        self.tables = {'f': list(_charged.fixed_rules), 'm': list(_charged.morgan_rules)}
        self.pid = {id(q): (t, i) for t, tab in self.tables.items() for i, (q, _) in enumerate(tab)}
        rec = self

        def wrapped(self, other, **kw):
            key = rec.pid.get(id(self))
            if key is None or rec.run is None:
                yield from rec.orig(self, other, **kw)
                return
            run = rec.run
            if run['g0'] is None:
                run['g0'] = coqmol.mol_term(other)
                run['n'] = len(other)
            if key[0] == 'm' and run['mid'] is None:
                run['mid'] = [(n, a.charge) for n, a in other.atoms()]
            run['last'] = key
            run['orders'] = []
            out = run['y'][key[0]][key[1]]
            for mp in rec.orig(self, other, **kw):
                out.append(list(mp.items()))
                yield mp

        def order_func(self):
            r = rec.orig_order(self)
            if rec.run is not None:
                rec.run['orders'].append(dict(r))
            return r
        self.wrapped, self.order_func = wrapped, order_func
        self.run = None

    def __enter__(self):
        self.qc.get_mapping = self.wrapped
        self.cp.func = self.order_func
        return self

    def __exit__(self, *a):
        self.qc.get_mapping = self.orig
        self.cp.func = self.orig_order

    def record(self, fn):
        self.run = {'g0': None, 'mid': None, 'orders': [], 'last': None, 'n': 0,
                    'y': {t: [[] for _ in tab] for t, tab in self.tables.items()}}
        try:
            out = fn()
        finally:
            run, self.run = self.run, None
        return out, run


def corr_charges(ck, rng):
    from chython import smiles
    cases, meta = [], []
    pool = [('charge rule', x) for x in charge_rule_family()] + [('azolium', s) for s in AZOLIUM + CHARGE_SMILES]
    pool += [('corpus', s) for s in corpus.sample(corpus.lipo(), 25 if ck.tier == 'quick' else 400, ck.seed, 'c14-charges')]
    pool += [('doc result', w) for _, w in test_groups_data()[::8 if ck.tier == 'quick' else 1]]
    with ChargeRecorder() as R:
        for k, (tag, s) in enumerate(pool):
            variants = (0, 1, 2) if tag in ('charge rule', 'azolium') else (0,)
            if ck.tier == 'quick' and tag == 'charge rule':
                variants = {'NH': (0, 1), 'NMe': (0,), 'CMe': (2,)}[s[2]]
            elif ck.tier == 'quick' and tag == 'azolium' and k % 3:
                variants = (0, 1)
            for variant in variants:
                # 0: Kekule form, thiele() inside; 1: aromatic form, prepare_molecule=False; 2: renumbered Kekule form
                try:
                    m = charge_rule_instance(*s) if tag == 'charge rule' else smiles(s)
                    m.kekule()
                    if variant == 1:
                        m.thiele()
                    if variant == 2:
                        m = corpus.renumber(m, random.Random(f'{ck.seed}:cr{k}'))
                except Exception:
                    ck.count(f'charges:{tag}:unbuildable')
                    continue
                label = s if isinstance(s, str) else 'charge rule %s[%d] %s' % s
                try:
                    changed, run = R.record(lambda: m.standardize_charges(logging=True, prepare_molecule=variant != 1, _fix_stereo=False))
                except Exception as e:
                    ck.count(f'charges:raises {type(e).__name__}')
                    continue
                if run['g0'] is None:
                    continue
                orders = run['orders']
                yf, ym = (lst([maps_term(ms) for ms in run['y'][t]]) for t in ('f', 'm'))
                accepted_any = any(run['y'][t][i] for t in 'fm' for i in range(len(run['y'][t])))
                # the canonical order the pair loop read: the first one computed after the last pattern was tried
                # (atoms_order is recomputed for the pair loop if there are pairs and for the ferrocene block if a ring was reset, in this order)
                final = [(n, a.charge) for n, a in m.atoms()]
                # the heterocycle part reports at most the atoms of its matches; what follows in `changed` comes from the ferrocene block
                hetero = {n for t in 'fm' for ms in run['y'][t] for mp in ms for _, n in mp}
                cut = next((i for i, n in enumerate(changed) if n not in hetero), len(changed))
                # a ferrocene atom can also be an atom of a heterocycle match only in a fused anion-cation system: not generated
                head, ferro = changed[:cut], changed[cut:]
                pair_order = orders[0] if orders and (len(orders) == 2 or not ferro) else {}
                ferro_order = orders[-1] if orders and ferro else {}
                ranks = lst([tup(zraw(n), zraw(r)) for n, r in pair_order.items()])
                ranks_f = lst([tup(zraw(n), zraw(r)) for n, r in ferro_order.items()])
                chg = lst([tup(zraw(n), zraw(c)) for n, c in final if n not in ferro])
                sssr = lst([zl(r) for r in m.sssr])
                cases.append(f'charges_full_ok {yf} {ym} {ranks} {ranks_f} {sssr} {run["g0"]} {zl(changed)} {lst([tup(zraw(n), zraw(c)) for n, c in final])}')
                meta.append({'kind': 'standardize_charges incl. the ferrocene block', 'tag': tag, 'mol': label, 'variant': variant, 'changed': changed})
                if ck.tier != 'quick' or ferro or k % 3 == 0:       # the heterocycle part alone (subsumed by the whole function unless the ferrocene block fired)
                    cases.append(f'charges_ok {yf} {ym} {ranks} {run["g0"]} {zl(head)} {zl(ferro)} {chg}')
                    meta.append({'kind': 'standardize_charges', 'tag': tag, 'mol': label, 'variant': variant, 'changed': changed})
                cases.append(f'charges_pre_ok {yf} {ym} {ranks} {run["g0"]}')
                meta.append({'kind': 'standardize_charges: hypothesis of the whole-call net-charge theorem (charges as the pattern says at every accepted match)',
                             'tag': tag, 'mol': label, 'variant': variant})
                if run['mid'] is not None and (ck.tier != 'quick' or any(run['y']['f'])):
                    cases.append(f'charges_mid_ok {yf} {run["g0"]} {lst([tup(zraw(n), zraw(c)) for n, c in run["mid"]])}')
                    meta.append({'kind': 'standardize_charges: end of the loop over fixed_rules', 'tag': tag, 'mol': label, 'variant': variant})
                nf = sum(len(ms) for ms in run['y']['f'])
                nm = sum(len(ms) for ms in run['y']['m'])
                ck.count(f'charges:{tag}: fixed-rule mappings={min(nf, 3)} morgan-rule mappings={min(nm, 3)}')
                ck.count('charges:' + ('recharged' if head else 'mappings but nothing accepted' if accepted_any else 'no mapping') + (' + ferrocene block' if ferro else ''))
                ck.case(('charges', label, variant), nontrivial=bool(changed))
    return cases, meta

# ---------------------------------------------------------------------------------------------
# search: property-level oracles on the real code (independent of the model)

OPS = collections.OrderedDict([
    ('standardize', lambda m: m.standardize()),
    ('standardize(fix_tautomers=False)', lambda m: m.standardize(fix_tautomers=False)),
    ('canonicalize', lambda m: m.canonicalize()),
    ('canonicalize(fix_tautomers=False)', lambda m: m.canonicalize(fix_tautomers=False)),
    ('canonicalize(keep_kekule=True)', lambda m: m.canonicalize(keep_kekule=True)),
    ('canonicalize(keep_kekule=True, fix_tautomers=False)', lambda m: m.canonicalize(keep_kekule=True, fix_tautomers=False)),
    ('fix_resonance', lambda m: m.fix_resonance()),
    ('standardize_charges', lambda m: m.standardize_charges()),
    ('neutralize', lambda m: m.neutralize()),
    ('neutralize(keep_charge=False)', lambda m: m.neutralize(keep_charge=False)),
    ('explicify_hydrogens', lambda m: m.explicify_hydrogens()),
    ('implicify_hydrogens', lambda m: m.implicify_hydrogens()),
])
OP_CODE = {'standardize': 'm.standardize()', 'standardize(fix_tautomers=False)': 'm.standardize(fix_tautomers=False)',
           'canonicalize': 'm.canonicalize()', 'canonicalize(fix_tautomers=False)': 'm.canonicalize(fix_tautomers=False)',
           'canonicalize(keep_kekule=True)': 'm.canonicalize(keep_kekule=True)',
           'canonicalize(keep_kekule=True, fix_tautomers=False)': 'm.canonicalize(keep_kekule=True, fix_tautomers=False)',
           'fix_resonance': 'm.fix_resonance()', 'standardize_charges': 'm.standardize_charges()', 'neutralize': 'm.neutralize()',
           'neutralize(keep_charge=False)': 'm.neutralize(keep_charge=False)', 'explicify_hydrogens': 'm.explicify_hydrogens()',
           'implicify_hydrogens': 'm.implicify_hydrogens()'}
TAUTOMERIC = {'standardize', 'canonicalize'}          # numbering independence is claimed for these on the fixed corpus only
PROTON_TRANSFER = {'neutralize(keep_charge=False)'}   # charge and hydrogens change by the same number of protons


def observe(m):
    """composition of a molecule, read off the atoms"""
    heavy = collections.Counter((a.atomic_number, a.isotope) for _, a in m.atoms() if a.atomic_number != 1)
    hydrogens = collections.Counter(a.isotope for _, a in m.atoms() if a.atomic_number == 1)
    invalid = [n for n, a in m.atoms() if a.implicit_hydrogens is None]
    total_h = sum(hydrogens.values()) + sum(a.implicit_hydrogens or 0 for _, a in m.atoms())
    charge = sum(a.charge for _, a in m.atoms())
    radicals = sum(1 for _, a in m.atoms() if a.is_radical)
    return {'heavy': heavy, 'h': total_h, 'charge': charge, 'invalid': invalid, 'radicals': radicals,
            'heavy_h_isotopes': collections.Counter({k: v for k, v in hydrogens.items() if k not in (None, 1)})}


def state(m):
    return ({n: (a.atomic_number, a.isotope, a.charge, a.is_radical, a.implicit_hydrogens, a.stereo) for n, a in m.atoms()},
            {(min(n, k), max(n, k)): (int(bd), bd.stereo) for n, k, bd in m.bonds()})


def fmt_counter(c):
    return {str(k): v for k, v in sorted(c.items(), key=repr)}


def labelled(m):
    lab = {n: (a.atomic_number, a.isotope, a.charge, a.is_radical, a.implicit_hydrogens) for n, a in m.atoms()}
    adj = {n: {k: int(bd) for k, bd in nb.items()} for n, nb in m._bonds.items()}
    return lab, adj


def isomorphic(a, b, budget=200000):
    """labelled-graph isomorphism (element, isotope, charge, radical, hydrogens; bond orders; stereo ignored), written
    independently of chython: colour refinement + backtracking.  True / False / None (budget exhausted)"""
    la, aa = labelled(a)
    lb, ab = labelled(b)
    if len(la) != len(lb) or collections.Counter(la.values()) != collections.Counter(lb.values()):
        return False
    ca, cb = dict(la), dict(lb)
    for _ in range(len(la)):
        ids = {}
        na = {n: ids.setdefault((ca[n], tuple(sorted((o, ca[k]) for k, o in aa[n].items()))), len(ids)) for n in aa}
        nb = {n: ids.setdefault((cb[n], tuple(sorted((o, cb[k]) for k, o in ab[n].items()))), len(ids)) for n in ab}
        stable = len(set(na.values())) == len(set(ca.values())) and len(set(nb.values())) == len(set(cb.values()))
        ca, cb = na, nb
        if collections.Counter(ca.values()) != collections.Counter(cb.values()):
            return False
        if stable:
            break
    by_colour = collections.defaultdict(list)
    for n, c in cb.items():
        by_colour[c].append(n)
    # order: BFS so that every atom but component roots has an assigned neighbour; small colour classes first
    size = collections.Counter(ca.values())
    order, seen = [], set()
    for root in sorted(aa, key=lambda n: (size[ca[n]], n)):
        if root in seen:
            continue
        queue = [root]
        seen.add(root)
        while queue:
            n = queue.pop(0)
            order.append(n)
            for k in sorted(aa[n], key=lambda k: (size[ca[k]], k)):
                if k not in seen:
                    seen.add(k)
                    queue.append(k)
    steps = [0]
    fwd, used = {}, set()

    def go(i):
        if i == len(order):
            return True
        steps[0] += 1
        if steps[0] > budget:
            raise TimeoutError
        n = order[i]
        assigned = [(k, o) for k, o in aa[n].items() if k in fwd]
        if assigned:
            k0, o0 = assigned[0]
            cands = [x for x, o in ab[fwd[k0]].items() if o == o0]
        else:
            cands = by_colour[ca[n]]
        for x in cands:
            if x in used or cb[x] != ca[n] or len(ab[x]) != len(aa[n]):
                continue
            if all(ab[x].get(fwd[k]) == o for k, o in assigned):
                fwd[n] = x
                used.add(x)
                if go(i + 1):
                    return True
                del fwd[n]
                used.discard(x)
        return False
    import sys
    sys.setrecursionlimit(max(sys.getrecursionlimit(), len(order) + 1000))
    try:
        return go(0)
    except TimeoutError:
        return None


def stereo_count(m):
    return sum(1 for _, a in m.atoms() if a.stereo is not None) + sum(1 for *_, bd in m.bonds() if bd.stereo is not None)


def valence_valid(m):
    """every hydrogen count is known and no hydrogen atom has more than one covalent bond (chython gives every H atom the
    count 0; a second, coordinate (order 8) bond is what the diborane rule itself produces)"""
    for n, a in m.atoms():
        if a.implicit_hydrogens is None:
            return False
        if a.atomic_number == 1 and sum(1 for bd in m._bonds[n].values() if int(bd) != 8) > 1:
            return False
    return True


def stale_views(m):
    """cache coherence: every cached view the object still carries after an operation must be what a rebuilt-from-scratch copy computes (a
    copy() carries no cached view).  Compared exactly where the view is a function of the graph alone (connectivity without special bonds,
    components, ring counts, ring sizes per atom, canonical order); for the SSSR (a choice among equally small rings) only what every choice
    shares: the atoms exist, every ring is a cycle of the present graph, number and sizes of the rings.  -> list of (view, reason)"""
    d = m.__dict__
    out = []
    try:
        fresh = m.copy()
    except Exception:
        return out
    atoms = set(m._atoms)

    def norm(k, v):
        if k == 'not_special_connectivity':
            return {n: sorted(x) for n, x in v.items()}
        if k == 'connected_components':
            return sorted(sorted(c) for c in v)
        if k == 'atoms_rings_sizes':
            return {n: sorted(x) for n, x in v.items()}
        if k == 'atoms_order':
            return dict(v)
        return v
    for k in ('not_special_connectivity', 'connected_components', 'atoms_rings_sizes', 'rings_count', 'atoms_order'):
        if k in d:
            try:
                want = norm(k, getattr(fresh, k))
                got = norm(k, d[k])
            except Exception:
                continue
            if got != want:
                gone = sorted(set(got) - atoms) if isinstance(got, dict) else []
                out.append((k, f'cached {k} differs from the recomputed one' + (f'; it still mentions the non-existing atoms {gone}' if gone else '')))
    if 'sssr' in d:
        try:
            rings = list(d['sssr'])
            want = sorted(len(r) for r in fresh.sssr)
            if sorted(len(r) for r in rings) != want:
                out.append(('sssr', 'cached sssr has other ring sizes than the recomputed one'))
            for r in rings:
                if any(n not in atoms for n in r) or any(r[i] not in m._bonds[r[i - 1]] for i in range(len(r))):
                    out.append(('sssr', f'cached ring {tuple(r)} is not a cycle of the present graph'))
                    break
        except Exception:
            pass
    # the labels stored on the atoms (what the substructure matcher and thiele() read) against the documented definition, computed here from the
    # bond orders: hybridization 4 with an aromatic bond, else 3 with a triple or two double bonds, 2 with one double bond, else 1; number of
    # neighbours without special bonds
    for n, a in m.atoms():
        orders = [int(bd) for bd in m._bonds[n].values() if int(bd) != 8]
        hyb = 4 if 4 in orders else 3 if 3 in orders or orders.count(2) > 1 else 2 if 2 in orders else 1
        try:
            if a.hybridization != hyb:
                out.append(('hybridization', f'atom {n} carries the hybridization label {a.hybridization}, its bonds {sorted(orders)} mean {hyb}'))
                break
            if a.neighbors != len(orders):
                out.append(('neighbors', f'atom {n} carries the neighbours label {a.neighbors}, it has {len(orders)} non-special bonds'))
                break
        except Exception:
            break
    return out


STALE_LABELS = 'stale-labels:fix_resonance-keeps-the-hybridization-labels'


def fix_resonance_leaves_stale_labels(make):
    """regression key of the finding fixed in /repo by ec73a88 (a `fixed` entry of known_findings.d suppresses nothing: reported as a violation
    under this stable key if the defect returns): on the Kekule form of this input fix_resonance() alone moves double bonds and leaves atoms whose stored
    hybridization label is not what their bonds mean (the labels were right before the call)"""
    try:
        x = make()
        x.kekule()
        if any(k == 'hybridization' for k, _ in stale_views(x)):
            return False
        x.fix_resonance()
        return any(k == 'hybridization' for k, _ in stale_views(x))
    except Exception:
        return False


def charge_rule_instance(table, i, variant):
    """a (pattern, fix) rule of the charge-position tables of standardize_charges built as a real molecule: the pattern's atoms, charges and
    aromatic bonds; the two pyrrole-like nitrogens :1 and :2 carry a hydrogen ('NH') or a methyl group ('NMe'), a bridgehead cation :3 none;
    'CMe': the NH form with a methyl group on the first hydrogen-bearing carbon (the two nitrogens are no longer symmetry equivalent)"""
    from chython import MoleculeContainer
    from chython.periodictable import Element
    from chython.algorithms.standardize import _charged
    q, fix = {'fixed': _charged.fixed_rules, 'morgan': _charged.morgan_rules}[table][i]
    m = MoleculeContainer()
    for n, a in q._atoms.items():
        m.add_atom(Element.from_atomic_number(a.atomic_number)(charge=a.charge, is_radical=a.is_radical), n)
    for n, k, bd in q.bonds():
        m.add_bond(n, k, bd.order[0])
    nxt = max(q._atoms) + 1
    for n in (1, 2):
        if variant == 'NMe':
            m.add_atom(Element.from_atomic_number(6)(), nxt)
            m.add_bond(n, nxt, 1)
            nxt += 1
        else:
            m._atoms[n]._implicit_hydrogens = 1
    for n in q._atoms:
        if n not in (1, 2) and m._atoms[n].atomic_number == 7:
            m._atoms[n]._implicit_hydrogens = 0
    if variant == 'CMe':
        n = next((n for n, a in m.atoms() if a.atomic_number == 6 and len(m._bonds[n]) == 2), None)
        if n is not None:
            m.add_atom(Element.from_atomic_number(6)(), nxt)
            m.add_bond(n, nxt, 1)
    m.kekule()
    return m


def charge_rule_family():
    from chython.algorithms.standardize import _charged
    return [(t, i, v) for t, tab in (('fixed', _charged.fixed_rules), ('morgan', _charged.morgan_rules)) for i in range(len(tab)) for v in ('NH', 'NMe', 'CMe')]


# explicit-hydrogen spellings: hydrogens on ring stereo centres, on aromatic / charged rings (cyclopentadienyl anions: the ferrocene step of
# standardize_charges counts neighbours), next to the families of the other pools
XH_SMILES = ['O[C@H]1CCOC1', 'C[C@H]1CC[C@@H](O)CC1', 'N[C@H]1CCC(=O)C1', 'C[C@@H]1CCC(O)C1', 'C[C@H](N)C(O)=O', 'F/C=C/C1CC1', 'C[C-]1C=CC=C1', 'CC1=C[CH-]C=C1',
             'CC1=CC=C[CH-]1', '[Fe+2].c1cc[cH-]c1.C[c-]1cccc1', 'c1ccccc1', 'Cc1cc[nH][nH+]1', 'Cc1c[nH]c[nH+]1', 'OC1=NC=CC=C1', 'C[N+](=O)[O-]', 'CN(=O)=O', 'C1CC1[C@H](C)O',
             'O=C1CC[C@@H](C)C1', 'C[C@]12CCCC[C@H]1CCC2', '[O-]c1ccccc1[CH2+]', 'C[S+](C)[O-]', 'OC(=O)[C@@H]1CCCN1']


def explicit_spelling(m):
    """the molecule written with every hydrogen as an atom and parsed again: an object with the history the SMILES parser leaves"""
    from chython import smiles
    m.explicify_hydrogens()
    return smiles(str(m))


def check_explicit_history(ck, lim, smi, make_implicit, code):
    """history family: the explicit-hydrogen spelling (freshly parsed) of a valence-valid molecule.  implicify_hydrogens() never fails on it and gives
    back the implicit molecule (labelled graph, stereo labels, canonical string); afterwards the object behaves like a rebuilt-from-scratch copy of
    itself: no stale cached view, and every charge / resonance / canonicalisation step gives the same result on the object and on its copy"""
    make_given = make_implicit

    def make_implicit():        # Kekule forms: implicify_hydrogens() does not touch hydrogens on aromatic atoms (no valence rule matches them)
        m = make_given()
        if m is not None:
            m.kekule()
        return m
    a = make_implicit()
    if a is None or not valence_valid(a) or any(x.atomic_number == 1 for _, x in a.atoms()):
        return
    build = f'{code}; m.kekule(); m.explicify_hydrogens(); m = smiles(str(m))'
    inp = {'smiles': smi, 'built_by': build}
    rp = (f'from chython import smiles\n{build}\nprint(m); print(m.implicify_hydrogens(), m)\nc = m.copy()\n'
          f'print(m.standardize_charges(), m); print(c.standardize_charges(), c); print(m.canonicalize(), m); print(c.canonicalize(), c)')
    try:
        x = explicit_spelling(make_implicit())
    except Exception:
        ck.count('search:explicit spelling unbuildable')
        return
    n_h = sum(1 for _, at in x.atoms() if at.atomic_number == 1)
    ck.case(('explicit history', smi, code), nontrivial=n_h > 0)
    ck.count('search:explicit-hydrogen spellings (parsed afresh)')
    try:
        removed = x.implicify_hydrogens()
    except Exception as e:
        lim.counterexample('explicit history raises', f'explicit-history-raises:{type(e).__name__}:{smi}', f'implicify_hydrogens() raises {type(e).__name__} on the freshly parsed '
                           'explicit-hydrogen spelling of a valence-valid molecule', inp, f'{type(e).__name__}: {e}', str(a), 'the operation must not fail on valence-valid input',
                           replay_py=rp)
        return
    same = isomorphic(a, x)
    if same is False or removed != n_h or stereo_count(a) != stereo_count(x) or str(a) != str(x):
        lim.counterexample('explicit history', f'explicit-history:{smi}', 'implicify_hydrogens() of the explicit-hydrogen spelling is not the implicit molecule', inp,
                           {'removed': removed, 'result': str(x), 'stereo labels': stereo_count(x)}, {'removed': n_h, 'result': str(a), 'stereo labels': stereo_count(a)},
                           'labelled-graph isomorphism, number of stereo labels, canonical string', replay_py=rp)
        return
    stale = stale_views(x)
    if stale:
        lim.counterexample('stale view', f'stale-view:implicify_hydrogens:{stale[0][0]}:{smi}', 'implicify_hydrogens() leaves a cached view that a rebuilt copy of the molecule '
                           'computes differently', inp, [r for _, r in stale], 'every cached view equals the recomputed one', 'cached views of the object vs of its copy()',
                           replay_py=rp)
    def make_x():
        return explicit_spelling(make_implicit())
    make_x.code = build
    check_op(ck, lim, 'implicify_hydrogens', smi, make_x)
    for name in ('standardize_charges', 'fix_resonance', 'canonicalize'):
        try:
            same_obj = explicit_spelling(make_implicit())
            same_obj.implicify_hydrogens()      # the object as implicify_hydrogens() leaves it, with the views it kept
            rebuilt = same_obj.copy()           # copy() carries no cached view
        except Exception:
            continue
        try:
            OPS[name](same_obj)
            OPS[name](rebuilt)
        except Exception as e:
            lim.counterexample('explicit history raises', f'explicit-history-raises:{name}:{type(e).__name__}:{smi}', f'{OP_CODE[name]} after implicify_hydrogens() raises '
                               f'{type(e).__name__}', inp, f'{type(e).__name__}: {e}', 'no exception', 'the operation must not fail on valence-valid input', replay_py=rp)
            continue
        if state(same_obj) != state(rebuilt) and isomorphic(same_obj, rebuilt) is False:
            lim.counterexample('explicit history', f'explicit-history:{name}:{smi}', f'{OP_CODE[name]} after implicify_hydrogens() gives another result on the object than on a '
                               'rebuilt copy of it (a stale cached view decides)', inp, str(same_obj), str(rebuilt),
                               'same operation on the object implicify_hydrogens() left and on its copy()', replay_py=rp)


class Limited:
    """at most `limit` counterexamples per kind reach the replay directory (one defect shows up on many molecules)"""

    def __init__(self, ck, limit=4):
        self.ck, self.limit, self.seen = ck, limit, collections.Counter()

    def counterexample(self, kind, key, *a, **kw):
        self.ck.count('search:FAIL ' + kind)
        if self.ck.match_known(key) is not None:        # recorded findings never use up the budget of new ones
            self.ck.counterexample(key, *a, **kw)
            return
        self.seen[kind] += 1
        if self.seen[kind] <= self.limit:
            self.ck.counterexample(key, *a, **kw)


LOGGED = {'standardize': lambda m: m.standardize(logging=True),
          'standardize(fix_tautomers=False)': lambda m: m.standardize(logging=True, fix_tautomers=False),
          'canonicalize': lambda m: m.canonicalize(logging=True),
          'canonicalize(fix_tautomers=False)': lambda m: m.canonicalize(logging=True, fix_tautomers=False),
          'canonicalize(keep_kekule=True)': lambda m: m.canonicalize(logging=True, keep_kekule=True),
          'canonicalize(keep_kekule=True, fix_tautomers=False)': lambda m: m.canonicalize(logging=True, keep_kekule=True, fix_tautomers=False)}


def rule_steps(make, ft):
    """which rules change net charge / hydrogen count when standardize() runs on this molecule: [(pattern, dq, dh)]"""
    m = make()
    out = []
    with Recorder(observe_too=True) as R:
        try:
            _, rec = R.run(lambda: m.standardize(fix_tautomers=ft, _fix_stereo=False))
        except Exception:
            return out
    final = observe(m)
    for k, e in enumerate(rec):
        if not e['maps']:
            continue
        o0 = e['obs']
        o1 = rec[k + 1]['obs'] if k + 1 < len(rec) else final
        if o0['invalid'] or not o0['h1ok']:
            break        # from here on the molecule is not valence-valid any more: outside the claim
        if (o1['charge'], o1['h']) != (o0['charge'], o0['h']):
            out.append((str(R.colls[e['c']][e['ridx']][0]), o1['charge'] - o0['charge'], o1['h'] - o0['h']))
    return out


def rewrites_aromatic_bonds(make):
    """mechanism test: the input is in aromatic (Thiele) form and fix_resonance() changes the order of an aromatic bond (its path search
    takes order 4 - 1 = 3 for a legal step)"""
    try:
        x = make()
        before = {(min(n, k), max(n, k)) for n, k, bd in x.bonds() if int(bd) == 4}
        if not before:
            return False
        x.fix_resonance()
        return any(int(x._bonds[n][k]) != 4 for n, k in before)
    except Exception:
        return False


class Keyed:
    """every counterexample of the fix_resonance / standardize family on an input whose aromatic bonds fix_resonance rewrites is one recorded
    mechanism, whatever oracle notices it (valence error, idempotence, numbering, composition)"""

    def __init__(self, lim, make, family):
        self.lim, self.make, self.family, self.arom = lim, make, family, None

    def counterexample(self, kind, key, *a, **kw):
        if self.family in ('fix_resonance', 'standardize'):
            if self.arom is None:
                self.arom = rewrites_aromatic_bonds(self.make)
            if self.arom:
                key = 'fix_resonance-rewrites-aromatic-bonds'
        self.lim.counterexample(kind, key, *a, **kw)


def smi_is_azolium(smi):
    return smi in AZOLIUM


def check_op(ck, lim, name, smi, make, renumber=True, fixed_corpus=False):
    """all oracles of one operation on one molecule; make() builds a fresh input molecule"""
    op = OPS[name]
    code = OP_CODE[name]
    family = name.split('(')[0]
    lim = Keyed(lim, make, family)
    m = make()
    before = observe(m)
    valid = valence_valid(m)
    build = getattr(make, 'code', f'm = smiles({smi!r})')
    rp = f'from chython import smiles\n{build}\nprint(str(m)); r = {code}; print(r, str(m))\nr = {code}; print(r, str(m))'
    inp = {'smiles': smi, 'built_by': build, 'operation': code}
    try:
        op(m)
    except Exception as e:
        if valid:
            key = f'raises:{name}:{type(e).__name__}:{smi}'
            if family in ('canonicalize', 'implicify_hydrogens') and type(e).__name__ == 'ValenceError' and 'Hydrogen atom' in str(e) and \
                    any(a.atomic_number == 1 and len(m._bonds[n]) > 1 and any(int(x) == 8 for x in m._bonds[n].values()) for n, a in m.atoms()):
                key = 'implicify-raises:hydrogen-with-coordinate-bond'
            lim.counterexample(f'raises {name}', key, f'{code} raises {type(e).__name__} on valence-valid input',
                               inp, f'{type(e).__name__}: {e}', 'no exception', 'the operation must not fail on valence-valid input', replay_py=rp)
        else:
            ck.count(f'search:{name} raises on valence-INVALID input (outside the claim)')
        return None
    after = observe(m)
    ck.case(('op', name, smi, build), nontrivial=state(make()) != state(m))
    if after['heavy'] != before['heavy'] or after['heavy_h_isotopes'] != before['heavy_h_isotopes']:
        lim.counterexample(f'heavy atoms {name}', f'heavy:{name}:{smi}', f'{code} changes the heavy-atom multiset', inp,
                           fmt_counter(after['heavy']), fmt_counter(before['heavy']), 'multiset of (atomic number, isotope) over non-hydrogen atoms', replay_py=rp)
    if valid:
        if after['invalid']:
            key = f'valence:{name}:{smi}'
            src = make()
            if family in ('standardize', 'canonicalize') and all(
                    not m._atoms[n].is_forming_single_bonds and m._atoms[n].charge > src._atoms[n].charge and valence_valid(src) for n in after['invalid']):
                key = 'valence-error:metal-rule-forms-a-metal-cation-without-valence-state'
            elif family in ('fix_resonance', 'standardize', 'canonicalize'):
                try:        # is it fix_resonance alone that discharges into an atom whose valence does not survive it?
                    x = make()
                    x.kekule()
                    x.fix_resonance()
                    if not valence_valid(x):
                        key = 'valence-error:fix_resonance-discharges-into-an-invalid-valence'
                except Exception:
                    pass
            lim.counterexample(f'valence error {name}', key, f'{code} produces a valence error on valence-valid input', inp,
                               {'invalid atoms': after['invalid'], 'result': str(m)}, 'no atom with implicit_hydrogens None', 'check_valence', replay_py=rp)
        dq, dh = after['charge'] - before['charge'], after['h'] - before['h']
        if name in PROTON_TRANSFER:
            if dq != dh:
                lim.counterexample(f'protons {name}', f'protons:{name}:{smi}', f'{code}: net charge and hydrogen count change by different amounts', inp,
                                   {'charge change': dq, 'hydrogen change': dh}, 'equal', 'sum of charges / implicit + explicit hydrogens', replay_py=rp)
        elif dq or dh:
            culprits = rule_steps(make, 'False' not in name) if family in ('standardize', 'canonicalize') else []
            obs = {'charge': after['charge'], 'hydrogens': after['h'], 'result': str(m)}
            exp = {'charge': before['charge'], 'hydrogens': before['h']}
            if not culprits and family in ('fix_resonance', 'standardize', 'canonicalize'):
                try:        # is it fix_resonance alone (discharge into a saturated onium cation that carries hydrogens)?
                    x = make()
                    x.kekule()
                    o0 = observe(x)
                    x.fix_resonance()
                    o1 = observe(x)
                    # the recorded mechanism: net charge kept, hydrogens of a saturated onium exit dropped; a changed NET CHARGE is never this class
                    if o0['charge'] == o1['charge'] and o1['h'] < o0['h'] and dq == 0:
                        lim.counterexample(f'charge or H {name}', 'fix_resonance-drops-hydrogens-of-an-onium-exit', f'{code}: fix_resonance changes net charge or hydrogen count of a '
                                           'valence-valid molecule', inp, obs, exp, 'sum of charges / implicit + explicit hydrogens', replay_py=rp)
                        culprits = None
                except Exception:
                    pass
            if culprits is None:
                pass
            elif culprits:
                for pat, q, h in culprits:
                    lim.counterexample(f'charge or H {name}', f'rule-changes-composition:{pat}',
                                       f'{code}: the rule {pat} changes net charge by {q} and hydrogen count by {h} on a valence-valid molecule',
                                       inp, obs, exp, 'sum of charges / implicit + explicit hydrogens before and after the rule', replay_py=rp)
            else:
                lim.counterexample(f'charge or H {name}', f'composition:{name}:{smi}', f'{code} changes net charge or hydrogen count of a valence-valid molecule', inp,
                                   obs, exp, 'sum of charges / implicit + explicit hydrogens', replay_py=rp)
    stale = stale_views(m)
    if stale:
        skey = f'stale-view:{name}:{stale[0][0]}:{smi}'
        if stale[0][0] == 'hybridization' and family in ('fix_resonance', 'standardize', 'canonicalize') and fix_resonance_leaves_stale_labels(make):
            skey = STALE_LABELS
        lim.counterexample(f'stale view {name}', skey, f'{code} leaves a cached view that a rebuilt copy of the result computes differently',
                           inp, [r for _, r in stale], 'every cached view equals the recomputed one', 'cached views of the object vs of its copy()', replay_py=rp)
    first = m.copy()
    # idempotence: a second application changes nothing (molecules compared; the return value is not a change indicator)
    try:
        log2 = LOGGED.get(name, op)(m)
    except Exception as e:
        if valid:
            lim.counterexample(f'second application raises {name}', f'raises2:{name}:{type(e).__name__}:{smi}', f'second {code} raises {type(e).__name__}', inp,
                               f'{type(e).__name__}: {e}', 'no exception', 'idempotence', replay_py=rp)
        return None
    if valid or valence_valid(first):
        same = state(m) == state(first) or isomorphic(first, m)
        if same is None:
            ck.count('search:isomorphism undecided (budget)')
        elif not same:
            key = f'idempotent:{name}:{smi}'
            if name in LOGGED or family == 'fix_resonance':
                # is it fix_resonance (the first step of standardize) that does not accept standardize's / its own output?
                g = first.copy()
                try:
                    g.kekule()
                    h = g.copy()
                    g.fix_resonance()
                    if state(g) != state(h) and not isomorphic(g, h):
                        key = 'not-idempotent:fix_resonance-changes-the-output-of-standardize'
                    elif state(g) != state(h) and any(k == 'hybridization' for k, _ in stale_views(g)) and not any(k == 'hybridization' for k, _ in stale_views(h)):
                        key = STALE_LABELS      # fix_resonance moves the charge to a symmetry-equivalent atom and thiele() then reads the stale labels
                    else:
                        # the same test on the result as it is (aromatic form kept): the oscillation may need the aromatic spelling of the rest
                        g2 = first.copy()
                        g2.fix_resonance()
                        if state(g2) != state(first) and isomorphic(g2, first) is False:
                            key = 'not-idempotent:fix_resonance-changes-the-output-of-standardize'
                except Exception:
                    pass
            elif name.startswith('neutralize('):
                key = f'not-idempotent:{name}'
            lim.counterexample(f'idempotence {name}', key, f'{code} is not idempotent: the second application changes the molecule', inp,
                               str(m), str(first), 'labelled-graph isomorphism of the results of the first and the second application', replay_py=rp)
        elif state(m) != state(first):
            ck.count(f'search:{name}: second application moves to a symmetry-equivalent spelling')
    elif valence_valid(m) and isomorphic(first, m) is False:
        # the input was not valence-valid and the first application left a valence error that the SECOND application repairs: the first stopped half way
        lim.counterexample(f'idempotence {name}', f'idempotent-2:{name}:{smi}', f'{code} repairs the molecule only in two calls: the second application changes the '
                           'result of the first and only then every valence is valid', inp, str(m), str(first),
                           'labelled-graph isomorphism of the results of the first and the second application', replay_py=rp)
    # two paths to one answer: the Kekule form canonicalize(keep_kekule=True) returns, re-aromatised, is what canonicalize() returns
    if 'keep_kekule' in name and valid:
        try:
            a = first.copy()
            a.thiele(fix_tautomers=False)
            bref = make()
            bref.canonicalize(fix_tautomers='False' not in name)
            bref.kekule()      # both sides through the same kekule -> thiele normalisation (canonicalize() may leave a ring half aromatised: C05)
            bref.thiele(fix_tautomers=False)
            same = state(a) == state(bref) or isomorphic(a, bref)
            key = f'keep-kekule:{name}:{smi}'
            if same is False:
                # the recorded oscillation: fix_resonance moves the charge of this cation on every call, so the two paths stop at different calls
                x = make()
                x.kekule()
                x.fix_resonance()
                y = x.copy()
                y.fix_resonance()
                if state(x) != state(y) and isomorphic(x, y) is False:
                    key = 'not-idempotent:fix_resonance-changes-the-output-of-standardize'
            if same is False:
                lim.counterexample(f'keep_kekule {name}', key, f'{code}: the returned Kekule form is not a Kekule form of what canonicalize() '
                                   'returns', inp, str(first), str(bref), 'thiele() of the keep_kekule result vs canonicalize() without keep_kekule', replay_py=rp)
        except Exception:
            ck.count('search:keep_kekule cross-check not evaluated')
    # history independence: an object whose cached views were read before (str, hash, atoms_order, rings, components) behaves like a fresh
    # one: same result of the first and of the second application
    w = make()
    if ck.tier == 'quick' and name not in ('standardize_charges', 'canonicalize', 'standardize', 'neutralize', 'fix_resonance') and not smi_is_azolium(smi):
        w = None      # quick: the cached-object variant for the operations that read cached views; --thorough: every operation
    try:
        if w is None:
            raise ValueError
        str(w), hash(w), w.atoms_order, w.sssr, w.connected_components, w.aromatic_rings
        format(w, 'r')
    except Exception:
        w = None
    if w is not None:
        try:
            op(w)
            warm1 = w.copy()
            op(w)
            err = None
        except Exception as e:
            err = f'{type(e).__name__}: {e}'
        rpw = (f'from chython import smiles\n{build}\nf = m.copy(); str(m), hash(m), m.atoms_order   # m has its views cached, f is fresh\n'
               f'{code}; {code.replace("m.", "f.")}\nprint(str(m)); print(str(f))\n{code}; {code.replace("m.", "f.")}\nprint(str(m)); print(str(f))')
        if err is not None:
            if valid:
                lim.counterexample(f'history {name}', f'history-raises:{name}:{smi}', f'{code} raises on an object whose cached views were read before, not on a fresh one',
                                   inp, err, str(first), 'same operation on a fresh and on a previously rendered / hashed object', replay_py=rpw)
        elif valid or valence_valid(first):
            same = state(warm1) == state(first) or isomorphic(first, warm1)
            same2 = state(w) == state(m) or isomorphic(m, w)
            if same is False or same2 is False:
                lim.counterexample(f'history {name}', f'history:{name}:{smi}', f'{code} depends on the history of the object: after str()/hash()/atoms_order were read '
                                   'the result of the first or of the second application differs from that on a freshly built object', inp,
                                   {'first': str(warm1), 'second': str(w)}, {'first': str(first), 'second': str(m)},
                                   'labelled-graph isomorphism of op(fresh object) and op(object with cached views), first and second application', replay_py=rpw)
            ck.count('search:history (cached views read first) checked')
    # numbering independence
    if renumber and valid and (family not in TAUTOMERIC or 'False' in name or fixed_corpus):
        src = make()
        nums = list(src._atoms)
        perm = nums[:]
        random.Random(f'{ck.seed}:{smi}:{name}').shuffle(perm)
        sigma = dict(zip(nums, perm))
        r = src.copy()
        r.remap(sigma)
        try:
            op(r)
        except Exception as e:
            r = None
            err = f'{type(e).__name__}: {e}'
        ok = r is not None
        if ok:
            back = first.copy()
            try:
                back.remap(sigma)
                exact = state(back) == state(r)
            except Exception:
                exact = False
            ck.count('search:renumbering ' + ('commutes exactly' if exact else 'commutes up to isomorphism (checked)'))
            ok = exact or isomorphic(first, r)
            if ok and stereo_count(first) != stereo_count(r):
                ok = False
        if ok is None:
            ck.count('search:isomorphism undecided (budget)')
        elif not ok:
            key = f'renumber:{name}:{smi}'
            if name == 'neutralize':
                # unbalanced donors / acceptors: neutralize() takes the first of several possible forms (itertools.combinations over a set)
                try:
                    if len(list(make()._neutralize(True))) > 1:
                        key = 'numbering-dependent:neutralize-takes-the-first-of-several-forms'
                except Exception:
                    pass
            if family in ('fix_resonance', 'standardize', 'canonicalize'):
                # is it the choice fix_resonance makes (set.pop()) among several anions that can discharge into one cation?
                try:
                    x, y = make(), make()
                    y.remap(sigma)
                    x.kekule(), y.kekule()
                    x.fix_resonance(), y.fix_resonance()
                    if isomorphic(x, y) is False:
                        key = 'numbering-dependent:fix_resonance'
                except Exception:
                    pass
            lim.counterexample(f'numbering {name}', key, f'{code}: renumbering the input changes the result', inp,
                               str(r) if r is not None else err, str(first), 'labelled-graph isomorphism of op(m) and op(renumbered m), number of stereo labels',
                               replay_py=f'import random\nfrom chython import smiles\n{build}\nnums = list(m._atoms); perm = nums[:]; '
                                         f'random.Random({f"{ck.seed}:{smi}:{name}"!r}).shuffle(perm)\n'
                                         f'r = m.copy(); r.remap(dict(zip(nums, perm)))\n{code}; {code.replace("m.", "r.")}\nprint(str(m)); print(str(r))')
    return m


def search(ck, rng):
    from chython import smiles
    lim = Limited(ck)
    quick = ck.tier == 'quick'
    lip = corpus.lipo()
    # (1) documented pairs of the rule tables' tests
    for raw, want in test_groups_data():
        try:
            m = smiles(raw)
            m.standardize()
            w = smiles(want)
        except Exception as e:
            lim.counterexample('documented pair raises', f'doc-raises:{raw}', 'standardize() of a documented spelling raises', {'smiles': raw}, f'{type(e).__name__}: {e}', want,
                               'test_groups.py', replay_py=f'from chython import smiles\nm = smiles({raw!r}); m.standardize(); print(m)')
            continue
        ck.case(('doc', raw), nontrivial=raw != want)
        ck.count('search:documented pairs')
        if m != w or str(m) != str(w):
            lim.counterexample('documented pair', f'doc:{raw}', 'a documented functional-group spelling is not converted to its documented canonical spelling',
                               {'smiles': raw}, str(m), str(w), 'chython/algorithms/standardize/test/test_groups.py',
                               replay_py=f'from chython import smiles\nm = smiles({raw!r}); m.standardize(); print(m, smiles({want!r}))')
    # (2) all operations on valence-valid corpus / decorated / hand-made molecules
    pool = []
    for s in corpus.sample(lip, 20 if quick else 250, ck.seed, 'c14-search'):
        pool.append(('corpus', s, None))
    for k, s in enumerate(corpus.sample(lip, 20 if quick else 250, ck.seed, 'c14-search-dec')):
        pool.append(('decorated', s, k))
    for tag, s in mol_inputs(ck, rng):
        pool.append((tag, s, None))
    for s in RES_SMILES + H_SMILES[:20] + SALTS:
        pool.append(('hand', s, None))
    for _, want in test_groups_data()[::2 if quick else 1]:
        pool.append(('documented result', want, None))      # the documented canonical spellings must be fixed points
    for s in salt_family()[::2 if quick else 1] + ['C[NH3+].C[NH3+].[Cl-]', '[NH3+]CC[NH3+].CC([O-])=O']:
        pool.append(('salt', s, None))
    for s in GEMINAL:
        pool.append(('geminal', s, None))
    for s in PI_COMPLEXES:
        pool.append(('pi-complex', s, None))
    for s in AZOLIUM:
        pool.append(('azolium', s, 'kekule'))
        pool.append(('azolium', s, 'thiele'))
    for s in AROMATIC_RES:
        pool.append(('aromatic resonance', s, 'kekule'))
        pool.append(('aromatic resonance', s, 'thiele'))
    for t, i, v in charge_rule_family():
        if v != 'CMe' or not quick:
            pool.append(('charge rule', (t, i, v), 'kekule'))
        if v != 'NMe' or not quick:
            pool.append(('charge rule', (t, i, v), 'thiele'))
    groups = doc_groups()
    xh = set(XH_SMILES) | set(corpus.sample(lip, 6 if quick else 150, ck.seed, 'c14-search-xh')) | set(AZOLIUM[::4 if quick else 1])
    for s in XH_SMILES + corpus.sample(lip, 6 if quick else 150, ck.seed, 'c14-search-xh'):
        pool.append(('explicit history', s, None))
    for tag, s, k in pool:
        # hydrogen counts of aromatic hetero-atoms are unknown right after parsing: inputs are Kekule forms or re-aromatised ones
        thiele = bool(hash_pick(s, 'form') % 2)
        if k in ('kekule', 'thiele'):
            thiele, k = k == 'thiele', None
        if tag == 'charge rule':
            def make(s=s, thiele=thiele):
                return prepared(charge_rule_instance(*s), thiele)
            make.code = (f'import sys; sys.path.insert(0, "/verif/harness"); from checks.C14 import charge_rule_instance\n'
                         f'm = charge_rule_instance{s!r}; m.kekule()' + ('; m.thiele()' if thiele else ''))
            s = 'charge rule %s[%d] %s' % s
        elif k is None:
            def make(s=s, thiele=thiele):
                return prepared(smiles(s), thiele)
            make.code = f'm = smiles({s!r}); m.kekule()' + ('; m.thiele()' if thiele else '')
        else:
            def make(s=s, k=k, thiele=thiele):
                return prepared(decorate(s, random.Random(f'{ck.seed}:sd{k}'), groups), thiele)
            make.code = (f'import random, sys; sys.path.insert(0, "/verif/harness"); from checks.C14 import decorate, doc_groups\n'
                         f'm = decorate({s!r}, random.Random({f"{ck.seed}:sd{k}"!r}), doc_groups()); m.kekule()' + ('; m.thiele()' if thiele else ''))
        try:
            m0 = make()
        except Exception:
            ck.count(f'search:{tag}:unbuildable')
            continue
        if m0 is None:
            continue
        valid = valence_valid(m0)
        ck.count(f'search:{tag} ' + ('valence-valid' if valid else 'valence-INVALID (heavy atoms only)'))
        if s in xh and valid:
            check_explicit_history(ck, lim, s, make, make.code)
        if tag == 'explicit history':
            continue
        for name in OPS:
            if tag == 'charge rule' and name not in (('standardize_charges', 'canonicalize') if quick else
                                                     ('standardize_charges', 'canonicalize', 'canonicalize(keep_kekule=True)', 'fix_resonance')):
                continue
            if quick and tag in ('doc', 'documented result') and name not in ('standardize', 'canonicalize', 'fix_resonance', 'standardize_charges',
                                                                              'explicify_hydrogens' if tag == 'doc' else 'neutralize'):
                continue
            if tag == 'small' and name not in ('standardize', 'canonicalize', 'fix_resonance', 'explicify_hydrogens'):
                continue
            if quick and tag not in ('geminal', 'azolium', 'aromatic resonance', 'pi-complex') and 'fix_tautomers=False' in name and 'keep_kekule' not in name \
                    and hash_pick(s, name, 'ft') % 2:
                continue
            if quick and tag == 'documented result' and name not in ('standardize', 'canonicalize', 'fix_resonance'):
                continue
            if quick and tag == 'salt' and name not in ('neutralize', 'neutralize(keep_charge=False)', 'canonicalize'):
                continue
            if 'keep_kekule' in name and (tag in ('doc', 'documented result') or (tag in ('corpus', 'decorated') and hash_pick(s, 'kk') % 3)):
                continue
            if quick and tag in ('corpus', 'decorated') and name in ('standardize(fix_tautomers=False)', 'neutralize(keep_charge=False)') and hash_pick(s, name) % 2:
                continue
            check_op(ck, lim, name, s, make, fixed_corpus=tag == 'corpus')
        normal_form(ck, lim, s, make)
        # explicify and implicify are mutually inverse
        if valid:
            inverse_pair(ck, lim, s, make)
    # (2b) two groups of one rule sharing the rule's any-atom (the overlap the engine accepts), generated from the tables
    from chython.algorithms.standardize import molecule as engine
    for cname, coll in (('double_rules', engine.double_rules), ('single_rules', engine.single_rules), ('metal_rules', engine.metal_rules)):
        for i, rule in enumerate(coll):
            if not rule[3]:
                continue

            def make(rule=rule):
                return geminal_instance(rule)
            make.code = (f'import sys; sys.path.insert(0, "/verif/harness"); from checks.C14 import geminal_instance\n'
                         f'from chython.algorithms.standardize import molecule as engine\nm = geminal_instance(engine.{cname}[{i}])')
            try:
                if make() is None:
                    continue
            except Exception:
                ck.count('search:geminal instance unbuildable')
                continue
            label = f'geminal {cname}[{i}] {rule[0]}'
            ck.count('search:geminal instances of rules with any-atoms')
            for name in ('standardize', 'standardize(fix_tautomers=False)', 'canonicalize'):
                check_op(ck, lim, name, label, make)
            normal_form(ck, lim, label, make)
    # (3) tautomer enumeration
    tpool = [('corpus', s) for s in corpus.sample(lip, 40 if quick else 300, ck.seed, 'c14-taut')] + [('hand', s) for s in TAUT_SMILES] + [('salt', s) for s in salt_family()[::2]]
    fam = aza_family(3)
    fam = [x for x in fam if not quick or hash_pick(x[0], 'aza') % 6 == 0]
    tpool += [('aza', s) for _, s in fam[::1 if not quick else 2]] + [('ene-dione', s) for s in ene_dione_family()[::1 if not quick else 2]]
    for tag, s in tpool:
        check_tautomers(ck, lim, s, tag)
    for label, s in fam:
        check_tautomer_steps(ck, lim, label, s)
    for s in ene_dione_family() + TAUT_SMILES:
        check_tautomer_steps(ck, lim, s, s)
    ck.extra['search_failures'] = dict(lim.seen)


def prepared(m, thiele):
    if m is not None:
        m.kekule()
        if thiele:
            m.thiele()
    return m


PING_PONG = {'[N;z2]=[C;D2,D3;z2]-[O,S;D1]', '[O;D1;x0;z1]-[C;D3;z2;x2](-[O,N])=C'}      # C14_table_rhs_matches_no_lhs: the exact exception list


def normal_form(ck, lim, smi, make):
    """standardize() leaves nothing for its own rules to do: afterwards no left-hand side of the tables matches (real matcher), except the two
    tautomer left-hand sides that ping-pong inside one pass and a metal atom that refused a fifth charge (`bad charge formed`)"""
    from chython.algorithms.standardize import molecule as engine
    m = make()
    build = getattr(make, 'code', f'm = smiles({smi!r})')
    try:
        log = m.standardize(logging=True)
    except Exception:
        return
    if any(text.startswith('bad charge formed') for _, _, text in log):
        return
    ck.case(('normal form', smi, build), nontrivial=bool(log))
    for coll in (engine.double_rules, engine.single_rules, engine.metal_rules):
        for rule in coll:
            pat = str(rule[0])
            if pat in PING_PONG:
                continue
            mp = next(rule[0].get_mapping(m, automorphism_filter=False), None)
            if mp is not None:
                lim.counterexample('normal form', f'normal-form:{pat}:{smi}', f'standardize() leaves a group unconverted: its own rule {pat} still matches the result',
                                   {'smiles': smi, 'built_by': build}, {'result': str(m), 'still matched atoms': sorted(mp.values())},
                                   'no left-hand side of the rule tables matches the result', 'the real matcher on the result of standardize()',
                                   replay_py=f'from chython import smiles\n{build}\nprint(m.standardize(logging=True)); print(m); print(m.standardize(logging=True)); print(m)')
                return


def hash_pick(*xs):
    import hashlib
    return int.from_bytes(hashlib.blake2b(repr(xs).encode(), digest_size=4).digest(), 'big')


SALTS = ['[NH4+].[Cl-]', 'CC(=O)[O-].[Na+]', '[Na+].[O-]c1ccccc1', 'C[NH3+].[O-]C(C)=O', 'C[NH3+].[Cl-]', 'CC(=O)[O-].C[NH3+].[Na+].[Cl-]', '[O-]C(=O)CC[NH3+]',
         'C[NH2+]C.[O-]S(=O)(=O)C', 'OC(=O)CC(=O)[O-].[K+]', 'c1cc[nH+]cc1.[Br-]', 'CC(=O)O.CN', 'C[N+](C)(C)C.[OH-]', '[O-]C(=O)C[N+](C)(C)C', 'NC(N)=[NH2+].[O-]C=O',
         'CS(=O)(=O)[O-].C[NH+](C)C', '[O-]c1ccccc1.[NH4+]', 'C[O-].[Li+]', 'CC[NH+](CC)CC.[O-]C(=O)C(F)(F)F']
# azolium cations matched by the (pattern, fix) tables of standardize_charges; the two ring nitrogens are mostly NOT symmetry equivalent, so
# the Morgan tie-break of morgan_rules decides; both charge spellings of each
AZOLIUM = ['Cc1cc[nH][nH+]1', 'Cc1cc[nH+][nH]1', 'Cc1c[nH]c[nH+]1', 'Cc1c[nH+]c[nH]1', 'CCn1cc[n+](C)c1', 'Cn1cc[n+](CC)c1', 'c1cc[nH][nH+]1', 'Cc1ccn(C)[n+]1C',
           'Cc1ccc2[nH]c[nH+]c2c1', 'Cc1ccc2[nH+]c[nH]c2c1', 'Cc1cc[nH+]n1C', 'Cc1ccn(C)[nH+]1', 'Cc1c[nH+]cn1C', 'Cc1cn(C)c[nH+]1', 'C[n+]1ccn(c1)c1ccccc1',
           'Fc1cc[nH][nH+]1', 'Fc1cc[nH+][nH]1', 'Cc1cc(CC)[nH][nH+]1', 'Cc1cc(CC)[nH+][nH]1', 'OC(=O)c1cc[nH][nH+]1.[Cl-]', 'Cc1[nH]nc[nH+]1', 'Cc1csc[nH+]1',
           'C[N+]1=CC=CN1', 'C[N+]1=C(CC)NC=C1', 'C[n+]1ccc[nH]1', 'CCc1[nH]cc[n+]1C', 'Cc1cc[nH][nH+]1.Cc1c[nH+]c[nH]1', '[Fe+2].c1cc[cH-]c1.C[c-]1cccc1']
# metal pi-complexes spelled with coordinate bonds and a carbon radical (the left-hand sides of two metal rules), metals with and without a +1 state
PI_COMPLEXES = ['[Fe]~1~2~3~4~[CH]5C~1=C~2C~3=C~45 |^1:1|', '[Cu]~1~2~3~4~[CH]5C~1=C~2C~3=C~45 |^1:1|', '[Ti]~1~2~3~4~[CH]5C~1=C~2C~3=C~45 |^1:1|',
                '[Fe]~1~2~C=C~1[CH2]~2 |^1:3|', '[Cu]~1~2~C=C~1[CH2]~2 |^1:3|', '[Ni]~1~2~C=C~1[CH2]~2 |^1:3|']
# charge-separated arenes: fix_resonance on the aromatic form rewrites aromatic bonds (recorded finding); both forms are run
AROMATIC_RES = ['[O-]c1ccccc1[CH2+]', 'CNc1ccccc1[CH2+]', '[O-]c1ccccc1[N+]#N', 'Nc1ccccc1C=[NH2+]', '[O-]c1ccc(cc1)[CH2+]', 'CNc1ccccc1N=[NH2+]']
TAUT_SMILES = ['CC(=O)CC(C)=O', 'OC1=NC=CC=C1', 'O=C1NC=CC=C1', 'CC(=O)C', 'C1C=CC=N1', 'NC(N)=N.Cl', 'N1C=CN=N1.Cl', 'CC(O)=CC', 'C[C@H](F)C=O', 'C/C=C/C(C)=O',
               'CC(=O)C[C@H](C)F', 'C[C@H](N)C(=O)O', 'O=C1CCCCC1', 'OC=CC=O', 'Oc1ccccc1', 'Oc1ccc(O)cc1', 'CC(=O)Nc1ccccc1', 'c1cc[nH]n1', 'c1nc[nH]n1', 'N=C(N)c1ccccc1',
               'C[NH3+].[Cl-]', 'OC(=O)CN', 'OCC(O)C=O', 'O=CC(O)C(O)CO', 'CC(=N)C', 'CC(=O)CC#N', 'O=C1C=CC(=O)C=C1', 'Cc1cc(=O)[nH]c(=O)[nH]1', 'Oc1ncnc2[nH]cnc12']


def doc_groups():
    """documented non-canonical spellings that can be attached through a leading neutral carbon"""
    from chython import smiles
    out = ['C' + d for d in DECORATIONS]
    for raw, _ in test_groups_data():
        if raw.startswith('C') and not raw.startswith('Cl') and len(raw) > 1 and raw[1] not in '12=#-[:':
            out.append(raw)
    good = []
    for s in out:
        try:
            m = smiles(s)
            a = m._atoms[min(m._atoms)]
            if a.atomic_number == 6 and not a.charge and not a.is_radical:
                good.append(s)
        except Exception:
            pass
    return good


def inverse_pair(ck, lim, smi, make):
    m = make()
    build = getattr(make, 'code', f'm = smiles({smi!r})')
    if any(a.atomic_number == 1 for _, a in m.atoms()):
        return
    try:
        m.kekule()
        s0, st0 = str(m), state(m)
        n0 = len(m)
        added = m.explicify_hydrogens()
        s1 = str(m)
        removed = m.implicify_hydrogens()
    except Exception as e:
        ck.count('search:inverse pair raises (reported by the per-operation oracle)')
        return
    ck.case(('inverse', smi, build), nontrivial=added > 0)
    rp = f'from chython import smiles\n{build}\nm.kekule(); print(m); print(m.explicify_hydrogens(), m); print(m.implicify_hydrogens(), m)'
    if added != removed or len(m) != n0 or str(m) != s0 or state(m)[0] != st0[0] or state(m)[1] != st0[1]:
        lim.counterexample('explicify-implicify', f'inverse:{smi}', 'implicify_hydrogens does not undo explicify_hydrogens', {'smiles': smi, 'built_by': build},
                           {'added': added, 'removed': removed, 'result': str(m)}, s0, 'atom-by-atom state before explicify and after implicify', replay_py=rp)
        return
    try:
        m.explicify_hydrogens()
    except Exception:
        return
    if str(m) != s1:
        lim.counterexample('implicify-explicify', f'inverse2:{smi}', 'explicify_hydrogens does not undo implicify_hydrogens', {'smiles': smi, 'built_by': build},
                           str(m), s1, 'canonical string of the explicit form', replay_py=rp)


# ---- tautomer generators: generated families and the one-step oracles ----
AZA_SCAFFOLDS = ['c1ccc2[nH]ccc2c1', 'c1ccn2cccc2c1', 'c1cc2cc3[nH]ccc3cc2[nH]1', 'c1ccc2c(c1)[nH]c1cccn12', 'c1cc[nH]c1', 'c1cc2[nH]ccc2[nH]1', 'c1ccc2c(c1)[nH]c1ccccc12',
                 'c1cc2ccc3[nH]ccc3c2[nH]1']


def aza_family(max_n):
    """fused hetero-arenes: every way to replace up to max_n CH groups of a scaffold (indole, indolizine, benzodipyrrole, the bridgehead-nitrogen
    pyrrolo-benzimidazole, pyrrole, pyrrolopyrrole, carbazole, a three-ring dipyrrole) by pyridine-like nitrogens; those chython can kekulise.
    One or two NH donors, zero to three acceptors, bridgehead nitrogens: the hetero-arene tautomer generator tries every donor / acceptor pair"""
    import itertools
    from chython import smiles, MoleculeContainer
    from chython.periodictable import Element
    out = []
    for scaffold in AZA_SCAFFOLDS:
        base = smiles(scaffold)
        ch = [n for n, a in base.atoms() if a.atomic_number == 6 and (a.implicit_hydrogens or 0) == 1]
        for k in range(max_n + 1):
            for sub in itertools.combinations(ch, k):
                m = MoleculeContainer()
                for n, a in base.atoms():
                    m.add_atom(Element.from_atomic_number(7 if n in sub else a.atomic_number)(), n)
                for n, j, bd in base.bonds():
                    m.add_bond(n, j, int(bd))
                for n, a in base.atoms():
                    if a.atomic_number == 7:
                        m._atoms[n]._implicit_hydrogens = a.implicit_hydrogens
                    elif n in sub:
                        m._atoms[n]._implicit_hydrogens = 0
                try:
                    m.kekule()
                    if any(a.implicit_hydrogens is None for _, a in m.atoms()):
                        continue
                    m.thiele()
                except Exception:
                    continue
                out.append((f'aza {scaffold} {list(sub)}', str(m)))
    return out


def ene_dione_family():
    """cross-conjugated and linear ene-diones / quinoid systems: para- and ortho-quinoid six rings, five rings and open chains with every pair of
    exocyclic =O / =N / =S / =C ends, plain and substituted: the paths of the keto-enol search dead-end on hydrogen-free sp2 atoms and fork there"""
    ends = ['O', 'N', 'S', 'C']
    out = []
    for x in ends:
        for y in ends:
            if x == y == 'C':
                continue
            out += [f'{x}=C1C=CC(={y})C=C1', f'{x}=C1C(={y})C=CC=C1', f'{x}=C1C=CC(={y})C1', f'CC(={x})C=CC(C)={y}', f'{x}=C1C=CC(={y})C(C)=C1', f'{x}=C1C=CC(={y})C(Cl)=C1']
    out += ['O=C1C=CC(=O)c2ccccc12', 'O=C1C=CC(=O)N1', 'O=C1C=CC(=O)O1', 'O=C1C=CC(=O)C=CC1', 'O=C1C(C)=CC(=O)C=C1C', 'CC(C)(C)C1=CC(=O)C=C(C1=O)C(C)(C)C', 'COC1=CC(=O)C=CC1=O',
            'O=C1C=CC(=O)C(O)=C1', 'O=C1C=C(N)C(=O)C=C1', 'O=C(C=C)C=CC(=O)C=C', 'O=CC=CC=O', 'O=C1CCC(=O)C=C1']
    return sorted(set(out))


def check_tautomer_steps(ck, lim, label, smi):
    """the one-step generators behind enumerate_tautomers, as SETS: what _enumerate_hetero_arene_tautomers / _enumerate_keto_enol_tautomers yield for a
    molecule does not depend on the atom numbering (every donor / acceptor pair, every path is judged on its own, whatever was tried before it)"""
    from chython import smiles
    try:
        m = smiles(smi)
        m.kekule()
        m.thiele()
    except Exception:
        return
    if not valence_valid(m):
        return
    gens = {'_enumerate_hetero_arene_tautomers': lambda x: [t for t in x._enumerate_hetero_arene_tautomers()],
            '_enumerate_keto_enol_tautomers': lambda x: [t for t, _ in x._enumerate_keto_enol_tautomers(False)]}
    nums = list(m._atoms)
    for gname, gen in gens.items():
        try:
            base = sorted(str(t) for t in gen(m.copy()))
        except Exception:
            ck.count(f'search:{gname} raises (reported by the enumeration oracle)')
            continue
        ck.case(('tautomer step', gname, label), nontrivial=bool(base))
        ck.count(f'search:{gname} yields={min(len(base), 3)}')
        for r in range(3):
            perm = nums[:]
            random.Random(f'{ck.seed}:{r}:{label}').shuffle(perm)
            x = m.copy()
            x.remap(dict(zip(nums, perm)))
            try:
                other = sorted(str(t) for t in gen(x))
            except Exception as e:
                other = [f'{type(e).__name__}: {e}']
            if other != base:
                lim.counterexample('tautomer step numbering', f'taut-step-numbering:{gname}:{smi}', f'{gname}: the set of one-step tautomers depends on the atom numbering',
                                   {'smiles': smi, 'renumbering': dict(zip(nums, perm))}, other, base, 'canonical strings of the yielded structures, original vs renumbered molecule',
                                   replay_py=f'from chython import smiles\nm = smiles({smi!r}); m.kekule(); m.thiele()\nx = m.copy(); x.remap({dict(zip(nums, perm))!r})\n'
                                             f'print(sorted(str(t[0] if isinstance(t, tuple) else t) for t in m.{gname}({"False" if "keto" in gname else ""})))\n'
                                             f'print(sorted(str(t[0] if isinstance(t, tuple) else t) for t in x.{gname}({"False" if "keto" in gname else ""})))')
                break


def check_tautomers(ck, lim, smi, tag):
    from chython import smiles
    m = smiles(smi)
    before = observe(m)
    if before['invalid']:
        return
    rp = f'from chython import smiles\nm = smiles({smi!r})\nfor t in m.enumerate_tautomers(limit=40): print(t)'
    try:
        ts = list(m.enumerate_tautomers(limit=40))
    except Exception as e:
        stale = isinstance(e, KeyError) and stereo_count(m) > 0
        if stale:       # the same molecule without its stereo labels enumerates without error
            c = smiles(smi)
            c.clean_stereo()
            try:
                list(c.enumerate_tautomers(limit=40))
            except Exception:
                stale = False
        if stale:
            ck.count('search:enumerate_tautomers raises KeyError on a stale stereo label')
            ck.counterexample('enumerate_tautomers:stale-stereo-label', 'enumerate_tautomers raises KeyError: a keto-enol tautomer keeps the stereo label of an atom / bond '
                              'that is no longer stereogenic', {'smiles': smi}, f'{type(e).__name__}: {e}', 'no exception', 'never fail on valence-valid input', replay_py=rp)
        else:
            lim.counterexample('enumerate_tautomers raises', f'taut-raises:{type(e).__name__}:{smi}', f'enumerate_tautomers raises {type(e).__name__}', {'smiles': smi},
                               f'{type(e).__name__}: {e}', 'no exception', 'never fail on valence-valid input', replay_py=rp)
        return
    ck.case(('tautomers', smi), nontrivial=len(ts) > 1)
    ck.count(f'search:tautomers per molecule={min(len(ts), 5)}')
    seen = {}
    for t in ts:
        o = observe(t)
        s = str(t)
        # every stored hydrogen count is a count (the sum hides a -1 next to a +1)
        neg = [(n, a.implicit_hydrogens) for n, a in t.atoms() if a.implicit_hydrogens is None or a.implicit_hydrogens < 0]
        if neg:
            lim.counterexample('tautomer hydrogens', f'taut-hydrogens:{smi}', 'a tautomer carries an impossible hydrogen count on an atom', {'smiles': smi},
                               {'tautomer': s, 'atoms with impossible count': neg}, 'every count >= 0', 'stored implicit hydrogens of the yielded structure', replay_py=rp)
            break
        # the structure rebuilt from its own SMILES: Kekule form exists, no valence error (the stored counts may hide a five-valent carbon)
        try:
            rb = smiles(s)
            try:
                rb.kekule()
                bad = rb.check_valence()
                why = f'valence error on atoms {bad} of the re-read structure' if bad else None
                key = 'enumerate_tautomers:keto-enol-tautomer-with-a-valence-error'
            except Exception as e:
                why, key = f'{type(e).__name__}: the re-read structure has no Kekule form', 'enumerate_tautomers:hetero-arene-tautomer-without-kekule-form'
        except Exception as e:
            why, key = f'{type(e).__name__}: the written SMILES cannot be read back', f'taut-unreadable:{smi}'
        if why:
            lim.counterexample('tautomer validity', key, 'enumerate_tautomers yields a structure that is not a valid molecule', {'smiles': smi}, {'tautomer': s, 'problem': why},
                               'a valence-valid, kekulisable structure', 'the yielded structure written as SMILES and rebuilt from scratch', replay_py=rp)
            break
        if o['heavy'] != before['heavy'] or o['charge'] != before['charge'] or o['h'] != before['h'] or o['invalid']:
            lim.counterexample('tautomer composition', f'taut-composition:{smi}', 'a tautomer differs from the input in heavy atoms / net charge / hydrogen count or has a valence error',
                               {'smiles': smi}, {'tautomer': s, 'charge': o['charge'], 'hydrogens': o['h'], 'invalid': o['invalid']},
                               {'charge': before['charge'], 'hydrogens': before['h']}, 'composition read off the atoms', replay_py=rp)
            break
        if s in seen:
            lim.counterexample('tautomer duplicate', f'taut-duplicate:{smi}', 'enumerate_tautomers yields the same structure twice', {'smiles': smi}, s, 'distinct structures',
                               'canonical strings', replay_py=rp)
            break
        seen[s] = True


# ---------------------------------------------------------------------------------------------


def directed_search(ck, rng, metas):
    """a correspondence disagreement is not a violation by itself: look for a concrete failing input of the REAL code on and
    around the disagreeing inputs (property-level oracles only)"""
    from chython import smiles
    lim = Limited(ck)
    tried = 0
    for mt in metas[:40]:
        s = mt.get('mol')
        if not s or mt.get('tag') == 'decorated':
            continue
        for thiele in (False, True):
            def make(s=s, thiele=thiele):
                return prepared(smiles(s), thiele)
            make.code = f'm = smiles({s!r}); m.kekule()' + ('; m.thiele()' if thiele else '')
            try:
                if make() is None:
                    continue
            except Exception:
                continue
            for name in OPS:
                try:
                    check_op(ck, lim, name, s, make)
                    tried += 1
                except Exception:
                    pass
            try:
                if valence_valid(make()):
                    inverse_pair(ck, lim, s, make)
            except Exception:
                pass
    # a broken table obligation shows on metal-organic spellings (valence-invalid at the metal atom only, which is what the
    # metal rules are written for): the net charge must survive standardize() also when the `bad charge formed` branch fires
    for s in ['[Ti+4]C#N', '[Ti+3](C#N)C#N', '[Ti](C#N)(C#N)(C#N)(C#N)(C#N)C#N', '[Fe+4]C#N', '[Ti+4](C#N)C#N', '[Hf+4]OC#N', '[Ti+4]N=C=O', '[Zr+4]SC#N',
              '[Ti+4]C#[O+]', '[Ti+4][N+]#[C-]', '[Ti+4]C', '[Ti+4]c1ccccc1', '[Ti+4]OC(C)=O', '[Ti+4]N(C)C', '[Ti+4]Cl', '[Ti+4]O', '[Ti+3](Cl)Cl', '[Ti+4]=C1N(C)C=CN1C']:
        try:
            m = smiles(s)
            q0 = sum(a.charge for _, a in m.atoms())
            heavy0 = observe(m)['heavy']
            m.standardize()
        except Exception:
            continue
        tried += 1
        q1 = sum(a.charge for _, a in m.atoms())
        if q1 != q0 or observe(m)['heavy'] != heavy0:
            lim.counterexample('net charge metal-organic', f'net-charge:metal-organic:{s}',
                               'standardize() changes the net charge of a metal-organic spelling (valence-invalid at the metal atom only: the inputs the metal rules are '
                               'written for); a half-applied patch after `bad charge formed`', {'smiles': s}, {'charge': q1, 'result': str(m)}, {'charge': q0},
                               'sum of charges', replay_py=f'from chython import smiles\nm = smiles({s!r}); print(sum(a.charge for _, a in m.atoms())); m.standardize(); '
                                                           f'print(m, sum(a.charge for _, a in m.atoms()))')
    ck.extra['directed_search_cases'] = tried


def run(ck):
    import time
    ck.trusted += ['translator tools/gen_stdrules.py (imports chython under the shim and dumps the live rule objects; source audit of the engine statements by Python ast)',
                   'translator tools/gen_elements.py (element tables used by centre_invalid)',
                   'translator tools/gen_c14consts.py (Python ast: constants and statement shapes of molecule.py / resonance.py / acid_base.py / query.py)',
                   'translator tools/gen_c14charges.py (Python ast: the three loop bodies of standardize_charges, statement by statement; the primitives they are '
                   'translated to are coq/model/StandardizeChargesBase.v)',
                   'correspondence runner harness/checks/C14.py + harness/coqcases.py + harness/coqmol.py (instrumented QueryContainer.get_mapping / '
                   'Resonance.__find_delocalize_path)', 'Model.Valence (C04 model of calc_implicit / valence_rules) inside the correspondence glue coq/model/StandardizeTie.v',
                   'CachedMethods shim harness/boot.py', 'CPython 3.12.1', 'the labelled-graph isomorphism test of harness/checks/C14.py (search only)']
    ck.assumptions += ['PARTIAL by design: theorems cover the rule tables and the rule engine (atoms, elements, isotopes, adjacency, net charge); idempotence, numbering '
                       'independence, neutralisation, tautomers, hydrogen counts are search only',
                       'the substructure matcher is an INPUT of the model (what get_mapping yields); the theorems assume match_ok (distinct atoms, element / charge of every '
                       'pattern atom, adjacency of pattern bonds), which the correspondence tests on every recorded mapping',
                       'the Python fallback matcher is lazy (reads live atoms while the engine patches); the model takes the list of yielded mappings as given',
                       'calc_implicit and valence_rules enter the model as Section variables; the correspondence instantiates them with the C04 model',
                       'standardize_charges: what get_mapping yields for the charge-rule patterns, self.sssr and self.atoms_order are INPUTS of the model (recorded per run); '
                       'the net-charge theorems assume charges_pre / ferrocene_pre (the charges are what the pattern says at the moment of every accepted match), evaluated on every recorded run',
                       'the path SEARCH of fix_resonance, thiele/kekule, which sites neutralize matches and the tautomer generators are not modelled']
    ck.extra['rule'] = ('correspondence: documented pairs of test_groups.py, hand-made functional groups / metal-organics / salts, every rule on its own minimal instantiation, '
                        'corpus molecules and corpus molecules decorated with the functional-group spellings the tables mention (half of them renumbered at random); a case '
                        'is non-trivial when at least one rule matched / a hydrogen was added or removed / a resonance path was applied. search: the same families as '
                        'Kekule or re-aromatised valence-valid molecules, all ten operations; non-trivial when the operation changed the molecule')
    rng = random.Random(ck.seed)
    laps = {}
    t0 = time.time()

    def lap(name):
        nonlocal t0
        laps[name] = round(time.time() - t0, 1)
        t0 = time.time()

    proved = common.standard_proof_steps(ck, translators=['elements', 'stdrules', 'c14consts', 'c14charges'],
                                         extra_targets=('model/StandardizeTie.vo', 'model/StandardizeMatch.vo', 'model/StandardizeNeutral.vo', 'model/StandardizeChargesTie.vo'))
    lap('proof')
    tied = True
    disagreeing = []
    if not os.path.exists(os.path.join(common.COQ, 'model', 'StandardizeTie.vo')):
        ck.oblige('correspondence glue coq/model/StandardizeTie.v builds', False, 'correspondence', 'model/StandardizeTie.vo missing')
        ck.unchecked('correspondence glue coq/model/StandardizeTie.v does not build', 'see the build log')
        tied = False
    else:
        batches = [('c14_engine', corr_engine, 'correspondence: Standardize.__standardize / standardize() == Coq model on the recorded mappings (every matched rule as a '
                    'step from the intermediate molecule, matcher specification match_ok on every mapping, whole passes, log, recalculated atoms)', 60),
                   ('c14_matcher', corr_matcher, 'correspondence: the set of mappings get_mapping yields for a rule pattern == the embeddings of the matcher '
                    'specification Model.StandardizeMatch (matched rules + sample of unmatched ones); standardize() of small molecules entirely inside Coq', 40),
                   ('c14_hydrogens', corr_hydrogens, 'correspondence: explicify_hydrogens / implicify_hydrogens == Coq model (whole molecule incl. insertion order, exceptions)', 60),
                   ('c14_neutralize', corr_neutralize, 'correspondence: neutralize(keep_charge=True / False) == Coq model of the proton moves (donor / acceptor sites '
                    'as the real patterns match them)', 60),
                   ('c14_resonance', corr_resonance, 'correspondence: fix_resonance == Coq application of the accepted paths + hydrogen recalculation', 60),
                   ('c14_charges', corr_charges, 'correspondence: standardize_charges (loops over fixed_rules / morgan_rules, pair assignment) == the loop bodies translated '
                    'from the source (Gen.C14Charges) on the recorded matcher output and canonical order: `changed`, every charge, charges at the end of the fixed loop', 80)]
        for name, fn, what, shard in batches:
            try:
                cases, meta = fn(ck, rng)
            except Exception:
                tb = traceback.format_exc()
                ck.oblige(what, False, 'correspondence', tb)
                ck.unchecked(f'correspondence runner {name} crashed', tb)
                tied = False
                continue
            ok, failing, log = run_corr(ck, name, cases, meta, what, shard=shard)
            if not ok or failing:
                tied = False
                bad = [meta[i] for i in failing[:20]]
                # which half of a failing step: the matcher specification or the patch?
                specs = [meta[i]['spec'] for i in failing[:30] if 'spec' in meta[i]]
                if specs:
                    ok2, f2, _ = coqcases.run_cases(name + '_spec', IMPORTS, specs, extra=EXTRA, shard=60)
                    ck.extra['failing_steps_where_match_ok_fails'] = len(f2) if ok2 else 'not evaluated'
                disagreeing += bad
                ck.unchecked(f'correspondence {name}: model and chython disagree', log[-1500:], [repr({k: v for k, v in m.items() if k != 'spec'}) for m in bad])
            lap(name)
    search(ck, rng)
    lap('search')
    if not proved or not tied:
        directed_search(ck, rng, disagreeing)
        lap('directed search')
    ck.extra['proved'] = proved
    ck.extra['tied'] = tied
    ck.extra['laps_s'] = laps
