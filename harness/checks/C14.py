"""C14 normalisation conserves composition, is idempotent and numbering independent (PARTIAL by design).

proof:          coq/props/C14.v: table obligations over the regenerated rule tables (Gen.StdRules) and, for ANY rule table
                satisfying them and ANY sound matcher, conservation of atoms / elements / isotopes / adjacency / net charge by
                the rule engine (Model.Standardize mirrors Standardize.__standardize and the pass sequence of standardize()).
correspondence: the real engine is run with QueryContainer.get_mapping instrumented (what the matcher yields is an INPUT of
                the model): every rule that matched is replayed in the model from the molecule as it was when the matcher was
                called (intermediate states compared), every recorded mapping is tested against the matcher specification
                the theorems assume (match_ok), whole private passes and whole standardize() runs are compared (molecule,
                log, set of recalculated atoms); explicify_hydrogens / implicify_hydrogens on generated, corpus and
                malformed molecules; the accepted paths of fix_resonance; each rule on its own minimal instantiation.
search:         on the real code, independent of the model: heavy-atom multiset / net charge / hydrogen count per operation,
                no exception and no valence error on valence-valid input, idempotence, explicify/implicify mutually
                inverse, renumbering equivariance (tautomer fixing off), the documented pairs of test_groups.py,
                tautomer enumeration (composition, no duplicates, no failure)."""
import ast
import collections
import os
import random
import traceback

import boot  # noqa
import common
import coqcases
import coqmol
import corpus
from coqfmt import zraw, b, lst, opt, tup

replay = common.generic_replay

IMPORTS = 'Graph Standardize StandardizeTie'
EXTRA = 'From Gen Require Import StdRules.'
COLL = {0: 'double_rules', 1: 'single_rules', 2: 'metal_rules'}

# ---------------------------------------------------------------------------------------------
# instrumentation of the real engine


class Recorder:
    """records, for every call `pattern.get_mapping(mol, ...)` on a pattern of the three rule collections, the molecule
    as it was at that moment and the mappings the generator yielded (lazily, exactly as the engine consumed them)"""

    def __init__(self):
        from chython.containers import QueryContainer
        from chython.algorithms.standardize import molecule as engine
        self.pid = {}
        self.colls = {0: engine.double_rules, 1: engine.single_rules, 2: engine.metal_rules}
        for c, coll in self.colls.items():
            for i, r in enumerate(coll):
                self.pid[id(r[0])] = (c, i)
        self.rec = None
        self.qc = QueryContainer
        self.orig = QueryContainer.get_mapping
        rec = self

        def wrapped(self, other, **kw):
            key = rec.pid.get(id(self))
            if rec.rec is None or key is None:
                yield from rec.orig(self, other, **kw)
                return
            if rec.dirty or rec.snap is None:
                rec.snap = coqmol.mol_term(other)
                rec.dirty = False
            c, i = key
            stage = {1: 2, 2: 3}.get(c, 1 if (0, i) in rec.seen_double else 0)
            if c == 0:
                rec.seen_double.add((0, i))
            entry = {'c': c, 'ridx': i, 'stage': stage if rec.stage is None else rec.stage, 'g0': rec.snap, 'maps': []}
            rec.rec.append(entry)
            for mp in rec.orig(self, other, **kw):
                entry['maps'].append(list(mp.items()))
                rec.dirty = True
                yield mp
        self.wrapped = wrapped

    def __enter__(self):
        self.qc.get_mapping = self.wrapped
        return self

    def __exit__(self, *a):
        self.qc.get_mapping = self.orig

    def run(self, fn, stage=None):
        self.rec, self.snap, self.dirty, self.seen_double, self.stage = [], None, True, set(), stage
        try:
            out = fn()
        finally:
            rec, self.rec = self.rec, None
        return out, rec


def maps_term(maps):
    return lst([lst([tup(zraw(p), zraw(n)) for p, n in mp]) for mp in maps])


def table_term(rec):
    return lst([f'({zraw(e["stage"])}, {zraw(e["ridx"])}, {maps_term(e["maps"])})' for e in rec if e['maps']])


def rlog_term(log):
    """the engine's log entries (tuple(match), r, text) with r >= 0"""
    out = []
    for mt, r, text in log:
        if r < 0:
            continue
        out.append(f'({lst(sorted(mt), zraw)}, {zraw(r)}, {b(text.startswith("bad charge formed"))})')
    return lst(out)


def zl(xs):
    return lst(list(xs), zraw)


# ---------------------------------------------------------------------------------------------
# molecules


def test_groups_data():
    path = os.path.join(common.REPO, 'chython/algorithms/standardize/test/test_groups.py')
    try:
        tree = ast.parse(open(path).read())
        for node in tree.body:
            if isinstance(node, ast.Assign) and getattr(node.targets[0], 'id', None) == 'data':
                return [(x, y) for x, y in ast.literal_eval(node.value)]
    except Exception:
        pass
    return []


def instantiate_rule(rule):
    """the pattern of a rule built as a real molecule: first element / first bond order of every list, the charge and
    radical state the pattern names, carbon substituents until the smallest allowed neighbour count is reached"""
    from chython import MoleculeContainer
    from chython.periodictable import Element
    from chython.periodictable.base.query import AnyMetal, AnyElement, ListElement
    q = rule[0]
    m = MoleculeContainer()
    nxt = max(q._atoms) + 1
    for n, a in q._atoms.items():
        if type(a) is AnyMetal:
            z, chg, rad = 22, 0, False
        elif type(a) is AnyElement:
            z, chg, rad = 6, a.charge, a.is_radical
        elif type(a) is ListElement:
            z, chg, rad = a.atomic_numbers[0], a.charge, a.is_radical
        else:
            z, chg, rad = a.atomic_number, a.charge, a.is_radical
        m.add_atom(Element.from_atomic_number(z)(charge=chg, is_radical=rad), n)
    for n, k, bd in q.bonds():
        m.add_bond(n, k, bd.order[0])
    for n, a in q._atoms.items():
        want = [d for d in a.neighbors if d >= len(q._bonds[n])]
        if want:
            for _ in range(min(want) - len(q._bonds[n])):
                m.add_atom(Element.from_atomic_number(6)(), nxt)
                m.add_bond(n, nxt, 1)
                nxt += 1
    return m


DECORATIONS = ['[N+](=O)[O-]', 'N(=O)=O', 'S(=O)(=O)O', 'P(=O)(O)O', 'N=[N+]=[N-]', 'N=N#N', '[N+]#N', 'C#N', '[N+]#[C-]', 'N#C',
               'S(C)(=O)=O', '[S+](C)[O-]', 'C(=O)[O-]', 'C(O)=C', 'C(=N)O', 'N=O', '[NH3+]', 'C(=O)O', 'B(O)O', '[N+](C)(C)[O-]',
               'N(C)(C)=O', 'P(C)(C)(C)=C', 'C(N)=[NH2+]', 'OS(=O)(=O)[O-]', '[P+](C)(C)(C)[O-]', 'S(=O)(=O)[S-]', 'Cl(=O)(=O)=O',
               'N(=O)[O]', 'C(=O)S', 'C=[N+]=[N-]', '[O-]', 'N(C)N=O', 'OO', 'N=C=O', 'N=C=S', 'SC#N']


def decorate(smi, rng, groups=None):
    """a corpus molecule with one of the functional-group spellings the rule tables mention attached to a hydrogen-bearing carbon"""
    from chython import smiles
    from chython.periodictable import Element
    m = smiles(smi)
    cs = [n for n, a in m.atoms() if a.atomic_number == 6 and (a.implicit_hydrogens or 0) > 0]
    if not cs:
        return None
    n = rng.choice(cs)
    dec = smiles(rng.choice(groups)) if groups else smiles('C' + rng.choice(DECORATIONS))
    first = min(dec._atoms)
    top = max(m._atoms)
    mp = {k: (n if k == first else top + k) for k in dec._atoms}
    for k, a in dec._atoms.items():
        if k != first:
            m.add_atom(Element.from_atomic_number(a.atomic_number)(charge=a.charge, is_radical=a.is_radical), mp[k])
    for k, j, bd in dec.bonds():
        m.add_bond(mp[k], mp[j], int(bd))
    return m


def mol_inputs(ck, rng):
    """(tag, molecule factory) list: documented pairs, rule instantiations, metal-organics, decorated corpus, corpus, malformed"""
    from chython import smiles
    out = []
    for raw, _ in test_groups_data():
        out.append(('doc', raw))
    extra = ['[Ti+4](C#N)(C#N)C#N', '[Ti](C#N)(C#N)(C#N)(C#N)(C#N)C#N', '[Fe](C#N)(C#N)(C#N)(C#N)(C#N)C#N', '[Fe+2](C#N)C#N',
             '[Cu]C#N', 'C[Mg]Br', 'C[Li]', '[Na]OC', 'CC(=O)O[Na]', '[Zn](C)C', 'CC[Al](CC)CC', '[Pd](Cl)(Cl)(N)N', 'Cl[Pt](Cl)(N)N',
             'O=N(=O)c1ccccc1N(=O)=O', 'CN(=O)=O.CN(=O)=O', 'OP(=O)(O)OP(=O)(O)O', 'C[S+](C)[O-].C[S+](C)[O-]', 'FP(F)(F)(F)(F)F',
             'F[P-](F)(F)(F)(F)F', '[O-][N+](=O)c1ccc(cc1)[N+](=O)[O-]', 'C[N+](C)(C)C', 'CN(C)(C)C.CN(C)(C)C', 'O=C1NC=CC=C1',
             'OC1=NC(O)=NC=C1', 'O=C1NC(=O)NC=C1', 'CC(O)=CC(C)=O', 'N=C(O)c1ccccc1', 'OS(=N)(=N)O', 'CS(=N)(=N)O',
             '[O-][Cl+3]([O-])([O-])O', 'C[N+]#N', 'CN=[N+]=[N-]', 'CN=N#N', 'C1=CC=CC=C1', 'c1ccccc1', 'c1cc[nH]c1', 'C[C@H](N)C(O)=O',
             'F/C=C/N(=O)=O', 'C[C@H](F)N(=O)=O', '[CH2-][N+]#N', 'C[N+](=O)[O-]', '[O]N(C)[CH2]', 'C[N](C)=O |^1:1|', '[H]C([H])([H])N(=O)=O',
             'B1(C)[H]B(C)[H]1', '[NH4+].[Cl-]', 'CC(=O)[O-].[Na+]', '[Na+].[O-]c1ccccc1', 'C[NH3+].[O-]C(C)=O', '[Cu+2].[O-]C(C)=O.[O-]C(C)=O']
    for s in extra:
        out.append(('extra', s))
    return out


# ---------------------------------------------------------------------------------------------
# correspondence: the rule engine


def corr_engine(ck, rng):
    from chython import smiles
    n_corpus = 60 if ck.tier == 'quick' else 600
    n_decor = 80 if ck.tier == 'quick' else 800
    cases, meta = [], []
    rules_fired = collections.Counter()
    rules_self = {}

    def add(case, m):
        cases.append(case)
        meta.append(m)

    def one_molecule(tag, label, make, ft):
        """whole standardize() + every matched rule as a step"""
        try:
            m = make()
        except Exception as e:
            ck.count(f'engine:{tag}:unbuildable')
            return
        if m is None:
            return
        with Recorder() as R:
            try:
                log, rec = R.run(lambda: m.standardize(logging=True, fix_tautomers=ft, _fix_stereo=False))
            except Exception as e:
                ck.count(f'engine:{tag}:raises {type(e).__name__}')
                return
        final = coqmol.mol_term(m)
        fired = [k for k, e in enumerate(rec) if e['maps']]
        ck.count(f'engine:{tag}')
        ck.count(f'engine:rules matched per run={min(len(fired), 4)}')
        ck.case(('engine', tag, label, ft), nontrivial=bool(fired))
        if not rec:
            return
        for k in fired:
            e = rec[k]
            g1 = rec[k + 1]['g0'] if k + 1 < len(rec) else final
            rules_fired[(e['c'], e['ridx'])] += 1
            ck.count('engine:steps')
            if len(e['maps']) > 1:
                ck.count('engine:steps with several mappings')
            add(f'step_ok {e["c"]} {e["stage"]} {e["ridx"]} {e["g0"]} {maps_term(e["maps"])} {g1}',
                {'kind': 'step', 'tag': tag, 'mol': label, 'rule': f'{COLL[e["c"]]}[{e["ridx"]}]', 'fix_tautomers': ft,
                 'spec': f'step_spec {e["c"]} {e["ridx"]} {e["g0"]} {maps_term(e["maps"])}'})
        pre = next((list(mt) for mt, r, text in log if r == -1 and text == 'resonance fixed'), [])
        fixed = next((sorted(mt) for mt, r, text in log if r == -1 and text == 'standardized atoms'), [])
        if any(text.startswith('bad charge') for _, _, text in log):
            ck.count('engine:bad charge formed')
        add(f'passes_ok {b(ft)} {table_term(rec)} {zl(pre)} {rec[0]["g0"]} {final} {rlog_term(log)} {zl(fixed)}',
            {'kind': 'standardize()', 'tag': tag, 'mol': label, 'fix_tautomers': ft})

    inputs = mol_inputs(ck, rng)
    for tag, s in inputs:
        one_molecule(tag, s, lambda s=s: smiles(s), True)
    for tag, s in inputs[::3]:
        one_molecule(tag, s, lambda s=s: smiles(s), False)
    # every rule on its own minimal instantiation (private pass, so that the collection and the stage are the rule's own)
    with Recorder() as R:
        for c, coll in R.colls.items():
            for i, rule in enumerate(coll):
                try:
                    m = instantiate_rule(rule)
                except Exception as e:
                    rules_self[(c, i)] = f'unbuildable: {type(e).__name__}'
                    continue
                stage = {0: 0, 1: 2, 2: 3}[c]
                g0 = coqmol.mol_term(m)
                try:
                    (log, fixed), rec = R.run(lambda: m._Standardize__standardize(coll, True), stage=stage)
                except Exception as e:
                    rules_self[(c, i)] = f'raises {type(e).__name__}'
                    continue
                own = [e for e in rec if e['ridx'] == i and e['maps']]
                rules_self[(c, i)] = 'fires' if own else 'does not match its instantiation'
                if own:
                    rules_fired[(c, i)] += 1
                ck.case(('self', c, i), nontrivial=bool(own))
                add(f'pass_ok {c} {stage} true {table_term(rec)} {g0} {coqmol.mol_term(m)} {rlog_term(log)} {zl(sorted(fixed))}',
                    {'kind': 'pass on own instantiation', 'rule': f'{COLL[c]}[{i}]', 'mol': str(m)})
    # corpus and decorated corpus molecules, renumbered at random half of the time
    lip = corpus.lipo()
    for k, s in enumerate(corpus.sample(lip, n_corpus, ck.seed, 'c14-engine')):
        def make(s=s, k=k):
            m = smiles(s)
            if k % 2:
                m = corpus.renumber(m, random.Random(f'{ck.seed}:{k}'))
            if k % 3 == 0:
                m.kekule()
            return m
        one_molecule('corpus', s, make, k % 4 != 0)
    for k, s in enumerate(corpus.sample(lip, n_decor, ck.seed, 'c14-decor')):
        def make(s=s, k=k):
            m = decorate(s, random.Random(f'{ck.seed}:d{k}'))
            if m is not None and k % 2:
                m = corpus.renumber(m, random.Random(f'{ck.seed}:r{k}'))
            return m
        one_molecule('decorated', s, make, k % 4 != 0)
    n_rules = sum(len(c) for c in Recorder().colls.values())
    ck.extra['rules_matched_in_correspondence'] = f'{len(rules_fired)} of {n_rules}'
    ck.extra['rules_not_matching_own_instantiation'] = sorted(f'{COLL[c]}[{i}]: {v}' for (c, i), v in rules_self.items() if v != 'fires')
    ck.extra['rules_never_matched'] = sorted(f'{COLL[c]}[{i}]' for c, coll in Recorder().colls.items() for i in range(len(coll))
                                             if (c, i) not in rules_fired)
    return cases, meta


def run_corr(ck, name, cases, meta, what, shard=60):
    ok, failing, log = coqcases.run_cases(name, IMPORTS, cases, extra=EXTRA, shard=shard)
    ck.extra.setdefault('correspondence_cases', {})[name] = len(cases)
    ck.oblige(what, ok and not failing, 'correspondence', log or str([meta[i] for i in failing[:5]]))
    if cases:
        ck.sample({'model_call': cases[0][:600], 'meta': {k: v for k, v in meta[0].items() if k != 'spec'}})
    return ok, failing, log


# ---------------------------------------------------------------------------------------------
# correspondence: hydrogens, resonance

EXN = {'KeyError': 'KeyError', 'ValueError': 'ValueError', 'IndexError': 'IndexError', 'TypeError': 'TypeError',
       'StopIteration': 'StopIteration', 'AttributeError': 'AttributeError', 'ValenceError': 'ValenceError'}

H_SMILES = ['[H]C([H])([H])[H]', '[H][H]', '[2H]C', '[H]O[H]', 'C[H]', '[H]C([H])=O', '[H]N([H])([H])[H]', '[H][N+]([H])([H])[H]', '[H+]', '[H-]', '[H]',
            '[H]~C', 'C~[H]', '[1H]C', '[3H]O[H]', '[H]C#N', '[H]OS(=O)(=O)O[H]', '[H]c1ccccc1', '[H]C1=CC=CC=C1', 'B1(C)[H]B(C)[H]1',
            '[H]C([H])([H])C([H])([H])O[H]', '[H]Cl', '[H][Cl+][H]', '[H][O-]', '[H][O+]([H])[H]', '[H]P([H])([H])([H])[H]', '[H]S([H])([H])[H]',
            '[H]N=O', '[H]N(=O)=O', '[H]C([H])([H])N(=O)=O', '[H][C]([H])[H] |^1:1|', '[H][C-]([H])[H]', '[H][C+]([H])[H]', '[Na][H]', '[H][Fe][H]',
            '[H]C([H])([H])[2H]', 'C([H])([H])([H])([H])[H]', '[H]O', '[H]N', 'O([H])([H])[H]', '[H]F', 'F[H]F', '[H]B([H])[H]', '[H][B-]([H])([H])[H]',
            '[H]C(=[H])', '[H]=C']


def pyres_mol(fn, m):
    try:
        fn()
        return f'(Ok {coqmol.mol_term(m)})'
    except Exception as e:
        return f'(Err {EXN.get(type(e).__name__, "OtherError")})'


def corr_hydrogens(ck, rng):
    from chython import smiles
    cases, meta = [], []
    n_corpus = 50 if ck.tier == 'quick' else 500
    pool = [('h', s) for s in H_SMILES] + [('doc', raw) for raw, _ in test_groups_data()[::2]] + \
           [('corpus', s) for s in corpus.sample(corpus.lipo(), n_corpus, ck.seed, 'c14-h')]
    for k, (tag, s) in enumerate(pool):
        try:
            m = smiles(s)
        except Exception:
            ck.count(f'hydrogens:{tag}:unparsable')
            continue
        if m is None:
            continue
        if tag == 'corpus':
            if k % 2:
                m = corpus.renumber(m, random.Random(f'{ck.seed}:h{k}'))
            if k % 3:
                m.kekule()
        # explicify
        g0 = coqmol.mol_term(m)
        e = m.copy()
        res = pyres_mol(lambda: e.explicify_hydrogens(_fix_stereo=False), e)
        cases.append(f'explicify_ok {g0} {res}')
        meta.append({'kind': 'explicify', 'tag': tag, 'mol': s})
        added = len(e) - len(m)
        ck.count('hydrogens:explicify ' + ('raises' if res.startswith('(Err') else 'adds' if added else 'adds nothing'))
        ck.case(('explicify', s, k), nontrivial=added > 0)
        # implicify the input itself and the explicified molecule (and the latter with some hydrogens removed again)
        todo = [('input', m.copy())]
        if not res.startswith('(Err') and added:
            todo.append(('explicified', e.copy()))
            if tag != 'corpus' or k % 5 == 0:
                p = e.copy()
                hs = [n for n, a in p.atoms() if a.atomic_number == 1]
                r = random.Random(f'{ck.seed}:p{k}')
                for n in r.sample(hs, max(1, len(hs) // 3)):
                    p.delete_atom(n)     # the neighbour keeps implicit count 0 + recalculation by delete_atom
                todo.append(('partly explicit', p))
        for what, x in todo:
            g0 = coqmol.mol_term(x)
            before = len(x)
            res = pyres_mol(lambda: x.implicify_hydrogens(_fix_stereo=False), x)
            cases.append(f'implicify_ok {g0} {res}')
            meta.append({'kind': 'implicify', 'tag': tag, 'mol': s, 'what': what})
            ck.count('hydrogens:implicify ' + ('raises' if res.startswith('(Err') else 'removes' if len(x) < before else 'removes nothing'))
            ck.case(('implicify', s, k, what), nontrivial=len(x) < before)
    return cases, meta


RES_SMILES = ['[CH2-]C=C[CH2+]', '[O-]C=CC=[NH2+]', '[O-]C=C[CH2+]', '[CH2]C=C[CH2] |^1:0,3|', '[CH2]C=CC=C[CH2] |^1:0,5|', '[CH2][CH2] |^1:0,1|',
              '[O-]C=CC=CC=[N+](C)C', 'C[N+](C)=CC=C[O-]', '[O-][N+](=O)C', '[CH2-][N+]#N', '[N-]=[N+]=NC', 'C[S+]=CC=C[O-]', 'C[S+]=C[CH2-]',
              '[CH2-]C=[O+]C', 'NC=C[CH2+]', 'N#CC=C[CH2+]', 'CN(C)C=CC=[O+]C', '[CH2-]c1cccc[n+]1C', '[O-]c1cccc[n+]1C', '[O-]C1=CC=CC=[N+]1C',
              '[O-]C1=CC=[N+](C)C=C1', '[CH2-]C=CC=[N+](C)C', '[O]C=C[CH2] |^1:0,3|', '[O]C=CC=C[O] |^1:0,5|', '[CH2-]C=C[NH+]=C', '[O-]C(C)=[O+]C',
              '[CH2-]C#C[CH2+]', '[CH2-]C=C=C[CH2+]', '[O-]C=C[C+](C)C', '[CH2-]C=CC=CC=CC=C[CH2+]', '[NH-]C=C[CH2+]', '[S-]C=C[CH2+]', '[B-](C)(C)(C)C=C[CH2+]',
              '[O-]P(C)(C)=C[CH2+]', '[CH-]=C[CH2+]', '[CH2-][S+](C)C', 'C[N+](C)(C)C=C[O-]', '[O-]C=C[N+](C)(C)C', '[O-]C=C[P+](C)(C)C',
              '[CH2-]C=C[CH2+].[CH2-]C=C[CH2+]', '[O-]C=C[CH+]C=C[O-]', '[CH2+]C=C[CH-]C=C[CH2+]', 'NC=CC=[O+]C', 'CNC=C[CH2+]', '[CH2-]C=CN#N']


def corr_resonance(ck, rng):
    from chython import smiles
    from chython.algorithms.standardize.resonance import Resonance
    name = '_Resonance__find_delocalize_path'
    orig = getattr(Resonance, name)
    steps = []

    def wrapped(self, start, finish, constrains, odd_only):
        last = None
        try:
            for p in orig(self, start, finish, constrains, odd_only):
                last = [tuple(x) for x in p]
                yield p
        except GeneratorExit:     # the consumer left the loop with `break`: this path was accepted
            steps.append((odd_only, start, last))
            raise

    cases, meta = [], []
    n_corpus = 40 if ck.tier == 'quick' else 400
    pool = [('res', s) for s in RES_SMILES] + [('doc', raw) for raw, _ in test_groups_data()[1::2]]
    pool += [('decorated', s) for s in corpus.sample(corpus.lipo(), n_corpus, ck.seed, 'c14-res')]
    setattr(Resonance, name, wrapped)
    try:
        for k, (tag, s) in enumerate(pool):
            try:
                m = smiles(s) if tag != 'decorated' else decorate(s, random.Random(f'{ck.seed}:res{k}'), RES_GROUPS)
            except Exception:
                ck.count(f'resonance:{tag}:unbuildable')
                continue
            if m is None:
                continue
            if k % 2:
                m = corpus.renumber(m, random.Random(f'{ck.seed}:rr{k}'))
            g0 = coqmol.mol_term(m)
            del steps[:]
            try:
                hs = m.fix_resonance(logging=True, _fix_stereo=False)
            except Exception as e:
                ck.count(f'resonance:raises {type(e).__name__}')
                continue
            st = lst([f'({"RRad" if odd else "RChg"} {zraw(n)} {lst([tup(zraw(a), zraw(c), zraw(o)) for a, c, o in p])})' for odd, n, p in steps])
            cases.append(f'resonance_ok {g0} {st} {zl(hs)} {coqmol.mol_term(m)}')
            meta.append({'kind': 'fix_resonance', 'tag': tag, 'mol': s, 'paths': len(steps)})
            ck.count(f'resonance:paths applied={min(len(steps), 3)}')
            if any(odd for odd, _, _ in steps):
                ck.count('resonance:radical path')
            ck.case(('resonance', s, k), nontrivial=bool(steps))
    finally:
        setattr(Resonance, name, orig)
    return cases, meta


RES_GROUPS = ['C=C[CH2+]', 'C[CH2+]', 'C=CC=[O+]C', 'C[CH2-]', 'C=C[CH2-]', 'C[O-]', 'C=[N+](C)C', 'C[N+](C)=C', 'C=C[O-]', 'C=CC=C[CH2+]', 'C=C[NH-]',
              'C[CH2] |^1:1|', 'C=C[CH2] |^1:2|']


# ---------------------------------------------------------------------------------------------
# search: property-level oracles on the real code (independent of the model)

OPS = collections.OrderedDict([
    ('standardize', lambda m: m.standardize()),
    ('standardize(fix_tautomers=False)', lambda m: m.standardize(fix_tautomers=False)),
    ('canonicalize', lambda m: m.canonicalize()),
    ('canonicalize(fix_tautomers=False)', lambda m: m.canonicalize(fix_tautomers=False)),
    ('fix_resonance', lambda m: m.fix_resonance()),
    ('standardize_charges', lambda m: m.standardize_charges()),
    ('neutralize', lambda m: m.neutralize()),
    ('neutralize(keep_charge=False)', lambda m: m.neutralize(keep_charge=False)),
    ('explicify_hydrogens', lambda m: m.explicify_hydrogens()),
    ('implicify_hydrogens', lambda m: m.implicify_hydrogens()),
])
OP_CODE = {'standardize': 'm.standardize()', 'standardize(fix_tautomers=False)': 'm.standardize(fix_tautomers=False)',
           'canonicalize': 'm.canonicalize()', 'canonicalize(fix_tautomers=False)': 'm.canonicalize(fix_tautomers=False)',
           'fix_resonance': 'm.fix_resonance()', 'standardize_charges': 'm.standardize_charges()', 'neutralize': 'm.neutralize()',
           'neutralize(keep_charge=False)': 'm.neutralize(keep_charge=False)', 'explicify_hydrogens': 'm.explicify_hydrogens()',
           'implicify_hydrogens': 'm.implicify_hydrogens()'}
TAUTOMERIC = {'standardize', 'canonicalize'}          # numbering independence is claimed for these on the fixed corpus only
PROTON_TRANSFER = {'neutralize(keep_charge=False)'}   # charge and hydrogens change by the same number of protons


def observe(m):
    """composition of a molecule, read off the atoms"""
    heavy = collections.Counter((a.atomic_number, a.isotope) for _, a in m.atoms() if a.atomic_number != 1)
    hydrogens = collections.Counter(a.isotope for _, a in m.atoms() if a.atomic_number == 1)
    invalid = [n for n, a in m.atoms() if a.implicit_hydrogens is None]
    total_h = sum(hydrogens.values()) + sum(a.implicit_hydrogens or 0 for _, a in m.atoms())
    charge = sum(a.charge for _, a in m.atoms())
    radicals = sum(1 for _, a in m.atoms() if a.is_radical)
    return {'heavy': heavy, 'h': total_h, 'charge': charge, 'invalid': invalid, 'radicals': radicals,
            'heavy_h_isotopes': collections.Counter({k: v for k, v in hydrogens.items() if k not in (None, 1)})}


def state(m):
    return ({n: (a.atomic_number, a.isotope, a.charge, a.is_radical, a.implicit_hydrogens, a.stereo) for n, a in m.atoms()},
            {(min(n, k), max(n, k)): (int(bd), bd.stereo) for n, k, bd in m.bonds()})


def fmt_counter(c):
    return {str(k): v for k, v in sorted(c.items(), key=repr)}


class Limited:
    """at most `limit` counterexamples per kind reach the replay directory (one defect shows up on many molecules)"""

    def __init__(self, ck, limit=4):
        self.ck, self.limit, self.seen = ck, limit, collections.Counter()

    def counterexample(self, kind, key, *a, **kw):
        self.seen[kind] += 1
        self.ck.count('search:FAIL ' + kind)
        if self.seen[kind] <= self.limit:
            self.ck.counterexample(key, *a, **kw)


def check_op(ck, lim, name, smi, make, valid_only_checks=True, renumber=True, fixed_corpus=False):
    """all oracles of one operation on one molecule; make() builds a fresh input molecule"""
    op = OPS[name]
    code = OP_CODE[name]
    m = make()
    before = observe(m)
    valid = not before['invalid']
    build = getattr(make, 'code', f'm = smiles({smi!r})')
    rp = f'from chython import smiles\n{build}\nprint(str(m)); r = {code}; print(r, str(m))\nr = {code}; print(r, str(m))'
    inp = {'smiles': smi, 'built_by': build, 'operation': code}
    try:
        op(m)
    except Exception as e:
        if valid:
            lim.counterexample(f'raises {name}', f'raises:{name}:{type(e).__name__}:{smi}', f'{code} raises {type(e).__name__} on valence-valid input',
                               inp, f'{type(e).__name__}: {e}', 'no exception', 'the operation must not fail on valence-valid input', replay_py=rp)
        else:
            ck.count(f'search:{name} raises on valence-INVALID input (outside the claim)')
        return None
    after = observe(m)
    ck.case(('op', name, smi, build), nontrivial=str(make()) != str(m) if name not in ('explicify_hydrogens', 'implicify_hydrogens') else before['h'] > 0)
    if after['heavy'] != before['heavy'] or after['heavy_h_isotopes'] != before['heavy_h_isotopes']:
        lim.counterexample(f'heavy atoms {name}', f'heavy:{name}:{smi}', f'{code} changes the heavy-atom multiset', inp,
                           fmt_counter(after['heavy']), fmt_counter(before['heavy']), 'multiset of (atomic number, isotope) over non-hydrogen atoms', replay_py=rp)
    if valid:
        if after['invalid']:
            lim.counterexample(f'valence error {name}', f'valence:{name}:{smi}', f'{code} produces a valence error on valence-valid input', inp,
                               {'invalid atoms': after['invalid'], 'result': str(m)}, 'no atom with implicit_hydrogens None', 'check_valence', replay_py=rp)
        dq, dh = after['charge'] - before['charge'], after['h'] - before['h']
        if name in PROTON_TRANSFER:
            if dq != dh:
                lim.counterexample(f'protons {name}', f'protons:{name}:{smi}', f'{code}: net charge and hydrogen count change by different amounts', inp,
                                   {'charge change': dq, 'hydrogen change': dh}, 'equal', 'sum of charges / implicit + explicit hydrogens', replay_py=rp)
        elif dq or dh:
            lim.counterexample(f'charge or H {name}', f'composition:{name}:{smi}', f'{code} changes net charge or hydrogen count of a valence-valid molecule', inp,
                               {'charge': after['charge'], 'hydrogens': after['h'], 'result': str(m)}, {'charge': before['charge'], 'hydrogens': before['h']},
                               'sum of charges / implicit + explicit hydrogens', replay_py=rp)
        if after['radicals'] % 2 != before['radicals'] % 2:
            lim.counterexample(f'radical parity {name}', f'radicals:{name}:{smi}', f'{code} changes the parity of the radical count', inp,
                               after['radicals'], before['radicals'], 'number of radical atoms mod 2', replay_py=rp)
    # idempotence: a second application changes nothing (strings compared; the return value is not a change indicator)
    s1, st1 = str(m), state(m)
    try:
        op(m)
    except Exception as e:
        if valid:
            lim.counterexample(f'second application raises {name}', f'raises2:{name}:{type(e).__name__}:{smi}', f'second {code} raises {type(e).__name__}', inp,
                               f'{type(e).__name__}: {e}', 'no exception', 'idempotence', replay_py=rp)
        return None
    s2 = str(m)
    if valid or not after['invalid']:
        if s2 != s1:
            lim.counterexample(f'idempotence {name}', f'idempotent:{name}:{smi}', f'{code} is not idempotent: the second application changes the molecule', inp,
                               s2, s1, 'canonical string after the first and the second application', replay_py=rp)
        elif state(m) != st1:
            ck.count(f'search:{name}: second application permutes an equivalent spelling (same canonical string)')
    elif s2 != s1:
        ck.count(f'search:{name} not idempotent on valence-INVALID input (outside the claim)')
    # numbering independence
    if renumber and valid and (name not in TAUTOMERIC or fixed_corpus):
        r = corpus.renumber(make(), random.Random(f'{ck.seed}:{smi}:{name}'))
        try:
            op(r)
            sr = str(r)
        except Exception as e:
            sr = f'{type(e).__name__}: {e}'
        if sr != s1:
            key = f'renumber:{name}:{smi}'
            lim.counterexample(f'numbering {name}', key, f'{code}: renumbering the input changes the result', inp, sr, s1,
                               'canonical string of op(m) and of op(renumbered m)',
                               replay_py=f'import random\nfrom chython import smiles\n{build}\nnums = list(m._atoms); perm = nums[:]; '
                                         f'random.Random({ck.seed!r} and {f"{ck.seed}:{smi}:{name}"!r}).shuffle(perm)\n'
                                         f'r = m.copy(); r.remap(dict(zip(nums, perm)))\n{code}; {code.replace("m.", "r.")}\nprint(str(m)); print(str(r))')
    return m


def search(ck, rng):
    from chython import smiles
    lim = Limited(ck)
    quick = ck.tier == 'quick'
    lip = corpus.lipo()
    # (1) documented pairs of the rule tables' tests
    for raw, want in test_groups_data():
        try:
            m = smiles(raw)
            m.standardize()
            w = smiles(want)
        except Exception as e:
            lim.counterexample('documented pair raises', f'doc-raises:{raw}', 'standardize() of a documented spelling raises', {'smiles': raw}, f'{type(e).__name__}: {e}', want,
                               'test_groups.py', replay_py=f'from chython import smiles\nm = smiles({raw!r}); m.standardize(); print(m)')
            continue
        ck.case(('doc', raw), nontrivial=raw != want)
        ck.count('search:documented pairs')
        if m != w or str(m) != str(w):
            lim.counterexample('documented pair', f'doc:{raw}', 'a documented functional-group spelling is not converted to its documented canonical spelling',
                               {'smiles': raw}, str(m), str(w), 'chython/algorithms/standardize/test/test_groups.py',
                               replay_py=f'from chython import smiles\nm = smiles({raw!r}); m.standardize(); print(m, smiles({want!r}))')
    # (2) all operations on valence-valid corpus / decorated / hand-made molecules
    pool = []
    for s in corpus.sample(lip, 45 if quick else 700, ck.seed, 'c14-search'):
        pool.append(('corpus', s, None))
    for k, s in enumerate(corpus.sample(lip, 45 if quick else 700, ck.seed, 'c14-search-dec')):
        pool.append(('decorated', s, k))
    for tag, s in mol_inputs(ck, rng):
        pool.append((tag, s, None))
    for s in RES_SMILES + H_SMILES[:20] + SALTS:
        pool.append(('hand', s, None))
    groups = doc_groups()
    for tag, s, k in pool:
        # hydrogen counts of aromatic hetero-atoms are unknown right after parsing: inputs are Kekule forms or re-aromatised ones
        thiele = bool(hash_pick(s, 'form') % 2)
        if k is None:
            def make(s=s, thiele=thiele):
                return prepared(smiles(s), thiele)
            make.code = f'm = smiles({s!r}); m.kekule()' + ('; m.thiele()' if thiele else '')
        else:
            def make(s=s, k=k, thiele=thiele):
                return prepared(decorate(s, random.Random(f'{ck.seed}:sd{k}'), groups), thiele)
            make.code = (f'import random, sys; sys.path.insert(0, "/verif/harness"); from checks.C14 import decorate, doc_groups\n'
                         f'm = decorate({s!r}, random.Random({f"{ck.seed}:sd{k}"!r}), doc_groups()); m.kekule()' + ('; m.thiele()' if thiele else ''))
        try:
            m0 = make()
        except Exception:
            ck.count(f'search:{tag}:unbuildable')
            continue
        if m0 is None:
            continue
        valid = not any(a.implicit_hydrogens is None for _, a in m0.atoms())
        ck.count(f'search:{tag} ' + ('valence-valid' if valid else 'valence-INVALID (heavy atoms only)'))
        for name in OPS:
            if quick and tag in ('corpus', 'decorated') and name in ('standardize(fix_tautomers=False)', 'neutralize(keep_charge=False)') and hash_pick(s, name) % 2:
                continue
            res = check_op(ck, lim, name, s, make, renumber=tag != 'doc' or valid, fixed_corpus=tag == 'corpus')
        # explicify and implicify are mutually inverse
        if valid:
            inverse_pair(ck, lim, s, make)
    # (3) tautomer enumeration
    tpool = [('corpus', s) for s in corpus.sample(lip, 40 if quick else 500, ck.seed, 'c14-taut')] + [('hand', s) for s in TAUT_SMILES]
    for tag, s in tpool:
        check_tautomers(ck, lim, s, tag)
    ck.extra['search_failures'] = dict(lim.seen)


def prepared(m, thiele):
    if m is not None:
        m.kekule()
        if thiele:
            m.thiele()
    return m


def hash_pick(*xs):
    import hashlib
    return int.from_bytes(hashlib.blake2b(repr(xs).encode(), digest_size=4).digest(), 'big')


SALTS = ['[NH4+].[Cl-]', 'CC(=O)[O-].[Na+]', '[Na+].[O-]c1ccccc1', 'C[NH3+].[O-]C(C)=O', 'C[NH3+].[Cl-]', 'CC(=O)[O-].C[NH3+].[Na+].[Cl-]', '[O-]C(=O)CC[NH3+]',
         'C[NH2+]C.[O-]S(=O)(=O)C', 'OC(=O)CC(=O)[O-].[K+]', 'c1cc[nH+]cc1.[Br-]', 'CC(=O)O.CN', 'C[N+](C)(C)C.[OH-]', '[O-]C(=O)C[N+](C)(C)C', 'NC(N)=[NH2+].[O-]C=O',
         'CS(=O)(=O)[O-].C[NH+](C)C', '[O-]c1ccccc1.[NH4+]', 'C[O-].[Li+]', 'CC[NH+](CC)CC.[O-]C(=O)C(F)(F)F']
TAUT_SMILES = ['CC(=O)CC(C)=O', 'OC1=NC=CC=C1', 'O=C1NC=CC=C1', 'CC(=O)C', 'C1C=CC=N1', 'NC(N)=N.Cl', 'N1C=CN=N1.Cl', 'CC(O)=CC', 'C[C@H](F)C=O', 'C/C=C/C(C)=O',
               'CC(=O)C[C@H](C)F', 'C[C@H](N)C(=O)O', 'O=C1CCCCC1', 'OC=CC=O', 'Oc1ccccc1', 'Oc1ccc(O)cc1', 'CC(=O)Nc1ccccc1', 'c1cc[nH]n1', 'c1nc[nH]n1', 'N=C(N)c1ccccc1',
               'C[NH3+].[Cl-]', 'OC(=O)CN', 'OCC(O)C=O', 'O=CC(O)C(O)CO', 'CC(=N)C', 'CC(=O)CC#N', 'O=C1C=CC(=O)C=C1', 'Cc1cc(=O)[nH]c(=O)[nH]1', 'Oc1ncnc2[nH]cnc12']


def doc_groups():
    """documented non-canonical spellings that can be attached through a leading neutral carbon"""
    from chython import smiles
    out = ['C' + d for d in DECORATIONS]
    for raw, _ in test_groups_data():
        if raw.startswith('C') and not raw.startswith('Cl') and len(raw) > 1 and raw[1] not in '12=#-[:':
            out.append(raw)
    good = []
    for s in out:
        try:
            m = smiles(s)
            a = m._atoms[min(m._atoms)]
            if a.atomic_number == 6 and not a.charge and not a.is_radical:
                good.append(s)
        except Exception:
            pass
    return good


def inverse_pair(ck, lim, smi, make):
    m = make()
    build = getattr(make, 'code', f'm = smiles({smi!r})')
    if any(a.atomic_number == 1 for _, a in m.atoms()):
        return
    try:
        m.kekule()
        s0, st0 = str(m), state(m)
        n0 = len(m)
        added = m.explicify_hydrogens()
        s1 = str(m)
        removed = m.implicify_hydrogens()
    except Exception as e:
        ck.count('search:inverse pair raises (reported by the per-operation oracle)')
        return
    ck.case(('inverse', smi, build), nontrivial=added > 0)
    rp = f'from chython import smiles\n{build}\nm.kekule(); print(m); print(m.explicify_hydrogens(), m); print(m.implicify_hydrogens(), m)'
    if added != removed or len(m) != n0 or str(m) != s0 or state(m)[0] != st0[0] or state(m)[1] != st0[1]:
        lim.counterexample('explicify-implicify', f'inverse:{smi}', 'implicify_hydrogens does not undo explicify_hydrogens', {'smiles': smi, 'built_by': build},
                           {'added': added, 'removed': removed, 'result': str(m)}, s0, 'atom-by-atom state before explicify and after implicify', replay_py=rp)
        return
    try:
        m.explicify_hydrogens()
    except Exception:
        return
    if str(m) != s1:
        lim.counterexample('implicify-explicify', f'inverse2:{smi}', 'explicify_hydrogens does not undo implicify_hydrogens', {'smiles': smi, 'built_by': build},
                           str(m), s1, 'canonical string of the explicit form', replay_py=rp)


def check_tautomers(ck, lim, smi, tag):
    from chython import smiles
    m = smiles(smi)
    before = observe(m)
    if before['invalid']:
        return
    rp = f'from chython import smiles\nm = smiles({smi!r})\nfor t in m.enumerate_tautomers(limit=40): print(t)'
    try:
        ts = list(m.enumerate_tautomers(limit=40))
    except Exception as e:
        tb = traceback.extract_tb(e.__traceback__)
        inner = {f.name for f in tb[-3:]}
        stale = isinstance(e, KeyError) and inner & {'_translate_tetrahedron_sign', '_translate_cis_trans_sign', '_translate_allene_sign'}
        if stale:
            c = smiles(smi)
            c.clean_stereo()
            try:
                list(c.enumerate_tautomers(limit=40))
            except Exception:
                stale = False
        if stale:
            ck.count('search:enumerate_tautomers raises KeyError on a stale stereo label')
            ck.counterexample('enumerate_tautomers:stale-stereo-label', 'enumerate_tautomers raises KeyError: a keto-enol tautomer keeps the stereo label of an atom / bond '
                              'that is no longer stereogenic', {'smiles': smi}, f'{type(e).__name__}: {e}', 'no exception', 'never fail on valence-valid input', replay_py=rp)
        else:
            lim.counterexample('enumerate_tautomers raises', f'taut-raises:{type(e).__name__}:{smi}', f'enumerate_tautomers raises {type(e).__name__}', {'smiles': smi},
                               f'{type(e).__name__}: {e}', 'no exception', 'never fail on valence-valid input', replay_py=rp)
        return
    ck.case(('tautomers', smi), nontrivial=len(ts) > 1)
    ck.count(f'search:tautomers per molecule={min(len(ts), 5)}')
    seen = {}
    for t in ts:
        o = observe(t)
        s = str(t)
        if o['heavy'] != before['heavy'] or o['charge'] != before['charge'] or o['h'] != before['h'] or o['invalid']:
            lim.counterexample('tautomer composition', f'taut-composition:{smi}', 'a tautomer differs from the input in heavy atoms / net charge / hydrogen count or has a valence error',
                               {'smiles': smi}, {'tautomer': s, 'charge': o['charge'], 'hydrogens': o['h'], 'invalid': o['invalid']},
                               {'charge': before['charge'], 'hydrogens': before['h']}, 'composition read off the atoms', replay_py=rp)
            break
        if s in seen:
            lim.counterexample('tautomer duplicate', f'taut-duplicate:{smi}', 'enumerate_tautomers yields the same structure twice', {'smiles': smi}, s, 'distinct structures',
                               'canonical strings', replay_py=rp)
            break
        seen[s] = True
