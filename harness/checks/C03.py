"""C03 SMILES reader: theorems about the tokenizer / parser / reader models + exhaustive and generated correspondence
of _tokenize, smiles_tokenize, _atom_parse, parser, postprocess_parsed_*, smiles() against the Coq models (results are
compared as texts: Ok structure | exception class) + RDKit differential search and exception classification."""
import copy
import itertools
import random
import re

import boot  # noqa
import common
import coqcases
import corpus

replay = common.generic_replay

# ----------------------------------------------------------------------------------------------------------------
# text form of results (the Coq side is show_* in model/Tokenize.v, Parser.v, Reader.v)

EXN = {'IncorrectSmiles': '!S', 'IncorrectSmarts': '!A', 'IndexError': '!I', 'KeyError': '!K', 'TypeError': '!T',
       'AttributeError': '!U'}


def sexn(e):
    n = type(e).__name__
    if n in EXN:
        return EXN[n]
    if isinstance(e, ValueError):
        return '!V'
    if isinstance(e, KeyError):
        return '!K'
    return '!?'


def sz(n):
    return str(int(n))


def sopt(f, v):
    return '-' if v is None else f(v)


def sbool(v):
    return 'T' if v else 'F'


def szs(l):
    return '[' + ','.join(sz(x) for x in l) + ']'


SIMPLE_KEYS = {'element'}
FULL_KEYS = {'element', 'isotope', 'parsed_mapping', 'charge', 'implicit_hydrogens', 'stereo'}


def satom(d):
    ks = set(d) - {'is_radical'}
    if ks != SIMPLE_KEYS and ks != FULL_KEYS and ks != FULL_KEYS - {'stereo'}:
        return '{?keys ' + ','.join(sorted(ks)) + '}'
    return ('{' + d['element'] + '|' + sopt(sz, d.get('isotope')) + '|' + sopt(sz, d.get('parsed_mapping')) + '|' +
            sz(d.get('charge', 0)) + '|' + sopt(sz, d.get('implicit_hydrogens')) + '|' + sopt(sbool, d.get('stereo')) + '}')


def spayload(p):
    from chython.containers.bonds import QueryBond
    if p is None:
        return '~'
    if isinstance(p, bool):
        return sbool(p)
    if isinstance(p, int):
        return 'i' + sz(p)
    if isinstance(p, str):
        return "'" + p + "'"
    if isinstance(p, QueryBond):
        return 'q' + szs(p.order) + sbool(p.in_ring)
    if isinstance(p, dict):
        return satom(p)
    if isinstance(p, list):
        if p and all(isinstance(x, str) for x in p):
            return "c'" + ''.join(p) + "'"
        return szs(p)
    return '?' + type(p).__name__


def stoken(t):
    return sz(t[0]) + spayload(t[1])


def stokens(ts):
    return ' '.join(stoken(t) for t in ts)


def sparsed(r):
    return ';'.join([
        ','.join(satom(a) for a in r['atoms']),
        ','.join(f'({sz(a)}.{sz(b)}.{spayload(c)})' for a, b, c in r['bonds']),
        ','.join(f'{sz(k)}:[' + '.'.join(sopt(sz, x) for x in v) + ']' for k, v in r['order'].items()),
        ','.join(f'{sz(k)}:{sbool(v)}' for k, v in r['stereo_atoms'].items()),
        ','.join(f'{sz(k)}:{{' + '.'.join(f'{sz(m)}:{sbool(s)}' for m, s in v.items()) + '}' for k, v in r['stereo_bonds'].items()),
        sz(len(r['log']))])


def guarded(fn, show):
    try:
        return show(fn())
    except Exception as e:  # noqa
        return sexn(e)


# ----------------------------------------------------------------------------------------------------------------
# Coq literals

def cstr(t):
    if all(32 <= ord(c) < 127 or c == '\n' for c in t):
        return '"' + t.replace('"', '""') + '"%string'
    assert all(ord(c) < 256 for c in t), repr(t)
    return '(of_codes [' + '; '.join(str(ord(c)) for c in t) + '])'


def cz(n):
    return f'({int(n)})' if n < 0 else str(int(n))


def clist(items):
    return '[' + '; '.join(items) + ']'


def copt(f, v):
    return 'None' if v is None else f'(Some {f(v)})'


def cbool(v):
    return 'true' if v else 'false'


def ctoken(t):
    """a Python token as a Coq term of type Tokenize.token"""
    from chython.containers.bonds import QueryBond
    ty, p = t
    if p is None:
        pl = 'PNone'
    elif isinstance(p, bool):
        pl = f'PBool {cbool(p)}'
    elif isinstance(p, int):
        pl = f'PInt {cz(p)}'
    elif isinstance(p, str):
        pl = f'PStr {cstr(p)}'
    elif isinstance(p, QueryBond):
        pl = f'PQB {clist(cz(x) for x in p.order)} {cbool(p.in_ring)}'
    elif isinstance(p, list):
        pl = f'PZs {clist(cz(x) for x in p)}'
    elif isinstance(p, dict):
        pl = (f'PAtom (mkAt {cstr(p["element"])} {copt(cz, p.get("isotope"))} {copt(cz, p.get("parsed_mapping"))} '
              f'{cz(p.get("charge", 0))} {copt(cz, p.get("implicit_hydrogens"))} {copt(cbool, p.get("stereo"))})')
    else:
        raise TypeError(p)
    return f'({cz(ty)}, {pl})'


# ----------------------------------------------------------------------------------------------------------------
# batches: one Coq case = one helper application on a list of inputs and the expected text of all of them

coqcases_imports = ['Tokenize Parser Reader']


class Batches:
    def __init__(self, ck, name, extra=''):
        self.ck = ck
        self.name = name
        self.extra = extra
        self.cases = []
        self.meta = []      # per case: (helper, [python inputs], [expected texts])

    def add(self, helper, coq_inputs, py_inputs, expected):
        """helper: Coq function `list A -> string -> bool` (already applied to its flags); coq_inputs: Coq term of the list"""
        self.cases.append(f'{helper} {coq_inputs} {cstr(chr(10).join(expected))}')
        self.meta.append((helper, py_inputs, expected))

    def add_chunked(self, helper, items, fmt, chunk=40):
        """items: list of (python input, expected text)"""
        for i in range(0, len(items), chunk):
            part = items[i:i + chunk]
            self.add(helper, clist(fmt(x) for x, _ in part), [x for x, _ in part], [e for _, e in part])

    def run(self, what, single=None):
        """returns True when every batch agrees. `single(helper, py_input)` gives the Coq input term of one element,
        used to pin a failing batch down to its elements"""
        if not self.cases:
            return True
        size = sum(len(c) for c in self.cases) / len(self.cases)
        shard = max(20, int(110000 / max(size, 1)))
        ok, failing, log = coqcases.run_cases(self.name, coqcases_imports[0], self.cases, extra=self.extra, shard=shard, timeout=1500)
        bad = []
        if ok and failing and single is not None:
            # second pass: the elements of the first failing batches one by one
            cases2, meta2 = [], []
            for i in failing[:4]:
                helper, ins, exp = self.meta[i]
                for x, e in zip(ins, exp):
                    cases2.append(f'{helper} [{single(x)}] {cstr(e)}')
                    meta2.append((x, e))
            ok2, failing2, _ = coqcases.run_cases(self.name + '_pin', coqcases_imports[0], cases2, extra=self.extra, shard=400, timeout=900)
            if ok2:
                bad = [meta2[i] for i in failing2[:20]]
        elif failing:
            bad = [(self.meta[i][1][:3], self.meta[i][2][:3]) for i in failing[:5]]
        good = ok and not failing
        self.ck.oblige(f'correspondence: {what}', good, 'correspondence', log[-1500:] or repr(bad)[:1500])
        if not good:
            self.ck.unchecked(f'correspondence {what}', (log[-1500:] or 'model and implementation disagree') , [repr(x)[:300] for x in bad] or
                              [f'{len(failing)} failing batches'])
        self.ck.extra.setdefault('correspondence_batches', {})[self.name] = len(self.cases)
        return good


# ----------------------------------------------------------------------------------------------------------------
# 1. _tokenize / smiles_tokenize: all strings up to length L over the alphabet

ALPHA = '()[]=#:-+.>%/\\@HCcNnOoSsPpFlBrI0129*~$!&,;'
ATOM_ALPHA = '0145CcHaselrJjyt@+-:'
ATOM_ALPHA2 = '5CH@+-:s'


def sweep_plan(full, l_full, small, l_small):
    """(prefix, alphabet name, alphabet) triples: every string of length <= l_full over `full` and every string of length
    l_full < n <= l_small over `small` is prefix + one character of the alphabet"""
    plan = []
    prefixes = ['']
    for k in range(l_full):
        plan += [(p, 'al', full) for p in prefixes]
        if k + 1 < l_full:
            prefixes = [p + c for p in prefixes for c in full]
    prefixes = [''.join(t) for t in itertools.product(small, repeat=l_full)] if l_small > l_full else []
    for k in range(l_full, l_small):
        plan += [(p, 'al2', small) for p in prefixes]
        if k + 1 < l_small:
            prefixes = [p + c for p in prefixes for c in small]
    return plan


ALPHA2 = '()[]=#:-.%/\\@CclB1;!,0'


def corr_tokenize(ck):
    from chython.files.daylight.tokenize import _tokenize, smiles_tokenize
    lf, ls = (2, 3) if ck.tier == 'quick' else (3, 4)
    bt = Batches(ck, 'c03tok', extra=f'Definition al : string := {cstr(ALPHA)}. Definition al2 : string := {cstr(ALPHA2)}.')
    n = 0
    for p, alname, alpha in sweep_plan(ALPHA, lf, ALPHA2, ls):
        raw, tok = [], []
        for c in alpha:
            s = p + c
            r = guarded(lambda: _tokenize(s), stokens)
            t = guarded(lambda: smiles_tokenize(s), stokens)
            raw.append(r)
            tok.append(t)
            n += 1
            ck.case(('tok', s), nontrivial=not t.startswith('!'))
            ck.count('tokenize:' + (t if t.startswith('!') else 'Ok'))
        ins = [p + c for c in alpha]
        bt.add('b_raw', f'(sweep {cstr(p)} {alname})', ins, raw)
        bt.add('b_tok', f'(sweep {cstr(p)} {alname})', ins, tok)
    L = f'{lf} over {len(ALPHA)} symbols, <= {ls} over {len(ALPHA2)} symbols'
    # boundary inputs: the empty string, characters outside ASCII (str.isnumeric on Latin-1), white space, quotes
    special = ['', 'C\xb2', 'C%1\xb2', 'C%\xb9\xb9', 'C\xbd', '%\xb2', 'C%1', 'C%12C%12', 'C%123', '[\x85]', 'C\x00', 'C"', "C'", 'C l', '[C"]',
               'C-;!@C', 'C-;!!@C', 'C-,=;@C', 'C-;@;@C', ';!', 'C-;!', 'C!-;@C', 'C!~', 'C-,', 'C-,=,#C', 'Cl', 'Br', 'Bl', 'Cr', 'ClBr', 'CBr',
               '[C][Cl]l', 'C[', 'C]', '[[', '[]', 'C%(', 'C(%12)', 'C%0', 'C%01', 'C%10', 'C0', 'C10', '%', '1', 'C.', '.C', 'C..C']
    items_r = [(s, guarded(lambda: _tokenize(s), stokens)) for s in special]
    items_t = [(s, guarded(lambda: smiles_tokenize(s), stokens)) for s in special]
    bt.add_chunked('b_raw', items_r, cstr)
    bt.add_chunked('b_tok', items_t, cstr)
    n += len(special)
    # lexeme level: every pair (and triple over a reduced list) of lexical items, unfinished ones included, in a completing context
    lex = lexeme_texts(ck.tier, small=ck.tier == 'quick')
    bt.add_chunked('b_raw', [(s, guarded(lambda: _tokenize(s), stokens)) for s in lex], cstr, chunk=60)
    bt.add_chunked('b_tok', [(s, guarded(lambda: smiles_tokenize(s), stokens)) for s in lex], cstr, chunk=60)
    n += len(lex)
    ck.extra['tokenize_lexeme_texts'] = len(lex)
    ck.extra['tokenize_strings'] = n
    ck.sample({'tokenize': 'C(=O)[O-]%12Cl', 'text': guarded(lambda: _tokenize('C(=O)[O-]%12Cl'), stokens)})
    return bt.run(f'_tokenize and smiles_tokenize == Coq model on all {n} strings of length <= {L} + boundary inputs + {len(lex)} lexeme pairs / triples',
                  single=cstr)


# ----------------------------------------------------------------------------------------------------------------
# 2. _atom_parse: all bracket bodies up to length L over its alphabet

def corr_atom(ck):
    from chython.files.daylight.tokenize import _atom_parse
    lf, ls = (3, 4) if ck.tier == 'quick' else (4, 5)
    bt = Batches(ck, 'c03atom', extra=f'Definition al : string := {cstr(ATOM_ALPHA)}. Definition al2 : string := {cstr(ATOM_ALPHA2)}.')
    n = 0
    for p, alname, alpha in sweep_plan(ATOM_ALPHA, lf, ATOM_ALPHA2, ls):
        exp = []
        for c in alpha:
            s = p + c
            e = guarded(lambda: _atom_parse(s), stoken)
            exp.append(e)
            n += 1
            ck.case(('atom', s), nontrivial=not e.startswith('!'))
            ck.count('atom_parse:' + (e if e.startswith('!') else 'Ok'))
        bt.add('b_atom', f'(sweep {cstr(p)} {alname})', [p + c for c in alpha], exp)
    L = f'{lf} over {len(ATOM_ALPHA)} symbols, <= {ls} over {len(ATOM_ALPHA2)} symbols'
    # every field together, every charge spelling, limits of the counted repetitions
    from chython.files.daylight.tokenize import charge_dict
    special = ['', '13CH4+', '13C@@H+:12', '999Cl@H4----:9999', '1000C', '0C', '12C:12345', 'C:', 'C:0', 'C:0000', 'C:00000', 'se', 'as', 'te', 'Se@@H',
               'nH', 'n+', 'b', 'cH-', 'oH+', 'pH', 'sH+', 'Cn', 'Cs', 'Sn', 'Uuo', 'H', 'HH', 'HH2', 'H+', 'CH5', 'CH0', 'C@@@', 'C@H@', 'C+5', 'C+0', 'C5+',
               'C+-', 'C-+', 'C+++', 'C---', 'C++++', 'C+:1', 'C:1+', 'CH+2:3', '2H', '3H+', 'Fe+3', 'Fe+++', 'Zn++', 'Zn+2', 'K+', 'Cl-', 'O--', 'O-2',
               'N+4', 'N-4', 'N-3', 'C@', 'C@@', 'C@H', 'C@@H2', 'C@TH1', 'C@?', 'ba', 'Ba', 'aS', 'tE', 'Te', 'CH+', 'C H', 'C\n', 'C+\n', '\xb2C', 'C:\xb2',
               'J', 'Q', 'j', 'q', 'w', 'x', 'z', 'Xx', 'Zz', 'Zr', 'Zy', 'Zw'] + ['C' + k for k in charge_dict] + ['13C@H' + k + ':7' for k in charge_dict]
    items = [(s, guarded(lambda: _atom_parse(s), stoken)) for s in special]
    for s, e in items:
        ck.case(('atom', s), nontrivial=not e.startswith('!'))
    bt.add_chunked('b_atom', items, cstr)
    n += len(special)
    ck.extra['atom_parse_bodies'] = n
    ck.sample({'atom_parse': '13C@@H+:12', 'text': guarded(lambda: _atom_parse('13C@@H+:12'), stoken)})
    return bt.run(f'_atom_parse == Coq matcher on all {n} bracket bodies of length <= {L} + field combinations',
                  single=cstr)


# ----------------------------------------------------------------------------------------------------------------
# 3. parser: all token sequences up to length L over a representative token alphabet, both modes

def token_alphabet():
    from chython.containers.bonds import QueryBond
    full = lambda el, st=None, mp=None, h=0, iso=None, chg=0: {'element': el, 'isotope': iso, 'parsed_mapping': mp, 'charge': chg,  # noqa
                                                                'implicit_hydrogens': h, 'stereo': st}
    return [lambda: (0, {'element': 'C'}), lambda: (8, {'element': 'C'}), lambda: (0, full('C', True, 1, 1)), lambda: (8, full('N', None, None, 1)),
            lambda: (1, 1), lambda: (1, 2), lambda: (9, True), lambda: (9, False), lambda: (2, None), lambda: (3, None), lambda: (4, None),
            lambda: (6, 1), lambda: (6, 2), lambda: (12, QueryBond(1, True)), lambda: (10, [1, 2]), lambda: (1, 4)]


def corr_parser(ck):
    from chython.files.daylight.parser import parser
    alpha = token_alphabet()
    # quick: every sequence of <= 3 of the 16 tokens, and every sequence of 4 of the first 9 (plain / aromatic / bracket atom, '=', '/', '(', ')', '.', closure 1)
    lf, ls, nsmall = (3, 4, 9) if ck.tier == 'quick' else (4, 5, 10)
    order = [0, 1, 5, 6, 8, 9, 10, 11, 2, 4, 12, 3, 7, 13, 14, 15]          # the reduced alphabet = the first nsmall of these
    alpha = [alpha[i] for i in order]
    extra = ('Import ListNotations. Open Scope Z_scope. Definition ta : list token := ' + clist(ctoken(f()) for f in alpha) + '. ' +
             f'Definition ta2 : list token := firstn {nsmall} ta.')
    bt = Batches(ck, 'c03parse', extra=extra)
    n = 0
    plan = []
    prefixes = [()]
    for k in range(lf):
        plan += [(p, 'ta', len(alpha)) for p in prefixes]
        if k + 1 < lf:
            prefixes = [p + (i,) for p in prefixes for i in range(len(alpha))]
    prefixes = list(itertools.product(range(nsmall), repeat=lf))
    for k in range(lf, ls):
        plan += [(p, 'ta2', nsmall) for p in prefixes]
        if k + 1 < ls:
            prefixes = [p + (i,) for p in prefixes for i in range(nsmall)]
    for p, taname, width in plan:
        exp = {True: [], False: []}
        ins = []
        for i in range(width):
            seq = p + (i,)
            ins.append(seq)
            for strong in (False, True):
                e = guarded(lambda: parser([alpha[j]() for j in seq], strong), sparsed)
                exp[strong].append(e)
                ck.count(f'parser:' + (e if e.startswith('!') else 'Ok'))
            n += 1
            ck.case(('parse', seq), nontrivial=not exp[False][-1].startswith('!'))
        for strong in (False, True):
            bt.add(f'b_parse {cbool(strong)}', f'(psweep2 ta {taname} {clist(str(j) + "%nat" for j in p)})', ins, exp[strong])
    L = f'{lf} over {len(alpha)} tokens, <= {ls} over {nsmall} tokens'
    # the empty token list
    for strong in (False, True):
        bt.add(f'b_parse {cbool(strong)}', '[[]]', [()], [guarded(lambda: parser([], strong), sparsed)])
    # atoms carrying two or three ring-closure digits closed in every order (too long for the exhaustive space): the neighbour-order table and the
    # reserved slots decide which way a chirality mark is read
    from chython.files.daylight.tokenize import smiles_tokenize
    fam = []
    for s in chiral_family(random.Random(f'{ck.seed}:c03parsefam'), 120 if ck.tier == 'quick' else 800):
        try:
            fam.append(smiles_tokenize(s))
        except Exception:  # noqa
            continue
    for strong in (False, True):
        items = []
        for ts in fam:
            e = guarded(lambda: parser(copy.deepcopy(ts), strong), sparsed)
            items.append((ts, e))
            ck.count(f'parser:' + (e if e.startswith('!') else 'Ok'))
        bt.add_chunked(f'b_parse {cbool(strong)}', items, lambda ts: clist(ctoken(t) for t in ts), chunk=20)
    for ts in fam:
        ck.case(('parse', stokens(ts)), nontrivial=True)
    ck.extra['parser_token_sequences'] = n + 1
    ck.extra['parser_multi_closure_sequences'] = len(fam)
    ok1 = bt.run(f'parser == Coq machine on all {n + 1} token sequences of length <= {L}, and on {len(fam)} tokenised texts with atoms carrying 2-3 ring-closure '
                 f'digits closed in every order, strong and non-strong',
                 single=lambda seq: clist(ctoken(t) for t in seq) if seq and isinstance(seq[0], tuple) else clist(f'nth {j} ta (0, PNone)' for j in seq))
    return ok1


# ----------------------------------------------------------------------------------------------------------------
# 4. postprocess_parsed_molecule / postprocess_parsed_reaction: exhaustive small map lists + random reactions

def czs(l):
    return clist(cz(x) for x in l)


def czss(l):
    return clist(czs(x) for x in l)


def corr_mapping(ck):
    from chython.files._mapping import postprocess_parsed_molecule, postprocess_parsed_reaction
    rng = random.Random(f'{ck.seed}:c03map')
    bt = Batches(ck, 'c03map', extra='Import ListNotations. Open Scope Z_scope.')

    def atoms_of(maps):
        return [{'element': 'C', 'parsed_mapping': (m or None)} if m or rng.random() < 0.5 else {'element': 'C'} for m in maps]

    def mol_run(maps, remap, ignore):
        data = {'atoms': atoms_of(maps), 'log': []}
        postprocess_parsed_molecule(data, remap=remap, ignore=ignore)
        return data['mapping']

    vals = (0, 1, 2, 5)
    L = 4 if ck.tier == 'quick' else 6
    lists = [()]
    for k in range(1, L + 1):
        lists.extend(itertools.product(vals, repeat=k))
    lists += [(0,) * 7, (3, 3, 3, 3), (9, 0, 9, 0, 9), (1, 2, 3, 4, 5, 6), (100, 0, 100, 7)]
    n = 0
    for remap in (False, True):
        for ignore in (False, True):
            items = []
            for maps in lists:
                e = guarded(lambda: mol_run(maps, remap, ignore), szs)
                items.append((maps, e))
                ck.case(('ppmol', maps, remap, ignore), nontrivial=not e.startswith('!'))
                ck.count('pp_molecule:' + ('Ok' if not e.startswith('!') else e))
                n += 1
            bt.add_chunked(f'b_ppmol {cbool(remap)} {cbool(ignore)}', items, czs, chunk=60)

    def rxn_run(r, p, g, remap, ignore):
        data = {k: [{'atoms': atoms_of(m), 'log': []} for m in ms] for k, ms in (('reactants', r), ('products', p), ('reagents', g))}
        data['log'] = []
        postprocess_parsed_reaction(data, remap=remap, ignore=ignore)
        return ''.join(szs(m['mapping']) for m in data['reactants']) + '/' + ''.join(szs(m['mapping']) for m in data['products']) + '/' + \
            ''.join(szs(m['mapping']) for m in data['reagents'])

    small = [()] + [(a,) for a in (0, 1, 2)] + [(a, b) for a in (0, 1, 2) for b in (0, 1, 2)]
    rxns = [([a], [b], [c]) for a in small for b in small for c in small]
    nrand = 300 if ck.tier == 'quick' else 3000
    for _ in range(nrand):
        def role():
            return [tuple(rng.choice((0, 0, 1, 2, 3, 4, 7)) for _ in range(rng.randint(0, 3))) for _ in range(rng.randint(0, 2))]
        rxns.append((role(), role(), role()))
    for remap in (False, True):
        for ignore in (False, True):
            items = []
            for r, p, g in rxns:
                e = guarded(lambda: rxn_run(r, p, g, remap, ignore), str)
                items.append(((r, p, g), e))
                ck.case(('pprxn', repr((r, p, g)), remap, ignore), nontrivial=not e.startswith('!'))
                ck.count('pp_reaction:' + ('Ok' if not e.startswith('!') else e))
                n += 1
            bt.add_chunked(f'b_pprxn {cbool(remap)} {cbool(ignore)}', items, lambda t: f'({czss(t[0])}, {czss(t[1])}, {czss(t[2])})', chunk=60)
    ck.extra['mapping_cases'] = n
    ck.sample({'pp_molecule': [0, 5, 0, 5, 2], 'ignore': True, 'numbers': guarded(lambda: mol_run((0, 5, 0, 5, 2), False, True), szs)})
    return bt.run(f'postprocess_parsed_molecule / _reaction == Coq model on {n} map configurations (exhaustive small + random), all flag combinations',
                  single=lambda t: czs(t) if not (t and isinstance(t[0], list)) else f'({czss(t[0])}, {czss(t[1])}, {czss(t[2])})')


# ----------------------------------------------------------------------------------------------------------------
# 5. smiles(): the record handed to create_molecule and the structure built, against Reader.read

ORG = ['C', 'C', 'C', 'C', 'N', 'O', 'S', 'P', 'F', 'Cl', 'Br', 'I', 'B', 'c', 'c', 'n', 'o', 's']
BRK = ['[13CH3]', '[NH4+]', '[O-]', '[Fe+2]', '[C@@H]', '[C@H]', '[C@]', '[C@@]', '[Na+]', '[CH2:3]', '[2H]', '[Se]', '[NH3+]', '[N+]', '[CH:1]',
       '[S-]', '[O--]', '[Cu++]', '[14C]', '[OH-]', '[Si]', '[CH3:12]', '[nH]', '[se]', '[C:3]', '[Zn+2]', '[H]', '[N-:2]', '[C]', '[te]']
BND = ['', '', '', '', '', '-', '=', '#', '/', '\\', '=', ':', '/', '\\']


def ring_digits(k):
    return str(k) if k < 10 else '%' + str(k)


def gen_smiles(rng, maxn=12):
    """a mostly valid SMILES using every construct of the language: brackets, branches, closures with bonds, dots, direction marks"""
    n = rng.randint(1, maxn)
    s = ''
    depth = 0
    open_r = []
    nxt = rng.choice((1, 1, 1, 8, 9, 10))
    for i in range(n):
        if i:
            x = rng.random()
            if x < 0.06:
                s += '.'
            elif x < 0.25:
                s += '(' + rng.choice(BND)
                depth += 1
            elif x < 0.40 and depth:
                s += ')' + rng.choice(BND)
                depth -= 1
            else:
                s += rng.choice(BND)
        s += rng.choice(BRK) if rng.random() < 0.25 else rng.choice(ORG)
        y = rng.random()
        if y < 0.22:
            s += rng.choice(('', '', '', '=', '/', '\\', '-')) + ring_digits(nxt)
            open_r.append(nxt)
            nxt += 1
        elif y < 0.5 and open_r:
            s += rng.choice(('', '', '', '', '/', '\\', '=')) + ring_digits(open_r.pop(rng.randrange(len(open_r))))
    s += ')' * depth
    for k in open_r:
        s += rng.choice(ORG[:13]) + ring_digits(k)
    return s


def gen_reaction(rng):
    def side():
        return '.'.join(gen_smiles(rng, 5) for _ in range(rng.randint(0, 3)))
    s = side() + '>' + (side() if rng.random() < 0.4 else '') + '>' + side()
    x = rng.random()
    if x < 0.5:
        parts = []
        if rng.random() < 0.7:
            parts.append('f:' + ','.join('.'.join(str(rng.randint(0, 5)) for _ in range(rng.randint(2, 3))) for _ in range(rng.randint(1, 2))))
        if rng.random() < 0.5:
            parts.append('^' + str(rng.randint(1, 7)) + ':' + ','.join(str(rng.randint(0, 9)) for _ in range(rng.randint(1, 3))))
        s += ' |' + ','.join(parts) + '|'
    return s


def corrupt(rng, s, alpha=ALPHA + ' |^f'):
    s = list(s)
    for _ in range(rng.randint(1, 2)):
        k = rng.random()
        p = rng.randrange(len(s) + 1)
        if k < 0.4 or not s:
            s.insert(p, rng.choice(alpha))
        elif k < 0.7:
            del s[min(p, len(s) - 1)]
        else:
            s[min(p, len(s) - 1)] = rng.choice(alpha)
    return ''.join(s)


class Hook:
    """wraps create_molecule (as seen by smiles() and by create_reaction): records the record handed over and the molecule built"""

    def __init__(self):
        import sys
        import chython  # noqa
        cv = sys.modules['chython.files._convert']
        sm = sys.modules['chython.files.daylight.smiles']     # (the package attribute of that name is the function)
        assert hasattr(sm, 'create_molecule') and hasattr(cv, 'create_molecule')
        self.cv, self.sm = cv, sm
        self.orig = cv.create_molecule
        self.calls = []

    def wrapper(self, data, **kw):
        snap = {'mapping': list(data['mapping']), 'atoms': copy.deepcopy(data['atoms']), 'bonds': list(data['bonds'])}
        self.calls.append(snap)
        try:
            mol = self.orig(data, **kw)
        except Exception as e:  # noqa
            snap['raised'] = e
            raise
        snap['mol'] = mol
        return mol

    def __enter__(self):
        self.cv.create_molecule = self.wrapper
        self.sm.create_molecule = self.wrapper
        return self

    def __exit__(self, *a):
        self.cv.create_molecule = self.orig
        self.sm.create_molecule = self.orig


def smol(snap):
    """text of a built molecule: atoms in insertion order (final element / isotope / charge / parsed map, parsed hydrogen count and
    CX radical flag from the record), each with its neighbour dictionary in insertion order"""
    mol = snap['mol']
    rec = {}
    for n, a in zip(snap['mapping'], snap['atoms']):
        rec[n] = a
    out = []
    for n, a in mol._atoms.items():
        r = rec[n]
        txt = ('{' + a.atomic_symbol + '|' + sopt(sz, a.isotope) + '|' + sopt(sz, a._parsed_mapping) + '|' + sz(a.charge) + '|' +
               sopt(sz, r.get('implicit_hydrogens')) + '|-}' + ('*' if r.get('is_radical') else ''))
        out.append(sz(n) + '=' + txt + '[' + '.'.join(sz(m) + ':' + sz(int(b)) for m, b in mol._bonds[n].items()) + ']')
    rz = set(mol.meta.get('chython_radicalized_atoms') or ()) if mol.meta else set()
    mm = (mol.meta.get('chython_implicit_mismatch') or {}) if mol.meta else {}
    hs = [sz(n) + ':' + sopt(sz, a.implicit_hydrogens) + ('*' if a.is_radical else '') + ('r' if n in rz else '') +
          ('m' + sz(mm[n]) if n in mm else '') for n, a in mol._atoms.items()]
    return ','.join(out) + ' # ' + ','.join(hs)


def observe(hook, s, ignore, remap, **kw):
    """-> (text, exception or None): structure, hydrogen recheck outcome of every atom, or the exception class"""
    from chython import smiles
    from chython.containers import ReactionContainer
    hook.calls = []
    try:
        res = smiles(s, ignore=ignore, remap=remap, **kw)
    except Exception as e:  # noqa
        return sexn(e), e
    done = [c for c in hook.calls if 'mol' in c]
    if isinstance(res, ReactionContainer):
        mols = list(res.reactants) + list(res.products) + list(res.reagents)
        if len(mols) != len(done) or any(m is not c['mol'] for m, c in zip(mols, done)):
            return '?reaction molecules are not the created ones', None
        k1, k2 = len(res.reactants), len(res.reactants) + len(res.products)
        return 'R ' + ' + '.join(smol(c) for c in done[:k1]) + ' / ' + ' + '.join(smol(c) for c in done[k2:]) + ' / ' + \
            ' + '.join(smol(c) for c in done[k1:k2]), None
    if len(done) != 1 or done[0]['mol'] is not res:
        return '?molecule is not the created one', None
    return 'M ' + smol(done[0]), None


def reader_inputs(ck):
    rng = random.Random(f'{ck.seed}:c03read')
    quick = ck.tier == 'quick'
    out = []
    small_alpha = 'Cc1(=.>[;!@'
    for L in (1, 2, 3) if quick else (1, 2, 3, 4):
        out += [('small', ''.join(t)) for t in itertools.product(small_alpha, repeat=L)]
    fixed = ['', ' ', '  ', 'C C', 'C\tC |^1:0|', ' C', 'C ', 'C\n', 'C |', 'C ||', 'C |^1:0|', 'C |^1:1|', 'C |^1:0,0|', 'CC |^1:0,1|', 'CC |^2:1,^1:0|', 'CC |^8:0|',
             'C.C |f:0.1|', 'C |f:0.1,^1:0|', 'C>>C |^1:0,1|', 'C>>C |^1:2|', 'C.O>> |f:0.1|', 'C.O>N> |f:0.1|', 'C.O>>N |f:0.1|', 'C.C.C>> |f:0.5|',
             'C.C>C>C |f:0.2|', 'C>C.C>C |f:1.2|', 'C>C.C>C.O |f:1.2,3.4|', 'C>C.C> |f:1.2|', 'C>C.C> |f:0.1|', 'C.C.C>>C.C |f:0.1,3.4|',
             'C.C.C>>C.C |f:0.1,1.2|', 'C.C.C>>C.C |f:0.2|', 'C.C.C>>C.C |f:2.0|', 'C.C.C>>C.C |f:0.1.2|', '>>', '>', '>>>', 'C>>', '>>C', '>C>', 'C.>>', '.C>>',
             'C..C>>C', 'C>>C>', '[CH3:1][CH3:1]', '[CH3:1][CH3:2]>>[CH3:2][CH3:1]', '[CH3:1]C>>[CH3:1].[OH2:1]', '[C:1]>[O:1]>[C:1]', '[C:1]>[O:1].[N:1]>[C:2]',
             '[C:5]C[C:5]', '[C:0]', '[C:0001]', '[C:9999]C', 'C11', 'C12CC12', 'C1CC1', 'C%10CC%10', 'C=1CC1', 'C=1CC=1', 'C=1CC-1', 'C1CC=1', 'C/1CC1',
             'C/1CC\\1', 'C1CC/1', 'C=1CC/1', 'C/1CC=1', 'c1ccccc1', 'c1ccccc1C', 'c1ccccc1c2ccccc2', 'c1ccccc1-c2ccccc2', 'c:c', 'cc', 'C:C', 'F/C=C/F',
             'F/C=C\\F', 'F\\C=C/1.F1', 'C(/F)=C/F', 'C(F)(Cl)(Br)I', '[C@](F)(Cl)(Br)I', '[C@@H](F)(Cl)Br', 'N[C@@H](C)C(=O)O', '[13CH4]', '[999C]', '[1C]',
             '[Zy]', '[Uuo]', '[Cl-]', '[Fe+++]', '[O-2]', '[NH4+]', '[2H]', '[H][H]', '[H]', '[HH]', '(C)C', '(C)', '((C))', 'C(C)(C)', 'C((C))', 'C(C', 'CC)',
             'C(=O)', 'C()C', 'C(.C)C', 'C.(C)', 'C(.C)', 'C=.C', 'C.=C', 'C==C', 'C=', '=C', 'C-;@C', 'C!~C', ';', ';@', 'C!', 'C-,=C', 'C~C', 'C$C', '*', 'C*',
             '[*]', 'C1.C1', 'C1C.C1', 'C.1C', 'C%', 'C%1', 'C%1C%1', 'C0', 'C%00', 'Cl', 'Br', 'ClBr', 'Bl', 'Cr', '[Cr]', 'Sc', 'Sn', 'Cn', 'cn', 'B', 'b1ccccc1',
             'C\xb2', 'C\xb9CC\xb9', 'C1CC1 junk', 'C1CC1\t|^1:0|\textra',
             '[C+-]', '[C-+]', '[NH3+-]', 'CC(=O)[O-+]', 'c1cc[n+-]cc1', '[OH-+]>>[OH2]', '[C+5]', '[C+0]', '[C++++]', '[C+++++]', '[C-4]', '[C--]',
             '[CH4:1]>O[Na:2]>[CH4:1]', 'CC>[Na+:3].[OH-]>CC', '[CH3:1][OH:2]>[Na+:3].[OH-]>[CH3:1][OH:2]', '[CH3:1]Br>CC[O-:2].[Na+]>[CH3:1]O',
             '[CH3:2]O>[Na+:1].[Cl-:7]>[CH3:2]O', '>[Na+:4]>C', 'C>[Na+:4]>',
             'C.O.N.S.C.O.N.S.C.O.[Na+].[Cl-]>>CC |f:2.3,10.11|', 'C.O.N.S.C.O.N.S.C.O.[Na+].[Cl-]>>CC |f:0.1,10.11|',
             'C.O>[Na+].[Cl-]>C.O.N.S.C.O.N.S.CC.[K+].[Br-] |f:2.3,11.12|', 'C.O.N.S.C.O.N.S.C.O.[Na+].[Cl-]>>CC |f:10.11,0.1|',
             'C.O.N.S.C.O.N.S.C.O.[Na+].[Cl-]>>CC |f:0.1,2.10,3.11|', 'C.O.N.S.C.O.N.S.C.O.[Na+].[Cl-]>>CC |f:0.10.11|', 'C.O>>N.S |f:0.1,1.2|',
             'C.C.C.C.C.C.C.C.C.C.C.C>> |f:0.11,1.10,^1:3|', 'C.C.C.C.C.C.C.C.C.C.C.C>> |^1:11,f:10.11|']
    out += [('fixed', s) for s in fixed]
    lip = corpus.sample(corpus.lipo(), 120 if quick else 1200, ck.seed, 'c03read')
    out += [('corpus', s) for s in lip]
    out += [('corpus-edit', corrupt(rng, s)) for s in lip[: (80 if quick else 800)]]
    ngen = 350 if quick else 4000
    gen = [gen_smiles(rng) for _ in range(ngen)]
    out += [('generated', s) for s in gen]
    out += [('generated-edit', corrupt(rng, s)) for s in gen[: ngen // 2]]
    out += [('generated-cx', s + rng.choice([' |^1:0|', ' |^1:0,2|', ' |^3:1,^1:0|', ' |^1:40|', ' |f:0.1|', ' |', ' ||', ' x'])) for s in gen[: ngen // 6]]
    nrx = 200 if quick else 2000
    rx = [gen_reaction(rng) for _ in range(nrx)]
    out += [('reaction', s) for s in rx]
    out += [('reaction-edit', corrupt(rng, s)) for s in rx[: nrx // 2]]
    out += [('cx-radical', gen_cx_radical(rng)) for _ in range(60 if quick else 800)]
    lex = lexeme_texts('quick', small=True)
    out += [('lexemes', s) for s in (rng.sample(lex, 200) if quick else lex)]
    seen, uniq = set(), []
    for k, s in out:
        if s not in seen and all(ord(c) < 256 for c in s):
            seen.add(s)
            uniq.append((k, s))
    return uniq


HYD_ELEMENTS = ['B', 'C', 'N', 'O', 'F', 'Si', 'P', 'S', 'Cl', 'Br', 'I', 'Al', 'Fe', 'Na', 'Se', 'H']


def hydrogen_inputs(ck):
    """bracket atoms with every written hydrogen count / charge in typical environments (where the recheck decides)"""
    out = []
    for el in HYD_ELEMENTS:
        for h in ('', 'H', 'H2', 'H3', 'H4'):
            for q in ('', '+', '-'):
                a = f'[{el}{h}{q}]'
                out += [a, 'C' + a, 'C' + a + 'C', a + '=O', 'C' + a + '(C)C', 'c1cc' + a.lower().replace('h', 'H') + 'cc1' if el in 'BCNOPS' and len(el) == 1 else a + '#N']
                if el in 'BCNP' and len(el) == 1 and h in ('', 'H'):
                    out += ['c1cc' + a.lower().replace('h', 'H') + '(C)cc1', 'c1cc' + a.lower().replace('h', 'H') + '(~C)cc1', 'c1c' + a.lower().replace('h', 'H') + '2ccccc2cc1']
    out += ['c1cc[c]cc1', 'c1cc[cH]cc1', 'c1cc[n]cc1', 'c1cc[n+]cc1', '[nH]1cccc1', 'c1c[nH]cc1', 'n1cccc1', 'c1cc[b]cc1', 'c1cc[p]cc1', 'c1cc[cH2]cc1',
            'c1cc[c-]cc1', 'c1cc[c]cc1 |^1:3|', 'c1cc[cH]cc1 |^1:3|', 'C[CH2] |^1:1|', 'C[CH2]', 'C[CH] |^1:1|', '[CH3] |^1:0|', '[CH3]', '[CH2]', '[CH]', '[C]',
            '[CH4]', 'C[C](C)(C)C', 'C[C](C)C', '[O]', '[OH]', '[OH2]', '[OH3]', '[OH3+]', '[NH4]', '[NH4+]', '[NH3]', '[N]', 'C[N]C', 'C[NH]C', 'C[N+](C)(C)C',
            'C[N](C)(C)C', '[Fe]', '[FeH2]', '[Na]', '[NaH]', '[Cl]', '[ClH]', '[ClH2]', '[PH5]'.replace('H5', 'H4'), '[SH2]', '[SH3+]', '[SH]', '[S]', 'O=[S](=O)(C)C',
            '[CH3].[CH3]>>[CH3][CH3]', '[CH2]>>[CH4]', '[OH].[NH4]>>O |^1:0|', 'C[CH2]>[O]>C[CH]C |^1:1,4|', '[2H][CH2]', '[13CH3]', '[13CH5]'.replace('H5', 'H4')]
    return sorted(set(out))


FLAG_SETS = [  # (ignore, remap, keep_implicit, ignore_aromatic_radicals, ignore_carbon_radicals)
    (True, False, False, True, False), (False, True, False, True, False)]
FLAG_SETS_H = [(True, False, True, True, False), (True, False, False, False, False), (True, False, False, True, True),
               (False, False, False, False, True), (False, False, True, False, False)]


def corr_reader(ck):
    inputs = reader_inputs(ck)
    hyd = [('hydrogen', s) for s in hydrogen_inputs(ck)]
    bt = Batches(ck, 'c03read')
    n = 0
    by_text = {}
    with Hook() as hook:
        for flags in FLAG_SETS + FLAG_SETS_H:
            ignore, remap, ki, iar, icr = flags
            items = []
            # the non-default switches only matter where a bracket atom is written
            if flags in FLAG_SETS:
                pool = inputs + (hyd if ck.tier != 'quick' else hyd[FLAG_SETS.index(flags)::2])
            else:
                k0 = FLAG_SETS_H.index(flags)
                step = 5 if ck.tier == 'quick' else 1
                pool = hyd[k0 % step::step] + [(k, s) for k, s in inputs if '[' in s and k in ('generated', 'fixed', 'reaction', 'generated-cx')][: (120 if ck.tier == 'quick' else 800)]
            for kind, s in pool:
                txt, exc = observe(hook, s, ignore, remap, keep_implicit=ki, ignore_aromatic_radicals=iar, ignore_carbon_radicals=icr)
                if exc is not None and not isinstance(exc, ValueError):
                    report_crash(ck, s, {'ignore': ignore, 'remap': remap, 'keep_implicit': ki, 'ignore_aromatic_radicals': iar,
                                         'ignore_carbon_radicals': icr}, exc)
                items.append((s, txt))
                n += 1
                ck.case(('read', s, flags), nontrivial=not txt.startswith('!'))
                ck.count(f'reader:{kind}:' + ('Ok' if not txt.startswith('!') else txt))
                if 'm' in txt.split(' # ')[-1] or 'r' in txt.split(' # ')[-1]:
                    ck.count('reader:recheck decided (mismatch / radicalized)')
            by_text[flags] = items
            bt.add_chunked(f'b_readh {cbool(ignore)} {cbool(ki)} {cbool(iar)} {cbool(icr)} {cbool(remap)}', items, cstr, chunk=25)
    skipped = 0
    ck.extra['reader_strings'] = n
    ck.extra['reader_not_compared'] = skipped
    ck.sample({'smiles': by_text[FLAG_SETS[0]][-1][0], 'text': by_text[FLAG_SETS[0]][-1][1]})
    saved = coqcases_imports[0]
    coqcases_imports[0] = 'Tokenize Parser Reader Recheck'
    try:
        ok = bt.run(f'smiles() (record handed to create_molecule; atoms, neighbour order, bond orders built; final implicit hydrogens, radical flags, '
                    f'radicalized atoms and hydrogen mismatches of the recheck; or exception class) == Coq Recheck.read_full on {n} (text, flags) cases: '
                    f'all short texts, fixed boundary cases, corpus, grammar-generated, reactions with CX blocks, single-edit corruptions, bracket atoms with '
                    f'every hydrogen count / charge of 16 elements in 6 environments, 7 flag settings', single=cstr)
    finally:
        coqcases_imports[0] = saved
    if not ok:
        # directed search on and around what disagreed
        bad = [c for b in ck.broken for c in b[2]]
        seeds = []
        for c in bad:
            m = re.match(r"\('((?:[^'\\]|\\.)*)', ", c)
            if m:
                try:
                    seeds.append(bytes(m.group(1), 'latin-1').decode('unicode_escape'))
                except Exception:  # noqa
                    pass
        directed_search(ck, seeds or [s for _, s in inputs[:200]])
    return ok


# ----------------------------------------------------------------------------------------------------------------
# 5b. read_spell_denote: generated abstract syntax trees; Coq `denote` / `spell` against the real parser on the spelled tokens,
#     and the graph the tree means (computed here, independently) against smiles() and RDKit on the spelled text

AST_ATOMS = ['C', 'C', 'C', 'N', 'O', 'S', 'Cl', 'F', 'c', 'c', 'n', 'o', '[nH]', '[NH4+]', '[13CH3]', '[O-]', '[C@H]', '[C@@]', '[C:2]', '[Fe+2]', '[se]', '[2H]']
AST_BONDS = [(None, ''), (None, ''), (None, ''), ((1, 1), '-'), ((1, 2), '='), ((1, 3), '#'), ((1, 4), ':'), ((9, True), '/'), ((9, False), '\\'), ((4, None), '.')]


def ast_atom(text):
    from chython.files.daylight.tokenize import smiles_tokenize
    return smiles_tokenize(text)[0]


def gen_ast(rng, maxn=9, bad=0.08):
    """tree = [atom text, rings [(bond, k)], kids [(bond, tree)]]; ring digits are put on random pairs of nodes (preorder), a few
    are left unpaired / given clashing bonds on purpose"""
    n = rng.randint(1, maxn)
    nodes = [[rng.choice(AST_ATOMS), [], []]]
    for _ in range(n - 1):
        parent = rng.choice(nodes[-3:]) if rng.random() < 0.7 else rng.choice(nodes)
        node = [rng.choice(AST_ATOMS), [], []]
        b = rng.choice(AST_BONDS)
        parent[2].insert(rng.randint(0, len(parent[2])), (b, node))
        nodes.append(node)
    pre = []

    def walk(t):
        pre.append(t)
        for _, c in t[2]:
            walk(c)
    walk(nodes[0])
    k = rng.choice((1, 1, 1, 9, 10))
    for _ in range(rng.choice((0, 0, 1, 1, 2, 3))):
        if len(pre) < 2:
            break
        i, j = sorted(rng.sample(range(len(pre)), 2))
        b1 = rng.choice(AST_BONDS[:9]) if rng.random() < 0.35 else AST_BONDS[0]
        b2 = rng.choice(AST_BONDS[:9]) if rng.random() < 0.25 else AST_BONDS[0]
        pre[i][1].append((b1, k))
        if rng.random() > bad:
            pre[j][1].append((b2, k))
        k += 1
    if rng.random() < bad:
        rng.choice(pre)[1].append((AST_BONDS[9], 5))      # dot before a ring digit
    return nodes[0]


def ast_tokens(t):
    out = [ast_atom(t[0])]
    for (b, _), k in t[1]:
        if b is not None:
            out.append(b)
        out.append((6, k))
    kids = t[2]
    for i, ((b, _), c) in enumerate(kids):
        sub = ([b] if b is not None else []) + ast_tokens(c)
        out += sub if i == len(kids) - 1 else [(2, None)] + sub + [(3, None)]
    return out


def ast_text(t):
    s = t[0] + ''.join(bt + ring_digits(k) for (_, bt), k in t[1])
    kids = t[2]
    for i, ((_, bt), c) in enumerate(kids):
        sub = bt + ast_text(c)
        s += sub if i == len(kids) - 1 else '(' + sub + ')'
    return s


def model_atom_text(tok):
    """the text Model.SmilesText writes for an atom token (port of atom_chars / body_text)"""
    ty, d = tok
    el = d['element'].lower() if ty == 8 else d['element']
    if set(d) == {'element'}:
        return el
    st = d.get('stereo')
    h = d.get('implicit_hydrogens') or 0
    q = d.get('charge', 0)
    return ('[' + ('' if d.get('isotope') is None else str(d['isotope'])) + el + ('' if st is None else '@' if st else '@@') +
            ('' if h == 0 else 'H' if h == 1 else 'H' + str(h)) + ('' if q == 0 else '+' + str(q) if q > 0 else '-' + str(-q)) +
            ('' if d.get('parsed_mapping') is None else ':' + str(d['parsed_mapping'])) + ']')


def model_text(t):
    s = model_atom_text(ast_atom(t[0])) + ''.join(bt + ring_digits(k) for (_, bt), k in t[1])
    kids = t[2]
    for i, ((_, bt), c) in enumerate(kids):
        sub = bt + model_text(c)
        s += sub if i == len(kids) - 1 else '(' + sub + ')'
    return s


def ast_coq(t):
    def cb(b):
        return 'None' if b is None else f'(Some {ctoken(b)})'
    ty, a = ast_atom(t[0])
    at = ctoken((ty, a))          # "(ty, PAtom (mkAt ...))"
    at = at[at.index('PAtom') + 6:-1]
    return (f'(Node {cz(ty)} {at} {clist(f"({cb(b)}, {cz(k)})" for (b, _), k in t[1])} '
            f'{clist(f"({cb(b)}, {ast_coq(c)})" for (b, _), c in t[2])})')


def ast_graph(t):
    """the graph the tree means, computed without any parser: atoms in preorder; an edge from every node to its parent unless the
    dot is written; ring digits pair up in preorder; order = the written symbol, else aromatic between two aromatic atoms, else single.
    None when the tree has no meaning (unpaired digit, clashing symbols, digit after a dot, loop, double edge)"""
    atoms, edges, openr = [], {}, {}

    def order_of(b, i, j):
        if b is not None and b[0] == 1:
            return b[1]
        return 4 if atoms[i][0] == atoms[j][0] == 8 else 1

    def add(i, j, o):
        key = (min(i, j), max(i, j))
        if i == j or key in edges:
            raise ValueError
        edges[key] = o

    def walk(t, parent, b):
        me = len(atoms)
        atoms.append(ast_atom(t[0]))
        if parent is not None and not (b is not None and b[0] == 4):
            add(me, parent, order_of(b, me, parent))
        for (rb, _), k in t[1]:
            if rb is not None and rb[0] == 4:
                raise ValueError
            if k in openr:
                i, ob = openr.pop(k)
                e1 = ob[1] if ob is not None and ob[0] == 1 else None
                e2 = rb[1] if rb is not None and rb[0] == 1 else None
                if e1 is not None and e2 is not None and e1 != e2:
                    raise ValueError
                if (e1 or e2) and (e1 or e2) != 1 and ((ob is not None and ob[0] == 9) or (rb is not None and rb[0] == 9)):
                    raise ValueError
                add(me, i, (e1 or e2) if (e1 or e2) else order_of(None, me, i))
            else:
                openr[k] = (me, rb)
        for (cb, _), c in t[2]:
            walk(c, me, cb)
    try:
        walk(t, None, None)
    except ValueError:
        return None
    if openr:
        return None
    return [a[1]['element'] for a in atoms], edges


def corr_denote(ck):
    from chython.files.daylight.parser import parser
    from chython.files.daylight.tokenize import smiles_tokenize
    from chython.containers import MoleculeContainer
    rng = random.Random(f'{ck.seed}:c03ast')
    n = 500 if ck.tier == 'quick' else 6000
    trees = [gen_ast(rng) for _ in range(n)]
    trees += [['C', [], []], ['C', [((None, ''), 1)], []], ['C', [((None, ''), 1), ((None, ''), 1)], []],
              ['c', [((None, ''), 1)], [((None, ''), ['c', [], [((None, ''), ['c', [((None, ''), 1)], []])]])]],
              ['C', [], [(((4, None), '.'), ['C', [], []]), (((1, 2), '='), ['O', [], []])]]]
    bt = Batches(ck, 'c03ast', extra='Import ListNotations. Open Scope Z_scope.')
    items = {True: [], False: []}
    spelled = []
    n_tok_mismatch = 0
    for t in trees:
        toks = ast_tokens(t)
        text = ast_text(t)
        # the spelling in tokens is what smiles_tokenize reads from the spelling in characters
        if guarded(lambda: smiles_tokenize(text), stokens) != stokens(ast_tokens(t)):
            n_tok_mismatch += 1
            ck.unchecked('ast spelling: tokens of the text differ from the token spelling', text)
        spelled.append((t, stokens(ast_tokens(t))))
        okish = False
        for strong in (True, False):
            e = guarded(lambda: parser(ast_tokens(t), strong), sparsed)
            items[strong].append((t, e))
            okish = okish or not e.startswith('!')
            ck.count('denote:' + ('Ok' if not e.startswith('!') else e))
        ck.case(('ast', text), nontrivial=okish)
        # the meaning of the tree, computed independently, against the real reader and RDKit
        g = ast_graph(t)
        mol, exc = classify(text)
        if exc is not None and not isinstance(exc, ValueError):
            report_crash(ck, text, {}, exc)
        if g is not None and '[2H]' not in text:
            if not isinstance(mol, MoleculeContainer):
                if True:
                    ck.counterexample(f'ast-rejected:{text}', 'the spelling of a meaningful syntax tree is rejected', {'smiles': text},
                                      f'{type(exc).__name__}: {exc}', 'the molecule the tree denotes', 'structural denotation of the generated tree',
                                      replay_py=f"from chython import smiles\nprint(smiles({text!r}))")
            else:
                els, edges = g
                got_els = [a.atomic_symbol for _, a in mol.atoms()]
                _, got_edges = chython_graph(mol)
                if got_els != els or got_edges != edges:
                    ck.counterexample(f'ast-graph:{text}', 'smiles() builds another graph than the syntax tree denotes', {'smiles': text},
                                      {'atoms': got_els, 'bonds': sorted(got_edges.items())}, {'atoms': els, 'bonds': sorted(edges.items())},
                                      'structural denotation of the generated tree',
                                      replay_py=f"from chython import smiles\nm = smiles({text!r})\nprint([(n, k, int(b)) for n, k, b in m.bonds()])")
            rdkit_compare(ck, text, 'ast')
        elif g is None and isinstance(mol, MoleculeContainer) and not mol.meta.get('chython_parsing_log'):
            ck.counterexample(f'ast-accepted:{text}', 'the spelling of a syntax tree without meaning (unpaired / clashing ring digit) is accepted',
                              {'smiles': text}, str(mol), 'IncorrectSmiles', 'structural denotation of the generated tree',
                              replay_py=f"from chython import smiles\nprint(smiles({text!r}))")
    for strong in (True, False):
        bt.add_chunked(f'b_denote {cbool(strong)}', items[strong], ast_coq, chunk=20)
    bt.add_chunked('b_spell', spelled, ast_coq, chunk=20)
    # the character level: the text Model.SmilesText writes for the tree; the real tokenizer must read the tree's tokens from it
    texts = []
    for t in trees:
        mt = model_text(t)
        texts.append((t, mt))
        if guarded(lambda: smiles_tokenize(mt), stokens) != stokens(ast_tokens(t)):
            ck.unchecked('model text of a tree: smiles_tokenize does not read the tree\'s tokens from it', mt)
    bt.add_chunked('b_text', texts, ast_coq, chunk=20)
    # the machine-free graph of the tree (SmilesGraph.denote_graph) against atoms and bonds of the real parser's record
    for strong in (True, False):
        bt.add_chunked(f'b_dgraph {cbool(strong)}', [(t, '-' if e.startswith('!') else ';'.join(e.split(';')[:2])) for t, e in items[strong]], ast_coq, chunk=20)
    # ... and the machine-free neighbour-order table (SmilesOrder.denote_order) against the `order` dictionary of the real record
    bt.add_chunked('b_order', [(t, e.split(';')[2]) for t, e in items[False] if not e.startswith('!')], ast_coq, chunk=20)
    ck.extra['ast_trees'] = len(trees)
    ck.sample({'ast_text': ast_text(trees[0]), 'denote': items[True][0][1]})
    saved = coqcases_imports[0]
    coqcases_imports[0] = 'Tokenize Parser Reader SmilesAst SmilesGraph SmilesOrder SmilesText'
    try:
        return bt.run(f'parser(spelled tokens) == Coq denote(tree), its atoms, bonds and neighbour-order table == Coq denote_graph(tree) / denote_order(tree) (machine-free), spelling == Coq spell(tree), text == Coq spell_text(tree) (and the real tokenizer reads the tokens back from it) on {len(trees)} generated syntax trees, both modes',
                      single=ast_coq)
    finally:
        coqcases_imports[0] = saved


# ----------------------------------------------------------------------------------------------------------------
# 6. search on the real code: exception classes on a malformed stream; RDKit reading of the same text

def classify(s, **kw):
    from chython import smiles
    try:
        return smiles(s, **kw), None
    except Exception as e:  # noqa
        return None, e


def minimise(s, pred):
    """greedy deletion of characters while pred stays true"""
    changed = True
    while changed and len(s) > 1:
        changed = False
        for i in range(len(s)):
            t = s[:i] + s[i + 1:]
            if t and pred(t):
                s = t
                changed = True
                break
    return s


def crash_site(exc):
    """file:function of the innermost chython frame of the traceback (a stable name for the defect)"""
    import os
    site = 'unknown'
    tb = exc.__traceback__
    while tb is not None:
        f = tb.tb_frame.f_code
        if '/chython/' in f.co_filename:
            site = os.path.basename(f.co_filename) + ':' + f.co_name
        tb = tb.tb_next
    return site


def report_crash(ck, s, kw, exc):
    name = type(exc).__name__
    site = crash_site(exc)

    def pred(t):
        _, e = classify(t, **kw)
        return e is not None and type(e).__name__ == name and not isinstance(e, ValueError)
    m = minimise(s, pred)
    ck.counterexample(f'exception-class:{name}:{site}', f'smiles() raises {name} (not a ValueError) in {site}',
                      {'smiles': m, 'found_as': s, 'kwargs': kw}, f'{name}: {exc}', 'IncorrectSmiles / ValueError, or a molecule', 'exception classification',
                      replay_py=f"from chython import smiles\ntry:\n    print(smiles({m!r}, **{kw!r}))\nexcept Exception as e:\n    print(type(e).__mro__, e)")


def rdkit_graph(s):
    """RDKit's reading of one molecule text: (atoms [(Z, charge, isotope, map, totalH or None)], bonds {(i, j): order 1/2/3/4}) or None"""
    from rdkit import Chem
    raw = Chem.MolFromSmiles(s, sanitize=False)
    if raw is None:
        return None
    san = Chem.MolFromSmiles(s)
    order = {Chem.BondType.SINGLE: 1, Chem.BondType.DOUBLE: 2, Chem.BondType.TRIPLE: 3, Chem.BondType.AROMATIC: 4}
    bonds = {}
    for b in raw.GetBonds():
        if b.GetBondType() not in order:
            return None
        i, j = b.GetBeginAtomIdx(), b.GetEndAtomIdx()
        bonds[(min(i, j), max(i, j))] = order[b.GetBondType()]
    atoms = []
    for a in raw.GetAtoms():
        h = san.GetAtomWithIdx(a.GetIdx()).GetTotalNumHs(includeNeighbors=True) if san is not None else None
        atoms.append((a.GetAtomicNum(), a.GetFormalCharge(), a.GetIsotope() or None, a.GetAtomMapNum(), h))
    return atoms, bonds, san is not None


def chython_graph(mol):
    idx = {n: i for i, n in enumerate(mol._atoms)}
    atoms = []
    for n, a in mol._atoms.items():
        hs = None if a.implicit_hydrogens is None else a.implicit_hydrogens + sum(1 for m in mol._bonds[n] if mol._atoms[m].atomic_number == 1)
        atoms.append((a.atomic_number, a.charge, a.isotope, n, hs))
    bonds = {}
    for n, ms in mol._bonds.items():
        for m, b in ms.items():
            i, j = idx[n], idx[m]
            bonds[(min(i, j), max(i, j))] = int(b)
    return atoms, bonds


TOKEN_RE = re.compile(r'\[[^\]]*\]|Cl|Br|[BCNOPSFIcnopsb]|%[0-9][0-9]|%[0-9]$|[0-9]|\.')


def bond_count_oracle(ck, s, mol):
    """independent of model and RDKit: a molecule text with a atoms, d dots and r ring-closure digits denotes a graph with
    a - 1 - d + r / 2 bonds (every atom but the first of a piece is joined to one earlier atom, every closure pair adds one)"""
    toks = TOKEN_RE.findall(s)
    a = sum(1 for t in toks if t[0] == '[' or t[0].isalpha())
    d = toks.count('.')
    r = sum(1 for t in toks if t[0] == '%' or t.isdigit())
    want = a - 1 - d + r // 2
    got = sum(len(v) for v in mol._bonds.values()) // 2
    ck.case(('bondcount', s), nontrivial=got > 0)
    if len(mol._atoms) != a or got != want or r % 2:
        ck.counterexample(f'bond-count:{s}', 'the molecule built has another number of atoms / bonds than the text spells', {'smiles': s},
                          {'atoms': len(mol._atoms), 'bonds': got}, {'atoms': a, 'bonds': want, 'closure digits': r}, 'counting atoms, dots and closure digits',
                          replay_py=f"from chython import smiles\nm = smiles({s!r})\nprint(len(m), sum(len(v) for v in m._bonds.values()) // 2)")


BRACKET_RE = re.compile(r'\[(\d{1,3})?([A-Z][a-z]?|c|n|o|p|s|b|se|as|te)(@@?)?(H[1-4]?)?(\+{1,4}|-{1,4}|[+-][1-4])?(:\d+)?\]')


def written_charge(field):
    """the charge a SMILES charge field denotes (sign and digit, or the sign repeated)"""
    if not field:
        return 0
    sign = 1 if field[0] == '+' else -1
    return sign * (int(field[1]) if len(field) == 2 and field[1].isdigit() else len(field))


def bracket_oracle(ck, s, mol):
    """independent of model, tables and RDKit: every bracket atom of an ACCEPTED molecule text must be a bracket atom of the SMILES
    language (own grammar, in particular the charge field: sign + digit 1-4, or one sign repeated 1-4 times), and the atom built
    must carry the isotope, the charge and the hydrogen count that are written"""
    toks = [t for t in TOKEN_RE.findall(s) if t[0] == '[' or t[0].isalpha()]
    if len(toks) != len(mol._atoms):
        return
    for tok, (n, a) in zip(toks, mol._atoms.items()):
        if tok[0] != '[':
            continue
        m = BRACKET_RE.fullmatch(tok)
        ck.case(('bracket', tok), nontrivial=m is not None)
        if m is None:
            ck.counterexample(f'accepted-outside-language:bracket-atom:{tok}', 'a bracket atom outside the SMILES language is accepted', {'smiles': s, 'atom': tok},
                              f'molecule {mol}, atom {n}: charge {a.charge}', 'IncorrectSmiles', 'bracket-atom grammar of the harness',
                              replay_py=f"from chython import smiles\nprint(smiles({s!r}))")
            continue
        iso, el, _, _, q, _ = m.groups()
        want = (int(iso) if iso else None, written_charge(q))
        if (a.isotope, a.charge) != want:
            ck.counterexample(f'bracket-fields:{tok}', 'the atom built does not carry the isotope / charge written in the bracket', {'smiles': s, 'atom': tok},
                              (a.isotope, a.charge), want, 'bracket-atom grammar of the harness',
                              replay_py=f"from chython import smiles\nm = smiles({s!r})\nprint([(a.isotope, a.charge) for _, a in m.atoms()])")


def written_maps(piece):
    """[(atom position in the piece, written map)] of one molecule text"""
    out = []
    for i, t in enumerate(x for x in TOKEN_RE.findall(piece) if x[0] == '[' or x[0].isalpha()):
        m = re.search(r':(\d+)\]$', t)
        if m and int(m.group(1)):
            out.append((i, int(m.group(1))))
    return out


def reaction_oracle(ck, s):
    """rebuild from the parts, independent of postprocess_parsed_reaction: every molecule text of the reaction is read ALONE; the
    reaction built from the whole text must hold the same molecules (count and atoms per role); atom numbers are pairwise distinct
    within a role, reagent numbers do not occur among reactants / products, and an atom map written once in the whole text is kept"""
    from chython.containers import MoleculeContainer, ReactionContainer
    if ' ' in s or s.count('>') != 2:
        return False
    roles = [[x for x in part.split('.') if x] for part in s.split('>')]          # reactants, reagents, products
    if not any(roles):
        return False
    alone = []
    for ps in roles:
        row = []
        for piece in ps:
            m, e = classify(piece)
            if not isinstance(m, MoleculeContainer):
                return False
            row.append(m)
        alone.append(row)
    rxn, e = classify(s)
    ck.case(('rxn-rebuild', s), nontrivial=sum(len(r) for r in roles) > 1)
    ck.count('reaction-oracle:compared')
    problems = []
    if not isinstance(rxn, ReactionContainer):
        problems.append(f'every molecule reads alone, the reaction raises {type(e).__name__}: {e}')
    else:
        built = [list(rxn.reactants), list(rxn.reagents), list(rxn.products)]
        names = ('reactants', 'reagents', 'products')
        for name, ps, ms, bs in zip(names, roles, alone, built):
            if len(bs) != len(ms):
                problems.append(f'{name}: {len(ms)} molecule(s) written, {len(bs)} built')
                continue
            for piece, m, b in zip(ps, ms, bs):
                if [a.atomic_symbol for _, a in m.atoms()] != [a.atomic_symbol for _, a in b.atoms()]:
                    problems.append(f'{name}: {piece} built as {b}')
            nums = [n for b in bs for n in b._atoms]
            if len(set(nums)) != len(nums):
                problems.append(f'{name}: atom numbers not unique: {nums}')
        if not problems:
            rp = {n for b in built[0] + built[2] for n in b._atoms}
            clash = [n for b in built[1] for n in b._atoms if n in rp]
            if clash:
                problems.append(f'reagent atom numbers {clash} also number reactant / product atoms')
            count = {}
            for ps in roles:
                for piece in ps:
                    for _, mp in written_maps(piece):
                        count[mp] = count.get(mp, 0) + 1
            for name, ps, bs in zip(names, roles, built):
                for piece, b in zip(ps, bs):
                    nums = list(b._atoms)
                    for i, mp in written_maps(piece):
                        if count[mp] == 1 and i < len(nums) and nums[i] != mp:
                            problems.append(f'{name}: atom written with map :{mp} (the only one) in {piece} is numbered {nums[i]}')
    if problems:
        ck.counterexample(f'rxn-rebuild:{s}', 'the reaction built differs from its molecules read one by one / its atom numbers break the mapping rules',
                          {'smiles': s}, problems[:4], 'same molecules per role; distinct numbers per role; reagents disjoint; unique written maps kept',
                          'rebuild from the molecule texts read alone',
                          replay_py=f"from chython import smiles\nr = smiles({s!r})\nprint(format(r, 'm'))")
    return True


def cx_groups(cx):
    """the fragment groups of a CXSMILES block |...f:a.b,c.d.e...|, read by the harness: None when there is no well-formed f: block"""
    m = re.search(r'f:([0-9.,]*)', cx)
    if not m:
        return None
    groups = []
    for g in m.group(1).split(','):
        if not re.fullmatch(r'[0-9]+(\.[0-9]+)+', g):
            break                      # the block ends at the first thing that is not a group (what follows is another CX field)
        groups.append(sorted(int(x) for x in g.split('.')))
    return groups or None


def cx_reaction_oracle(ck, s):
    """CXSMILES fragment grouping, independent of smiles.py: the groups are read by the harness, molecules of one role named in a group
    are joined (at the place of the smallest index), a group across roles or beyond the molecule count is ignored, repeated indices
    cancel all grouping; the reaction built must hold exactly the resulting molecules, each read alone"""
    from chython.containers import MoleculeContainer, ReactionContainer
    parts = s.split()
    if len(parts) != 2 or parts[0].count('>') != 2 or not (parts[1].startswith('|') and parts[1].endswith('|')) or '^' in parts[1]:
        return False
    groups = cx_groups(parts[1])
    if groups is None:
        return False
    roles = [[x for x in part.split('.') if x] for part in parts[0].split('>')]      # reactants, reagents, products
    flat = [(r, p) for r, ps in enumerate(roles) for p in ps]
    n = len(flat)
    used = [i for g in groups for i in g]
    slots = [[p] for _, p in flat]
    if len(set(used)) == len(used):
        for g in groups:
            if max(g) < n and len({flat[i][0] for i in g}) == 1:
                slots[g[0]] = [flat[i][1] for i in g]
                for i in g[1:]:
                    slots[i] = None
    want = [[], [], []]
    for (r, _), sl in zip(flat, slots):
        if sl is not None:
            want[r].append('.'.join(sl))
    alone = []
    for ps in want:
        row = []
        for piece in ps:
            m, e = classify(piece)
            if not isinstance(m, MoleculeContainer):
                return False
            row.append([a.atomic_symbol for _, a in m.atoms()])
        alone.append(row)
    rxn, e = classify(s)
    ck.case(('cx-groups', s), nontrivial=any(len(g) > 1 for g in groups))
    ck.count('cx-fragment-oracle:compared')
    if not isinstance(rxn, ReactionContainer):
        got = f'{type(e).__name__}: {e}'
    else:
        got = [[[a.atomic_symbol for _, a in m.atoms()] for m in ms] for ms in (rxn.reactants, rxn.reagents, rxn.products)]
    if got != alone:
        ck.counterexample(f'cx-fragments:{s}', 'CXSMILES fragment groups are not applied as written', {'smiles': s, 'groups': groups},
                          got, alone, 'fragment groups read by the harness; molecules read alone',
                          replay_py=f"from chython import smiles\nr = smiles({s!r})\nprint(r, [len(m) for m in r.molecules()])")
    return True


def gen_cx_reaction(rng):
    """reactions with many one- and two-atom molecules and an f: block whose groups use one- and two-digit indices"""
    def mols(k):
        return [rng.choice(['C', 'O', 'N', '[Na+]', '[Cl-]', 'CC', '[K+]', 'Br', '[OH-]', 'S']) for _ in range(k)]
    r, g, p = mols(rng.randint(1, 7)), mols(rng.randint(0, 4)), mols(rng.randint(1, 7))
    n = len(r) + len(g) + len(p)
    bounds = [(0, len(r)), (len(r), len(r) + len(g)), (len(r) + len(g), n)]
    groups = []
    for _ in range(rng.randint(1, 3)):
        lo, hi = rng.choice(bounds) if rng.random() < 0.85 else (0, n + 2)
        if hi - lo < 2:
            continue
        groups.append(rng.sample(range(lo, hi), rng.randint(2, min(3, hi - lo))))
    if not groups:
        groups = [[0, n - 1]]
    cx = 'f:' + ','.join('.'.join(str(i) for i in gr) for gr in groups)
    return '.'.join(r) + '>' + '.'.join(g) + '>' + '.'.join(p) + ' |' + cx + '|'


def gen_mapped_reaction(rng):
    """small reactions with atom maps in all three roles (reagent maps above / below / equal to the others), unmapped atoms around"""
    def mol(maps):
        n = rng.randint(1, 3)
        out = ''
        for _ in range(n):
            el = rng.choice(['C', 'N', 'O', 'Na', 'Cl'])
            h = rng.choice(['', '', 'H', 'H2', 'H3']) if el in 'CNO' else ''
            q = rng.choice(['', '', '', '+', '-'])
            if rng.random() < 0.55 or h or q or len(el) == 2 and el != 'Cl':
                mp = f':{rng.choice(maps)}' if rng.random() < 0.6 else ''
                out += f'[{el}{h}{q}{mp}]'
            else:
                out += el
        return out

    def side(maps):
        return '.'.join(mol(maps) for _ in range(rng.randint(0, 2)))
    lo, hi = [1, 2, 3], [4, 5, 6, 9]
    return side(lo) + '>' + side(rng.choice([lo, hi, hi, lo + hi])) + '>' + side(lo)


def rdkit_compare(ck, s, kind):
    """compare chython's and RDKit's reading of a molecule text on the common dialect. returns True when compared"""
    from chython.containers import MoleculeContainer
    if '>' in s or ' ' in s or '~' in s or '*' in s or '$' in s:
        return False
    mol, e = classify(s)
    if e is not None and not isinstance(e, ValueError):
        report_crash(ck, s, {}, e)
        return False
    if mol is not None and isinstance(mol, MoleculeContainer) and not mol.meta.get('chython_parsing_log'):
        bond_count_oracle(ck, s, mol)
    if mol is not None and isinstance(mol, MoleculeContainer) and '[' in s:
        mismatch_oracle(ck, s, mol)
    try:
        rd = rdkit_graph(s)
    except Exception:  # noqa
        return False
    if rd is None or mol is None or not isinstance(mol, MoleculeContainer):
        ck.count(f'rdkit:{kind}:' + ('both-reject' if rd is None and mol is None else 'rdkit-only-rejects' if rd is None else 'chython-only-rejects'))
        if kind in ('corpus', 'language') and mol is None and rd is not None:
            # a text of the supported language (the shipped drug-like strings; every element / charge spelling / bond symbol) is refused
            ck.counterexample(f'rejected-inside-language:{s}', 'a SMILES of the supported language is rejected', {'smiles': s, 'kind': kind},
                              f'{type(e).__name__}: {e}', 'a molecule (RDKit reads it)', 'RDKit MolFromSmiles',
                              replay_py=f"from chython import smiles\nprint(smiles({s!r}))")
        return False
    ra, rb, sane = rd
    ca, cb = chython_graph(mol)
    if mol.meta and any('mismatch' in x or 'radical' in x for x in mol.meta.get('chython_parsing_log', [])):
        sane = False        # chython itself logged that the written hydrogen count is impossible
    problems = []
    if len(ra) != len(ca):
        problems.append(f'atom count {len(ca)} vs RDKit {len(ra)}')
    else:
        for i, (x, y) in enumerate(zip(ca, ra)):
            if x[:3] != y[:3]:
                problems.append(f'atom {i}: (Z, charge, isotope) {x[:3]} vs RDKit {y[:3]}')
            if y[3] and x[3] != y[3] and [t[3] for t in ra].count(y[3]) == 1:
                problems.append(f'atom {i}: written map {y[3]} but numbered {x[3]}')
            if sane and x[4] is not None and y[4] is not None and x[4] != y[4] and 4 not in [o for (p, q), o in cb.items() if i in (p, q)] \
                    and not mol._atoms[list(mol._atoms)[i]].is_radical:
                problems.append(f'atom {i}: total H {x[4]} vs RDKit {y[4]}')
        if cb != rb:
            problems.append(f'bonds differ: only chython {sorted(set(cb.items()) - set(rb.items()))[:4]} only RDKit {sorted(set(rb.items()) - set(cb.items()))[:4]}')
    ck.case(('rdkit', s), nontrivial=len(ca) > 1)
    ck.count(f'rdkit:{kind}:compared')
    if problems:
        key = f'rdkit-diff:{s}'
        if len(ra) == len(ca) and len(problems) == 1 and set(cb) == set(rb) and re.search(r'[/\\\\](%\d\d|\d)', s) and \
                all(cb[k] == 1 and rb[k] == 4 for k in cb if cb[k] != rb[k]):
            key = 'rdkit-diff:aromatic-closure-with-direction-mark'
        ck.counterexample(key, 'smiles() builds another graph than RDKit reads from the same text', {'smiles': s, 'kind': kind},
                          problems[:5], 'same atoms (element, charge, isotope, H total, map) and bonds', 'RDKit MolFromSmiles (as written + sanitized H counts)',
                          replay_py=f"from chython import smiles\nm = smiles({s!r})\nprint(m, [(n, a.atomic_symbol, a.charge, a.isotope, a.implicit_hydrogens) for n, a in m.atoms()], "
                                    f"[(n, k, int(b)) for n, k, b in m.bonds()])")
    return True


def rdkit_ez(ck, s):
    """direction marks (incl. on ring-closure digits): the E/Z labels chython keeps must be the ones RDKit reads"""
    from rdkit import Chem
    rd = Chem.MolFromSmiles(s)
    mol, e = classify(s)
    if rd is None or mol is None:
        return False
    n_rd = sum(1 for b in rd.GetBonds() if b.GetStereo() in (Chem.BondStereo.STEREOE, Chem.BondStereo.STEREOZ))
    n_ch = sum(1 for *_, b in mol.bonds() if b.stereo is not None)
    try:
        text = str(mol)            # the writer is not C03's subject: a molecule it cannot spell is skipped here
    except Exception:  # noqa
        return False
    back = Chem.MolFromSmiles(text)
    if back is None:
        return False
    ck.case(('ez', s), nontrivial=n_rd > 0)
    ck.count(f'rdkit-ez:double bonds with label={min(n_rd, 3)}')
    c0, c1 = Chem.MolToSmiles(rd), Chem.MolToSmiles(back)
    if c0 != c1 and Chem.MolToSmiles(rd, isomericSmiles=False) == Chem.MolToSmiles(back, isomericSmiles=False) and n_ch <= n_rd \
            and '@' not in c0 and '@' not in c1:
        ck.counterexample(f'rdkit-ez:{s}', 'cis/trans label read from direction marks differs from RDKit (or is dropped)', {'smiles': s},
                          {'chython': text, 'reread_by_rdkit': c1, 'labels': n_ch}, {'rdkit': c0, 'labels': n_rd}, 'RDKit canonical isomeric SMILES',
                          replay_py=f"from chython import smiles\nprint(smiles({s!r}))")
    return True


def ez_family(rng, n):
    """double bonds whose substituents are attached through ring-closure digits carrying the direction mark at either end"""
    out = ['C1=C/CCCCCC/1', 'C1=C/CCCCCC\\1', 'C/1=C/CCCCCC1', 'C\\1=C/CCCCCC1', 'F/C=C1.C/1', 'F/C=C1.C\\1', 'F/C=C/1.C1', 'F/C=C\\1.C1',
           'F/C=C/1.C\\1', 'F/C(Cl)=C1.C/1', 'F/C(Cl)=C(/Br)1.C1', 'F/C=C/C=C/F', 'F/C=C\\C=C/F', 'C(/F)=C/F', 'C(\\F)=C/F', 'F/C=C(/Cl)Br', 'F\\C(Cl)=C(/Br)I',
           'C/1=C\\CCCCCCC1', 'F/C=C/1CCCCC1', 'F\\C=C/1CC1', 'C1CC1/C=C/C2CC2', 'O=C1/C(=C/c2ccccc2)CCC1']
    for _ in range(n):
        a, b = rng.choice('FNOS'), rng.choice(['Cl', 'Br', 'I', 'C'])
        d1, d2 = rng.choice('/\\'), rng.choice('/\\')
        form = rng.randrange(6)
        if form == 0:
            out.append(f'{a}{d1}C=C1.{b}{d2}1')
        elif form == 1:
            out.append(f'{a}{d1}C=C{d2}1.{b}1')
        elif form == 2:
            out.append(f'{b}1.{a}{d1}C=C{d2}1')
        elif form == 3:
            out.append(f'{b}{d2}1.{a}{d1}C=C1')
        elif form == 4:
            out.append(f'C1=C{d1}C{"C" * rng.randint(4, 7)}{d2}1')
        else:
            out.append(f'C{d1}1=C{d2}C{"C" * rng.randint(4, 7)}1')
    return out


# chirality marks: the neighbour order an @ / @@ mark refers to is the order of writing - preceding atom, the atom's ring-closure DIGITS in the
# order they stand on the atom (not the order in which the rings are closed later), then the branches. Two independent oracles, neither uses the
# model or chython's writer:
#  (a) the harness rewrites the text itself: exchanging two adjacent ring-closure digits on a marked atom and inverting the mark is the same
#      molecule with the same atom numbering (all atom signs must be identical); inverting the mark alone is the enantiomer at that atom
#      (RDKit's canonical isomeric SMILES must confirm both expectations before anything is reported);
#  (b) RDKit reads the text and writes it again from other root atoms (its own traversal, ring numbering and marks); chython reads both texts and
#      every labelled atom must have the same handedness with respect to the same neighbours (atoms matched through RDKit's output order)

CHIRAL_RE = re.compile(r'\[([^\[\]@]*)(@@|@)([^\[\]@]*)\]((?:[-=#:/\\]?(?:%\d\d|\d)){2,})')
UNIT_RE = re.compile(r'[-=#:/\\]?(?:%\d\d|\d)')


def handedness(mol, n, env):
    try:
        return mol._translate_tetrahedron_sign(n, env)
    except (KeyError, ValueError):
        return None


def atom_signs(mol):
    """handedness of every labelled atom with respect to its neighbours in increasing atom number (the stored sign refers to an internal neighbour order)"""
    return {n: None if a.stereo is None else handedness(mol, n, tuple(sorted(mol._bonds[n]))) for n, a in mol.atoms()}


def chirality_oracle(ck, s):
    """returns the number of comparisons made"""
    from rdkit import Chem
    from chython.containers import MoleculeContainer
    if '@' not in s or '>' in s or ' ' in s:
        return 0
    mol, e = classify(s)
    if e is not None and not isinstance(e, ValueError):
        report_crash(ck, s, {}, e)
    rd = Chem.MolFromSmiles(s)
    if rd is None or not isinstance(mol, MoleculeContainer):
        return 0
    done = 0
    can = Chem.MolToSmiles(rd)
    base = atom_signs(mol)
    # (a) rewriting by the harness
    for m in list(CHIRAL_RE.finditer(s))[:4]:
        units = UNIT_RE.findall(m.group(4))
        flip = '@' if m.group(2) == '@@' else '@@'
        for i in range(min(len(units) - 1, 3)):
            if units[i] == units[i + 1]:
                continue
            sw = units[:i] + [units[i + 1], units[i]] + units[i + 2:]
            same = s[:m.start()] + '[' + m.group(1) + flip + m.group(3) + ']' + ''.join(sw) + s[m.end():]
            mirror = s[:m.start()] + '[' + m.group(1) + flip + m.group(3) + ']' + m.group(4) + s[m.end():]
            r1, r2 = Chem.MolFromSmiles(same), Chem.MolFromSmiles(mirror)
            m1, m2 = classify(same)[0], classify(mirror)[0]
            if r1 is None or r2 is None or not isinstance(m1, MoleculeContainer) or not isinstance(m2, MoleculeContainer):
                continue
            done += 1
            ck.case(('chiral-swap', s, m.start(), i), nontrivial=any(v is not None for v in base.values()))
            ck.count('chirality:ring digits exchanged + mark inverted')
            if Chem.MolToSmiles(r1) == can and atom_signs(m1) != base:
                diff = sorted(n for n in base if base[n] != atom_signs(m1).get(n))
                ck.counterexample(f'chirality-ring-digits:{s}', 'a chirality mark is not read against the order of the ring-closure digits on the atom: exchanging two '
                                  'digits and inverting the mark (same molecule, same atom numbering) gives another handedness',
                                  {'smiles': s, 'same_molecule': same}, {'atom signs': {n: base[n] for n in diff}, 'atom signs of the rewritten text': {n: atom_signs(m1).get(n) for n in diff}},
                                  'identical atom signs', 'SMILES neighbour-order rule (harness rewriting), confirmed by RDKit: both texts have canonical SMILES ' + can,
                                  replay_py=f"from chython import smiles\nfor t in ({s!r}, {same!r}):\n    m = smiles(t)\n    print(t, {{n: m._translate_tetrahedron_sign(n, tuple(sorted(m._bonds[n]))) for n, a in m.atoms() if a.stereo is not None and n in m.stereogenic_tetrahedrons}})")
            if Chem.MolToSmiles(r2) != can and Chem.MolToSmiles(r2, isomericSmiles=False) == Chem.MolToSmiles(rd, isomericSmiles=False) \
                    and any(v is not None for v in base.values()) and atom_signs(m2) == base:
                ck.counterexample(f'chirality-mirror:{s}', 'inverting one chirality mark (an enantiomer / epimer according to RDKit) is read as the same molecule',
                                  {'smiles': s, 'mirror': mirror}, 'identical atom signs', 'one atom sign inverted', 'RDKit canonical isomeric SMILES differ',
                                  replay_py=f"from chython import smiles\nfor t in ({s!r}, {mirror!r}):\n    m = smiles(t)\n    print(t, {{n: m._translate_tetrahedron_sign(n, tuple(sorted(m._bonds[n]))) for n, a in m.atoms() if a.stereo is not None and n in m.stereogenic_tetrahedrons}})")
    # (b) the same molecule as RDKit writes it from other roots
    if rd.GetNumAtoms() != len(mol._atoms) or not any(v is not None for v in base.values()):
        return done
    nums = list(mol._atoms)
    roots = sorted({-1, 0, rd.GetNumAtoms() - 1, rd.GetNumAtoms() // 2})
    for root in roots:
        try:
            text = Chem.MolToSmiles(rd, rootedAtAtom=root) if root >= 0 else can
            out = list(rd.GetPropsAsDict(True, True)['_smilesAtomOutputOrder'])
        except Exception:  # noqa
            continue
        m2 = classify(text)[0]
        if not isinstance(m2, MoleculeContainer) or len(m2._atoms) != len(nums) or len(out) != len(nums):
            continue
        nums2 = list(m2._atoms)
        to2 = {nums[old]: nums2[new] for new, old in enumerate(out)}
        if any(mol._atoms[n].atomic_number != m2._atoms[to2[n]].atomic_number for n in nums):
            continue
        wrong = []
        for n, sg in base.items():
            if sg is None:
                continue
            env = tuple(mol._bonds[n])
            h1, h2 = handedness(mol, n, env), handedness(m2, to2[n], tuple(to2[x] for x in env))
            if h1 is None or h2 is None or set(to2[x] for x in env) != set(m2._bonds[to2[n]]):
                ck.count('chirality:rdkit rewriting, label on one side only')
                continue
            done += 1
            ck.count('chirality:rdkit rewriting compared')
            if h1 != h2:
                wrong.append((n, list(env), h1, h2))
        if wrong:
            # centres that depend on each other through a symmetry (1,4-disubstituted cyclohexane, adamantane) may be inverted together by RDKit's writer:
            # not a difference if inverting exactly these atoms is, for RDKit, the same molecule
            rd2 = Chem.Mol(rd)
            for n, *_ in wrong:
                rd2.GetAtomWithIdx(nums.index(n)).InvertChirality()
            if Chem.MolToSmiles(rd2) == can:
                ck.count('chirality:rdkit rewriting, symmetric centres inverted together')
                continue
            n, env, h1, h2 = wrong[0]
            ck.counterexample(f'chirality-rdkit:{s}', 'a chirality mark is read with another handedness than RDKit reads it (the same molecule written again by RDKit gives '
                              'the opposite arrangement of the same neighbours)', {'smiles': s, 'rdkit_rewriting': text, 'atom': n, 'atom_in_rewriting': to2[n]},
                              {'neighbours': env, 'handedness': h1}, {'neighbours': [to2[x] for x in env], 'handedness': h2},
                              'RDKit MolFromSmiles + MolToSmiles (atoms matched by _smilesAtomOutputOrder)',
                              replay_py=f"from chython import smiles\nfor t in ({s!r}, {text!r}):\n    m = smiles(t)\n    print(t, {{n: m._translate_tetrahedron_sign(n, tuple(sorted(m._bonds[n]))) for n, a in m.atoms() if a.stereo is not None and n in m.stereogenic_tetrahedrons}})")
            break
    ck.case(('chiral-rdkit', s), nontrivial=True)
    return done


def chiral_family(rng, n):
    """marked atoms carrying two or three ring-closure digits whose rings are closed in every order (one and two digit numbers, bond symbols on the digits)"""
    out = ['F[C@]12CCCC2OC1', 'F[C@]12CCCC1OC2', 'F[C@@]21CCCC2OC1', 'C[C@@]12CCC(=O)C2NC1', 'O[C@]%10%11CCCC%11OC%10', 'O[C@@]%11%10CCCC%11OC%10',
           '[C@]12(F)CCCC2OC1', '[C@@]12(F)CCCC1OC2', 'C[C@H]1CC[C@@]12CCCN2', 'N[C@]123CCC1OC2SC3', 'N[C@]123CCC3OC2SC1', 'N[C@@]123CCC2OC3SC1',
           'F[C@]1-2CCCC-2OC1', 'C[C@]12CC[C@H](O)CC1=CC[C@@H]1[C@@H]2CC[C@]2(C)C(=O)CC[C@@H]12', 'O=C1C[C@@]23CCCC[C@H]2CC[C@@H]1C3']
    for _ in range(n):
        x = rng.choice(['F', 'Cl', 'C', 'O', 'N', 'CC', 'Br', 'OC'])
        mark = rng.choice(['@', '@@'])
        a, b = rng.sample(['1', '2', '3', '%10', '%11', '9', '%12'], 2)
        c1 = rng.choice(['CCC', 'CC', 'CCCC', 'CC(=O)', 'CNC', 'C=CC', 'CC(C)C'])
        c2 = rng.choice(['OC', 'NC', 'SC', 'CO', 'C(C)C', 'OCC', 'C(=O)C', 'N(C)C'])
        first, second = rng.choice([(a, b), (b, a)])
        form = rng.randrange(4)
        if form == 0:
            out.append(f'{x}[C@@]{a}{b}{c1}C{first}{c2}{second}'.replace('@@', mark))
        elif form == 1:
            out.append(f'[C{mark}]{a}{b}({x}){c1}C{first}{c2}{second}')
        elif form == 2:          # the ring opened before the atom and one opened on it
            out.append(f'C{a}{c1}[C{mark}]{a}{b}({x}){c2}C{b}' if first == a else f'C{a}{c1}[C{mark}]{b}{a}({x}){c2}C{b}')
        else:                    # three digits
            c = rng.choice([d for d in ['4', '5', '%13'] if d not in (a, b)])
            order = [a, b, c]
            rng.shuffle(order)
            out.append(f'{x}[C{mark}]{a}{b}{c}CC{c1}{order[0]}{c2}{order[1]}SC{order[2]}')
    return out


# CXSMILES radical marks |^n:i,j,...|: the indices are positions of atoms in the WRITTEN text (for a reaction: reactants, then reagents,
# then products - simply left to right). Oracle independent of the model and of smiles.py: the harness counts the atom tokens of the text
# itself, every molecule text is read alone, and the object built from the whole text must carry a radical exactly on the atoms at the
# written positions (besides atoms the hydrogen recheck radicalized by itself, which it lists in chython_radicalized_atoms); an index
# beyond the last atom must be rejected with a ValueError. RDKit's CXSMILES reader is asked for a second opinion on the expectation.

CX_RAD_RE = re.compile(r'\^([1-7]):(\d+(?:,\d+)*)')
RAD_MOLS = ['C', 'CC', 'CO', 'C[CH2]', '[CH3]', '[O]', 'O', 'N', 'CCl', 'ClC', 'C(C)C', '[Na+]', 'Br', 'c1ccccc1', 'C[CH]C', '[OH]', 'CN', 'S', 'C=C', 'C1CC1',
            '[13CH3]', 'BrCBr', 'C(=O)O', '[NH2]', 'CC(C)(C)C', 'OO', 'Cl', 'C%10CC%10', 'c1ccncc1', 'N#C']


def written_atoms(smi):
    """the atom tokens of a molecule / reaction text in the order they are written"""
    return [t for t in TOKEN_RE.findall(smi) if t[0] == '[' or t[0].isalpha()]


def gen_cx_radical(rng):
    """molecules and reactions (reagents present in most) with a CXSMILES radical block: 1-3 groups, indices anywhere in the text,
    sometimes beyond the last atom"""
    def side(lo):
        return '.'.join(rng.choice(RAD_MOLS) for _ in range(rng.randint(lo, 3)))
    if rng.random() < 0.25:
        smi = side(1)
    else:
        smi = side(0) + '>' + (side(1) if rng.random() < 0.7 else '') + '>' + side(0)
    n = len(written_atoms(smi))
    k = rng.randint(1, 4)
    idx = rng.sample(range(n), min(k, n)) if n else []
    if rng.random() < 0.1 or not idx:
        idx.append(n + rng.randint(0, 3))
    groups, i = [], 0
    while i < len(idx):
        j = i + rng.randint(1, 2)
        groups.append('^' + str(rng.randint(1, 7)) + ':' + ','.join(str(x) for x in idx[i:j]))
        i = j
    return smi + ' |' + ','.join(groups) + '|'


def rdkit_radicals(s, reaction):
    """RDKit's reading of the CXSMILES text: set of (role, molecule, atom) carrying radical electrons, or None"""
    from rdkit import Chem
    from rdkit.Chem import rdChemReactions
    try:
        if reaction:
            r = rdChemReactions.ReactionFromSmiles(s)
            if r is None:
                return None
            groups = (r.GetReactants(), r.GetAgents(), r.GetProducts())
            return {(k, i, a.GetIdx()) for k, ms in enumerate(groups) for i, m in enumerate(ms) for a in m.GetAtoms() if a.GetNumRadicalElectrons()}
        m = Chem.MolFromSmiles(s, sanitize=False)
        if m is None:
            return None
        return {(0, 0, a.GetIdx()) for a in m.GetAtoms() if a.GetNumRadicalElectrons()}
    except Exception:  # noqa
        return None


def cx_radical_oracle(ck, s):
    from chython.containers import MoleculeContainer, ReactionContainer
    parts = s.split()
    if len(parts) != 2 or not (parts[1].startswith('|') and parts[1].endswith('|')) or 'f:' in parts[1]:
        return False
    marks = [int(x) for m in CX_RAD_RE.finditer(parts[1]) for x in m.group(2).split(',')]
    smi = parts[0]
    if not marks or len(set(marks)) != len(marks) or smi.count('>') not in (0, 2):
        return False
    reaction = '>' in smi
    roles = [[x for x in part.split('.') if x] for part in smi.split('>')] if reaction else [[smi]]      # reactants, reagents, products
    if not any(roles):
        return False
    flat = []                                                          # written position -> (role, molecule, atom)
    for r, ps in enumerate(roles):
        for i, piece in enumerate(ps):
            m, e = classify(piece)
            if not isinstance(m, MoleculeContainer) or len(m._atoms) != len(written_atoms(piece)):
                return False
            flat += [(r, i, j) for j in range(len(m._atoms))]
    res, e = classify(s)
    if e is not None and not isinstance(e, ValueError):
        report_crash(ck, s, {}, e)
        return True
    ck.case(('cx-radical', s), nontrivial=reaction and bool(roles[1]))
    if max(marks) >= len(flat):
        ck.count('cx-radical-oracle:index beyond the atoms')
        if e is None:
            ck.counterexample(f'cx-radical-range:{s}', 'a CXSMILES radical index beyond the last atom of the text is accepted', {'smiles': s, 'atoms': len(flat)},
                              str(res), 'IncorrectSmiles', 'atom tokens counted by the harness',
                              replay_py=f"from chython import smiles\nprint(smiles({s!r}))")
        return True
    want = {flat[x] for x in marks}
    rd = rdkit_radicals(s, reaction)
    if rd is not None and not want <= rd:
        ck.count('cx-radical-oracle:RDKit places the marks elsewhere (not compared)')
        return False
    ck.count('cx-radical-oracle:compared' + (' (reaction with reagents)' if reaction and roles[1] else ''))
    if res is None:
        got = f'{type(e).__name__}: {e}'
        ok = False
    else:
        built = [list(res.reactants), list(res.reagents), list(res.products)] if isinstance(res, ReactionContainer) else [[res]]
        if [len(b) for b in built] != [len(r) for r in roles]:
            return False                                               # the reaction oracle's subject
        have, guessed = set(), set()
        for r, ms in enumerate(built):
            for i, m in enumerate(ms):
                rz = set((m.meta or {}).get('chython_radicalized_atoms') or ())
                for j, (n, a) in enumerate(m._atoms.items()):
                    if a.is_radical:
                        have.add((r, i, j))
                        if n in rz:
                            guessed.add((r, i, j))
        got = sorted(have)
        ok = want <= have and have - want <= guessed
    if not ok:
        names = ('reactants', 'reagents', 'products')
        ck.counterexample(f'cx-radical-position:{s}', 'CXSMILES radical marks do not land on the atoms at the written positions',
                          {'smiles': s, 'indices': marks}, got if isinstance(got, str) else [(names[r], i, j) for r, i, j in got],
                          [(names[r], i, j) for r, i, j in sorted(want)],
                          'atom positions counted in the written text by the harness (reactants, reagents, products = left to right)' +
                          ('; RDKit agrees' if rd is not None else ''),
                          replay_py=f"from chython import smiles\nr = smiles({s!r})\nms = list(r.molecules()) if hasattr(r, 'molecules') else [r]\n"
                                    f"print([[a.is_radical for _, a in m.atoms()] for m in ms])")
    return True


# written hydrogen counts: a bracket atom carries the EXACT count written, and the reader may replace it by the calculated one (reporting
# the written count in chython_implicit_mismatch) only when the written count is NOT a valid valence state of the atom. Oracle independent of
# create_molecule's decision chain and of the model: for every non-aromatic atom reported in chython_implicit_mismatch the library's own valence
# test check_implicit(n, written) (C04's subject) on the molecule built must say "invalid". RDKit's total hydrogen count is given as a second opinion.

def mismatch_oracle(ck, s, res):
    """res: molecule or reaction built from s. returns the number of atoms checked"""
    from chython.containers import MoleculeContainer
    mols = [res] if isinstance(res, MoleculeContainer) else list(res.molecules()) if hasattr(res, 'molecules') else []
    done = 0
    for mol in mols:
        mm = (mol.meta or {}).get('chython_implicit_mismatch') or {}
        for n, h in mm.items():
            if n not in mol._atoms or any(int(b) == 4 for b in mol._bonds[n].values()):
                continue                       # aromatic atoms: the written count is compared with the calculated one only
            done += 1
            ck.count('hydrogen-mismatch-oracle:reported atoms checked')
            try:
                valid = mol.check_implicit(n, h)
            except Exception:  # noqa
                continue
            if valid:
                a = mol._atoms[n]
                ck.counterexample(f'valid-hydrogen-count-replaced:{s}', 'a written hydrogen count that is a valid valence state of the atom is replaced by the calculated one',
                                  {'smiles': s, 'atom': n, 'element': a.atomic_symbol, 'written_H': h}, {'implicit_hydrogens': a.implicit_hydrogens, 'reported_mismatch': h},
                                  {'implicit_hydrogens': h}, 'MoleculeContainer.check_implicit(atom, written count) on the molecule built says the written count is valid',
                                  replay_py=f"from chython import smiles\nr = smiles({s!r})\nms = list(r.molecules()) if hasattr(r, 'molecules') else [r]\n"
                                            f"print([[(a.atomic_symbol, a.implicit_hydrogens) for _, a in m.atoms()] for m in ms], [m.meta for m in ms])")
    return done


def gen_hydrogen_texts(rng, n):
    """bracket atoms with a written hydrogen count - alone, as a dot component, in a chain, as a member of a reaction"""
    import chython
    els = [c().atomic_symbol for c in chython.periodictable.Element.__subclasses__() if c().atomic_number <= 103]
    out = [f'[{el}{h}]' for el in els for h in ('', 'H', 'H2', 'H3', 'H4')]
    for _ in range(n):
        el = rng.choice(HYD_ELEMENTS + ['Ge', 'Te', 'As', 'Sn', 'Pb', 'Ga', 'Mg', 'Zn', 'Pd', 'Li', 'K', 'Cu'])
        a = f'[{el}{rng.choice(("", "", "H", "H2", "H3", "H4"))}{rng.choice(("", "", "", "+", "-", "+2"))}]'
        form = rng.randrange(7)
        other = rng.choice(['C', 'CC', 'O', 'CC(=O)Cl', '[Pd]', '[Na+]', 'c1ccccc1', 'CCO'])
        out.append([a + '.' + other, other + '.' + a, 'C' + a, 'C' + a + 'C', a + '=O', 'CCO>' + a + '>CC=O', other + '.' + a + '>>' + other][form])
    return out


# lexeme level: every short sequence of lexical items of the language (complete AND unfinished ones: '%', '%1', '[', a bond symbol ...) in a
# context that completes it. The character sweeps end after 3 characters and never put, e.g., a whole bracket atom behind an unfinished
# '%'-closure; here every ordered pair / triple of tokenizer states is followed by every kind of next item.

LEXEMES = ['C', 'c', 'N', 'Cl', 'Br', '[CH3]', '[nH]', '[C@@H]', '[O-]', '[', ']', '(', ')', '=', '#', ':', '-', '/', '\\', '.', '1', '2', '0', '%', '%1', '%12', '%0',
           '>', '~', '!', ';', '@', ',', '$', '*', 'H', '+', ' ', '&']
LEXEMES_SMALL = ['C', '[CH3]', '[', ']', '(', ')', '=', '.', '1', '%', '%1', '%12', 'c', 'Cl', '/', '-', ';', '@']


def lexeme_texts(tier, small=False):
    """small: the part that also goes through the Coq models in the quick tier"""
    out = []
    ctx = [('C', 'C')] if small else [(p, q) for p in ('', 'C') for q in ('', 'C', '1', 'C1')]
    for a in LEXEMES:
        for b in LEXEMES:
            out += [p + a + b + q for p, q in ctx]
    lex3 = LEXEMES_SMALL[:12] if small else LEXEMES_SMALL if tier == 'quick' else LEXEMES
    for t in itertools.product(lex3, repeat=3):
        out += ['C' + ''.join(t) + q for q in (('C',) if small else ('', 'C'))]
    seen = set()
    return [s for s in out if not (s in seen or seen.add(s))]


LANG_RE = re.compile(r'(?:\[[^\[\]]*\]|Cl|Br|[BCNOPSFI]|[cnopsb]|[-=#:/\\~]|[()]|\.|%[0-9][0-9]|[0-9])*')


def lexical_oracle(ck, s, mol):
    """an ACCEPTED molecule text (nothing logged) must be a sequence of lexical items of the language: bracket atom, organic / aromatic symbol,
    bond symbol, branch bracket, dot, ring-closure digit or '%' followed by exactly two digits"""
    if mol.meta and mol.meta.get('chython_parsing_log'):
        return
    if not LANG_RE.fullmatch(s):
        rest = s[LANG_RE.match(s).end():]
        ck.counterexample(f'accepted-outside-language:lexeme:{s}', 'a text that is not a sequence of lexical items of the SMILES language is accepted',
                          {'smiles': s, 'first_unreadable_at': rest[:10]}, str(mol), 'IncorrectSmiles', 'lexical grammar of the harness',
                          replay_py=f"from chython import smiles\nprint(smiles({s!r}))")


def directed_search(ck, seeds):
    """when a correspondence disagrees: the property-level oracles on and around the disagreeing texts"""
    rng = random.Random(f'{ck.seed}:c03directed')
    pool = []
    for s in seeds[:60]:
        pool.append(s)
        pool += [corrupt(rng, s) for _ in range(15)]
        pool += [s[:i] + s[i + 1:] for i in range(min(len(s), 30))]
    for s in pool:
        for kw in ({}, {'ignore': False}):
            _, e = classify(s, **kw)
            if e is not None and not isinstance(e, ValueError):
                report_crash(ck, s, kw, e)
        rdkit_compare(ck, s.split()[0] if s.split() else s, 'directed')
        if 'f:' in s:
            cx_reaction_oracle(ck, s)
        res, _ = classify(s)
        if res is not None and '[' in s:
            mismatch_oracle(ck, s, res)
            for t in re.findall(r'\[[^\]]*\]', s)[:4]:         # the bracket atoms of the text alone, as a component, as a reagent
                for u in (t, t + '.C', 'CCO>' + t + '>CC=O'):
                    r2, _ = classify(u)
                    if r2 is not None:
                        mismatch_oracle(ck, u, r2)
        if '^' in s:
            cx_radical_oracle(ck, s)
            for _ in range(6):          # the same text with marks on other atoms
                t = s.split()[0]
                n = len(written_atoms(t))
                if n:
                    cx_radical_oracle(ck, t + ' |^1:' + ','.join(str(x) for x in sorted(rng.sample(range(n), min(n, rng.randint(1, 3))))) + '|')
        if s.count('>') == 2:
            reaction_oracle(ck, s.split()[0] if s.split() else s)
        elif '[' in s and ' ' not in s:
            mol, _ = classify(s)
            if mol is not None and hasattr(mol, '_atoms'):
                bracket_oracle(ck, s, mol)
        if '/' in s or '\\' in s:
            rdkit_ez(ck, s.split()[0] if s.split() else s)
        if '@' in s:
            chirality_oracle(ck, s.split()[0] if s.split() else s)
    for s in chiral_family(rng, 60):
        chirality_oracle(ck, s)
    ck.extra['directed_search_texts'] = len(pool)


def search(ck):
    from rdkit import RDLogger
    RDLogger.DisableLog('rdApp.*')
    rng = random.Random(f'{ck.seed}:c03search')
    quick = ck.tier == 'quick'
    # (1) exception classes on the malformed stream: every exception must be a ValueError
    alpha = ALPHA + ' |^f\xb2\u0663'
    stream = [''.join(t) for L in (1, 2) for t in itertools.product(alpha, repeat=L)]
    lip = corpus.lipo()
    for _ in range(2500 if quick else 40000):
        base = rng.choice(lip) if rng.random() < 0.6 else (gen_reaction(rng) if rng.random() < 0.4 else gen_smiles(rng))
        s = corrupt(rng, base, alpha)
        if rng.random() < 0.15:
            s += rng.choice([' |^1:0|', ' |^1:3,99|', ' |f:0.1|', ' |f:0.1,2.3,^2:1|', '>>', '>C>', ' |', ' ||'])
        stream.append(s)
    stream += ['C\u0663CC\u0663', 'C%\u0661\u0662CC%12', '[\u0661\u0662C]', 'C\xb2', 'N\\C(S)=C(\\C)/1CCCCC1', 'C-;@C', 'C!~C', ';', ';@', 'C-;@;@C', '(', 'C |^1:5|',
               'C>>C |^1:5|', 'C.O>> |f:0.1|', '\x00', 'C\x00C', 'C' * 3000, '(' * 500 + 'C' + ')' * 500, 'C1' * 60, '[' + 'C' * 5000 + ']', 'C%99' * 40]
    # every charge field over + - and digits, on three elements and inside molecules (only the language's spellings may be accepted)
    fields = [''.join(t) for L in (1, 2, 3) for t in itertools.product('+-1234', repeat=L)] + ['++++', '----', '+++++', '+-+-', '-+-+']
    stream += [f'[{el}{f}]' for el in ('C', 'NH3', 'Fe') for f in fields if f[0] in '+-']
    stream += ['CC(=O)[O-+]', 'c1cc[n+-]cc1', '[OH-+]>>[OH2]', 'C[N+-](C)C', '[13CH3-+:1]', '[O-+]']
    lex = lexeme_texts(ck.tier)
    stream += lex
    ck.extra['lexeme_texts'] = len(lex)
    from chython.containers import MoleculeContainer
    n_exc = {}
    for s in stream:
        for kw in ({}, {'ignore': False}, {'remap': True, 'ignore_stereo': True}):
            res, e = classify(s, **kw)
            ck.case(('exc', s, tuple(kw)), nontrivial=e is not None)
            key = 'Ok' if e is None else ('ValueError-class:' + type(e).__name__ if isinstance(e, ValueError) else 'OTHER:' + type(e).__name__)
            n_exc[key] = n_exc.get(key, 0) + 1
            if e is not None and not isinstance(e, ValueError):
                report_crash(ck, s, kw, e)
            if e is None and not kw and isinstance(res, MoleculeContainer) and '[' in s and ' ' not in s:
                bracket_oracle(ck, s, res)
            if e is None and not kw and isinstance(res, MoleculeContainer) and ' ' not in s:
                lexical_oracle(ck, s, res)
            if e is None and not kw and '[' in s:
                mismatch_oracle(ck, s, res)
            if e is None and any(ord(c) > 127 for c in s.split()[0]):
                ck.counterexample(f'accepted-outside-language:{s}', 'a text with non-ASCII characters in the SMILES part is accepted', {'smiles': s},
                                  str(res), 'IncorrectSmiles', 'the SMILES alphabet is ASCII', replay_py=f"from chython import smiles\nprint(smiles({s!r}))")
    for k, v in n_exc.items():
        ck.count('search-exception:' + k, v)
    ck.extra['exception_stream_texts'] = len(stream)
    # (2) RDKit reading of the same text: corpus, grammar-generated, all valid short texts
    n_cmp = 0
    for s in corpus.sample(lip, 400 if quick else 4200, ck.seed, 'c03rdkit'):
        n_cmp += rdkit_compare(ck, s, 'corpus')
    for _ in range(700 if quick else 8000):
        n_cmp += rdkit_compare(ck, gen_smiles(rng, 10), 'generated')
    toks = ['C', 'N', 'O', 'c', 'n', '[nH]', '[NH4+]', '[13CH3]', '[O-]', '[C:2]', 'Cl', '=', '#', '-', ':', '(', ')', '1', '2', '.', '%10']
    for L in (1, 2, 3) if quick else (1, 2, 3, 4):
        for t in itertools.product(toks, repeat=L):
            n_cmp += rdkit_compare(ck, ''.join(t), 'short')
    # every charge spelling, bond symbol, organic-subset / aromatic symbol and a bracket atom of every element RDKit knows
    from chython.files.daylight.tokenize import charge_dict
    lang = ['[Fe' + k + ']' for k in charge_dict] + ['[N' + k + ']' for k in charge_dict if k.startswith('-')] + \
           ['CC', 'C-C', 'C=C', 'C#C', 'c:c', 'C/C=C/C', 'C/C=C\\C', 'C.C'] + ['C' + x for x in ('N', 'O', 'P', 'S', 'F', 'I', 'Cl', 'Br', 'B')] + \
           [x + '1cccc1' for x in ('n', 'o', 's', 'p', '[nH]', '[se]', '[te]')] + ['c1ccccc1', 'b1ccccc1', 'c1cc[as]cc1'] + \
           ['[' + a.atomic_symbol + ']' for a in (c() for c in __import__('chython').periodictable.Element.__subclasses__()) if a.atomic_number <= 103] + \
           ['[13CH4]', '[2H]O[2H]', '[CH3-]', '[NH4+]', '[OH3+]', '[C@H](F)(Cl)Br', '[CH2:1]=[CH2:2]', 'C%10CC%10', 'C12CC1C2', '[235U]']
    for s in lang:
        n_cmp += rdkit_compare(ck, s, 'language')
    ck.extra['rdkit_compared'] = n_cmp
    # (3) E/Z from direction marks, ring-closure digits included
    n_ez = 0
    for s in ez_family(rng, 150 if quick else 2000):
        n_ez += rdkit_ez(ck, s)
    for s in corpus.sample([x for x in lip if '/' in x or '\\' in x], 60 if quick else 600, ck.seed, 'c03ez'):
        n_ez += rdkit_ez(ck, s)
    ck.extra['rdkit_ez_compared'] = n_ez
    # (3b) chirality marks against the order of the ring-closure digits (harness rewriting + RDKit rewriting)
    n_ch = 0
    for s in chiral_family(rng, 150 if quick else 1200):
        n_ch += chirality_oracle(ck, s)
    for s in corpus.sample([x for x in lip if '@' in x], 120 if quick else 1127, ck.seed, 'c03chiral'):
        n_ch += chirality_oracle(ck, s)
    ck.extra['chirality_compared'] = n_ch
    # (4) reactions rebuilt from their molecules read alone; atom-number rules
    n_rx = 0
    fixed_rx = ['[CH4:1]>O[Na:2]>[CH4:1]', 'CC>[Na+:3].[OH-]>CC', '[CH3:1][OH:2]>[Na+:3].[OH-]>[CH3:1][OH:2]', '[CH3:1]Br>CC[O-:2].[Na+]>[CH3:1]O',
                '[CH3:1][OH:2]>>[CH3:1][OH:2]', 'C>O>C', '[CH3:5]C>[OH2:9]>[CH3:5]C', '[CH3:1]Br.[OH-:2]>[Na+]>[CH3:1][OH:2].[Br-]', 'CC.O>>CCO',
                '[CH3:2]O>[Na+:1].[Cl-:7]>[CH3:2]O', '>[Na+:4]>C', 'C>[Na+:4]>', '[CH3:1][CH3:1]>>C', '[C:1]>[O:1]>[C:1]', 'C.C.C>N.N>O.O']
    for s in fixed_rx:
        n_rx += reaction_oracle(ck, s)
    for _ in range(500 if quick else 6000):
        n_rx += reaction_oracle(ck, gen_mapped_reaction(rng))
    for _ in range(150 if quick else 2000):
        n_rx += reaction_oracle(ck, gen_reaction(rng).split()[0])
    ck.extra['reaction_oracle_compared'] = n_rx
    # (5) CXSMILES fragment groups (one- and two-digit molecule indices, several groups, groups across roles, collisions)
    n_cx = 0
    fixed_cx = ['C.O.N.S.C.O.N.S.C.O.[Na+].[Cl-]>>CC |f:2.3,10.11|', 'C.O.N.S.C.O.N.S.C.O.[Na+].[Cl-]>>CC |f:0.1,10.11|',
                'C.O>[Na+].[Cl-]>C.O.N.S.C.O.N.S.CC.[K+].[Br-] |f:2.3,11.12|', 'C.O.N.S.C.O.N.S.C.O.[Na+]>>[Cl-].CC |f:10.11|',
                'C.O.N.S.C.O.N.S.C.O.[Na+].[Cl-]>>CC |f:10.11,0.1|', 'C.O.N.S.C.O.N.S.C.O.[Na+].[Cl-]>>CC |f:0.10.11|',
                'C.O.N.S.C.O.N.S.C.O.[Na+].[Cl-]>>CC |f:0.1,2.10,3.11|', '[Na+].[Cl-]>>[Na+].[Cl-] |f:0.1,2.3|', 'C.O>>N |f:0.1|', 'C.O>>N |f:0.2|',
                'C.O>>N.S |f:0.1,1.2|', 'C.O>>N |f:0.5|', 'C.O.N>> |f:0.1|', '>>C.O.N |f:1.2|', 'C>O.N>S |f:1.2|']
    for s in fixed_cx:
        n_cx += cx_reaction_oracle(ck, s)
    for _ in range(400 if quick else 5000):
        n_cx += cx_reaction_oracle(ck, gen_cx_reaction(rng))
    ck.extra['cx_fragment_oracle_compared'] = n_cx
    # (6) CXSMILES radical marks: positions counted in the written text (reagents between reactants and products), indices out of range
    n_rad = 0
    fixed_rad = ['C |^1:0|', 'CC |^1:1|', 'C[CH2] |^1:1|', 'CO>N>CC |^1:4|', 'CO>N>CC |^1:2|', 'CC.OO>CN.Cl>CCO.O |^1:5,9|', 'CC>>CC |^1:3|',
                 'C>O.N>S |^1:1,^2:2|', '>N>CC |^1:0|', '>N>CC |^1:1|', 'C>N> |^1:1|', 'CO>N>CC |^1:5|', 'CO>N>CC |^1:4,6|', 'C.C |^1:1|', 'C.C |^1:2|']
    for s in fixed_rad:
        n_rad += cx_radical_oracle(ck, s)
    for _ in range(500 if quick else 6000):
        n_rad += cx_radical_oracle(ck, gen_cx_radical(rng))
    ck.extra['cx_radical_oracle_compared'] = n_rad
    # (7) written hydrogen counts: what is reported as a mismatch must be an invalid valence state (every element x 0..4 H alone, generated
    #     environments / dot components / reaction members, the hydrogen family of the correspondence)
    n_h = 0
    for s in gen_hydrogen_texts(rng, 400 if quick else 5000) + hydrogen_inputs(ck):
        res, e = classify(s)
        if e is not None and not isinstance(e, ValueError):
            report_crash(ck, s, {}, e)
        if res is not None:
            ck.case(('hydrogen', s), nontrivial=bool(getattr(res, 'meta', None)))
            n_h += mismatch_oracle(ck, s, res)
    ck.extra['hydrogen_mismatch_atoms_checked'] = n_h
    return True


# ----------------------------------------------------------------------------------------------------------------
# 5c. CXSMILES fragment grouping: the texts smiles() hands to the tokenizer after the contraction (intermediate state),
#     against the grouping rule Model.CxGroups.contract_spec and the model of the code Reader.contract_roles

def corr_contract(ck):
    import sys
    from chython import smiles
    from chython.containers import ReactionContainer
    rng = random.Random(f'{ck.seed}:c03cx')
    sm = sys.modules['chython.files.daylight.smiles']
    orig = sm.smiles_tokenize
    seen = []

    def spy(x):
        seen.append(x)
        return orig(x)
    texts = ['C.O.N.S.C.O.N.S.C.O.[Na+].[Cl-]>>CC |f:2.3,10.11|', 'C.O>[Na+].[Cl-]>C.O.N.S.C.O.N.S.CC.[K+].[Br-] |f:2.3,11.12|',
             'C.O.N.S.C.O.N.S.C.O.[Na+].[Cl-]>>CC |f:0.1,2.10,3.11|', 'C.O>>N.S |f:0.1,1.2|', 'C.O>>N |f:0.5|', 'C.O.N>> |f:0.1|', '>>C.O.N |f:1.2|',
             'C>O.N>S |f:1.2|', 'C.O>N>S |f:0.2|', 'C.O.N>S.F>Cl.Br.I |f:0.2,3.4,6.7,1.5|', 'C.O>>N.S |f:3.2|', 'C.O.N>>S |f:2.0.1|']
    texts += [gen_cx_reaction(rng) for _ in range(300 if ck.tier == 'quick' else 4000)]
    items = []
    sm.smiles_tokenize = spy
    try:
        for s in texts:
            groups = cx_groups(s.split()[1])
            if groups is None:
                continue
            used = [i for g in groups for i in g]
            if len(set(used)) != len(used):
                groups = None                      # repeated indices: no contraction at all
            roles = [[x for x in part.split('.') if x] for part in s.split()[0].split('>')]     # reactants, reagents, products
            del seen[:]
            try:
                rxn = smiles(s)
            except Exception as e:  # noqa
                if not isinstance(e, ValueError):
                    report_crash(ck, s, {}, e)
                continue
            if not isinstance(rxn, ReactionContainer) or len(seen) != len(rxn.reactants) + len(rxn.products) + len(rxn.reagents):
                continue
            a, b = len(rxn.reactants), len(rxn.reactants) + len(rxn.products)
            real = ' '.join(seen[:a]) + ' / ' + ' '.join(seen[a:b]) + ' / ' + ' '.join(seen[b:])
            ck.case(('cx', s), nontrivial=bool(groups))
            ck.count('contract:' + ('grouped' if groups else 'no contraction'))
            if groups is None:
                continue
            items.append(((groups, roles[0], roles[2], roles[1]), real + ' = ' + real))
    finally:
        sm.smiles_tokenize = orig
    bt = Batches(ck, 'c03cx', extra='Import ListNotations. Open Scope Z_scope.')
    bt.add_chunked('b_contract', items, lambda t: f'({czss(t[0])}, {clist(cstr(x) for x in t[1])}, {clist(cstr(x) for x in t[2])}, {clist(cstr(x) for x in t[3])})', chunk=20)
    ck.extra['contract_cases'] = len(items)
    saved = coqcases_imports[0]
    coqcases_imports[0] = 'Tokenize Parser Reader CxGroups'
    try:
        return bt.run(f'molecule texts smiles() tokenizes after the CXSMILES fragment contraction == Coq grouping rule contract_spec == Coq contract_roles '
                      f'on {len(items)} reactions (up to 18 molecules, one- and two-digit indices, groups across roles / out of range)',
                      single=lambda t: f'({czss(t[0])}, {clist(cstr(x) for x in t[1])}, {clist(cstr(x) for x in t[2])}, {clist(cstr(x) for x in t[3])})')
    finally:
        coqcases_imports[0] = saved


# ----------------------------------------------------------------------------------------------------------------
# 5d. parser(): the local variables after every token (intermediate states), read off the running function with sys.settrace,
#     against the Coq machine Parser.step folded over the same tokens (Model.ParserTrace.trace_loop)

def parser_trace(tokens, strong):
    """the text of (atom_num, last_num, stack, cycles, previous, len(bonds)) each time parser() comes back to its `for` line, then the exception if any"""
    import sys, ast, inspect
    from chython.files.daylight import parser as pm
    pm = sys.modules['chython.files.daylight.parser']
    fn = pm.parser
    tree = ast.parse(inspect.getsource(fn))
    loops = [n for n in ast.walk(tree) if isinstance(n, ast.For) and ast.unparse(n.iter) == 'tokens']
    assert len(loops) == 1, 'parser() no longer has exactly one loop over tokens'
    for_line = fn.__code__.co_firstlineno + loops[0].lineno - 1
    out = []
    arrivals = [0]

    def snap(f):
        L = f.f_locals
        return '|'.join([sz(L['atom_num']), sz(L['last_num']), ','.join(sz(x) for x in reversed(L['stack'])),
                         ','.join(f'{sz(k)}:{sz(a)}:{sopt(stoken, ob)}:{sz(ind)}' for k, (a, ob, ind) in L['cycles'].items()),
                         sopt(stoken, L['previous']), sz(len(L['bonds']))])

    def local(f, event, arg):
        if event == 'line' and f.f_lineno == for_line:
            arrivals[0] += 1
            if arrivals[0] > 1:
                out.append(snap(f))
        return local

    def tracer(f, event, arg):
        return local if f.f_code is fn.__code__ else None
    old = sys.gettrace()
    sys.settrace(tracer)
    try:
        fn(tokens, strong)
    except Exception as e:  # noqa
        sys.settrace(old)
        # a raise inside iteration k leaves k-1 snapshots; the guard before the loop leaves none
        return out, sexn(e)
    finally:
        sys.settrace(old)
    return out, None


def corr_trace(ck):
    from chython.files.daylight.tokenize import smiles_tokenize
    rng = random.Random(f'{ck.seed}:c03trace')
    nq = 350 if ck.tier == 'quick' else 2500
    seqs = []
    for _ in range(nq):
        seqs.append(ast_tokens(gen_ast(rng, maxn=10, bad=0.1)))
    for _ in range(nq):
        s = gen_smiles(rng) if rng.random() < 0.6 else corrupt(rng, gen_smiles(rng), alpha=ALPHA)
        try:
            seqs.append(smiles_tokenize(s))
        except Exception:  # noqa
            pass
    alpha = token_alphabet()
    for _ in range(nq // 2):
        seqs.append([alpha[0]()] + [rng.choice(alpha)() for _ in range(rng.randint(1, 9))])
    items = {True: [], False: []}
    for ts in seqs:
        if not ts or ts[0][0] not in (0, 8):
            continue                                  # the guard before the loop is covered by the parser sweep
        for strong in (False, True):
            states, exc = parser_trace(ts, strong)
            if exc is None and len(states) != len(ts):
                ck.unchecked('parser trace', 'the tracer did not see one state per token', [stokens(ts)])
                return False
            if exc is not None and len(states) >= len(ts):
                exc = None                            # raised after the loop (closures left open, bond at the end): not a step of the machine
            items[strong].append((ts, ';'.join(states + ([exc] if exc else []))))
            ck.count('trace:' + (exc or 'all tokens consumed'))
        ck.case(('trace', stokens(ts)), nontrivial=len(ts) > 2)
    bt = Batches(ck, 'c03trace', extra='Import ListNotations. Open Scope Z_scope.')
    for strong in (False, True):
        bt.add_chunked(f'b_trace {cbool(strong)}', items[strong], lambda ts: clist(ctoken(t) for t in ts), chunk=25)
    n = len(items[True])
    ck.extra['trace_sequences'] = n
    ck.extra['trace_states'] = sum(e.count(';') + 1 for _, e in items[True])
    saved = coqcases_imports[0]
    coqcases_imports[0] = 'Tokenize Parser Reader ParserTrace'
    try:
        return bt.run(f'local variables of parser() after every token (atom_num, last_num, stack, cycles, previous, number of bonds; settrace) == '
                      f'Coq machine state after every step, on {n} token sequences (syntax trees, tokenised generated and corrupted strings, random), both modes',
                      single=lambda ts: clist(ctoken(t) for t in ts))
    finally:
        coqcases_imports[0] = saved


def run(ck):
    import os, time
    only = os.environ.get('C03_STEPS')          # development aid: comma separated step names; the real check runs all
    only = set(only.split(',')) if only else None
    ck.trusted += ['translator tools/gen_tokens.py (Python ast: dict displays, regex pattern texts, character classes)',
                   'translator tools/gen_elements.py (symbols and isotope keys)', 'translator tools/gen_c03skel.py (ast.unparse text of the nine modelled functions)',
                   'translator tools/gen_c03tok.py + the expression primitives coq/model/TokenizePrims.v (statement-by-statement translation of _tokenize, _atom_parse, smiles_tokenize)',
                   'translator tools/gen_c03map.py + coq/model/MappingPrims.v (translation of the numbering loops of _mapping.py)',
                   'translator tools/gen_c03rad.py + coq/model/RadicalPrims.v (translation of the CXSMILES radical loops of smiles())',
                   'translator tools/gen_c03cx.py + coq/model/ContractPrims.v (translation of the fragment-contraction block of smiles())',
                   'correspondence runner harness/checks/C03.py + harness/coqcases.py', 'CachedMethods shim harness/boot.py',
                   'CPython 3.12.1 (re, str.split, str.isnumeric, int)', 'RDKit 2026.3 (search only)']
    ck.assumptions += ['the models (coq/model/Tokenize.v, Parser.v, Reader.v) are hand-written mirrors of tokenize.py, parser.py, smiles.py:smiles(), '
                       '_mapping.py and the structural part of _convert.py; tie = exhaustive / generated correspondence evaluated by vm_compute',
                       'strings are sequences of code points 0..255; re / str.split / int / dict order of CPython are modelled',
                       'calc_labels, hydrogen recheck / radical guessing of create_molecule and stereo assignment of postprocess_molecule are not modelled '
                       '(cases decided there are not compared; RDKit search only)']
    ck.extra['rule'] = ('correspondence: every string / bracket body / token sequence up to the stated lengths over the stated alphabets (exhaustive), fixed '
                        'boundary inputs, corpus strings, grammar-generated molecules and reactions with CX blocks, single-edit corruptions, exhaustive small and '
                        'random atom-map configurations; non-trivial = the implementation returned a value (not an exception). search: malformed stream '
                        '(non-trivial = an exception was raised), RDKit comparison (non-trivial = more than one atom), E/Z family (non-trivial = RDKit sees a label)')
    timings = {}
    t = time.time()
    proved = True
    if only is None or 'proof' in only:
        proved = common.standard_proof_steps(ck, translators=['tokens', 'elements', 'c03skel', 'c03tok', 'c03map', 'c03rad', 'c03cx'])
    timings['proof'] = round(time.time() - t, 1)
    tied = True
    for name, f in STEPS:
        if only is not None and name not in only:
            continue
        t = time.time()
        tied = f(ck) and tied
        timings[name] = round(time.time() - t, 1)
    ck.extra['timings_s'] = timings
    ck.extra['proved'] = proved
    ck.extra['tied'] = tied


STEPS = [('tok', corr_tokenize), ('atom', corr_atom), ('parse', corr_parser), ('map', corr_mapping), ('read', corr_reader), ('ast', corr_denote), ('cx', corr_contract), ('trace', corr_trace), ('search', search)]
