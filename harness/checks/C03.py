"""C03 SMILES reader: theorems about the tokenizer / parser / reader models + exhaustive and generated correspondence
of _tokenize, smiles_tokenize, _atom_parse, parser, postprocess_parsed_*, smiles() against the Coq models (results are
compared as texts: Ok structure | exception class) + RDKit differential search and exception classification."""
import copy
import itertools
import random
import re

import boot  # noqa
import common
import coqcases
import corpus

replay = common.generic_replay

# ----------------------------------------------------------------------------------------------------------------
# text form of results (the Coq side is show_* in model/Tokenize.v, Parser.v, Reader.v)

EXN = {'IncorrectSmiles': '!S', 'IncorrectSmarts': '!A', 'IndexError': '!I', 'KeyError': '!K', 'TypeError': '!T',
       'AttributeError': '!U'}


def sexn(e):
    n = type(e).__name__
    if n in EXN:
        return EXN[n]
    if isinstance(e, ValueError):
        return '!V'
    if isinstance(e, KeyError):
        return '!K'
    return '!?'


def sz(n):
    return str(int(n))


def sopt(f, v):
    return '-' if v is None else f(v)


def sbool(v):
    return 'T' if v else 'F'


def szs(l):
    return '[' + ','.join(sz(x) for x in l) + ']'


SIMPLE_KEYS = {'element'}
FULL_KEYS = {'element', 'isotope', 'parsed_mapping', 'charge', 'implicit_hydrogens', 'stereo'}


def satom(d):
    ks = set(d) - {'is_radical'}
    if ks != SIMPLE_KEYS and ks != FULL_KEYS and ks != FULL_KEYS - {'stereo'}:
        return '{?keys ' + ','.join(sorted(ks)) + '}'
    return ('{' + d['element'] + '|' + sopt(sz, d.get('isotope')) + '|' + sopt(sz, d.get('parsed_mapping')) + '|' +
            sz(d.get('charge', 0)) + '|' + sopt(sz, d.get('implicit_hydrogens')) + '|' + sopt(sbool, d.get('stereo')) + '}')


def spayload(p):
    from chython.containers.bonds import QueryBond
    if p is None:
        return '~'
    if isinstance(p, bool):
        return sbool(p)
    if isinstance(p, int):
        return 'i' + sz(p)
    if isinstance(p, str):
        return "'" + p + "'"
    if isinstance(p, QueryBond):
        return 'q' + szs(p.order) + sbool(p.in_ring)
    if isinstance(p, dict):
        return satom(p)
    if isinstance(p, list):
        if p and all(isinstance(x, str) for x in p):
            return "c'" + ''.join(p) + "'"
        return szs(p)
    return '?' + type(p).__name__


def stoken(t):
    return sz(t[0]) + spayload(t[1])


def stokens(ts):
    return ' '.join(stoken(t) for t in ts)


def sparsed(r):
    return ';'.join([
        ','.join(satom(a) for a in r['atoms']),
        ','.join(f'({sz(a)}.{sz(b)}.{spayload(c)})' for a, b, c in r['bonds']),
        ','.join(f'{sz(k)}:[' + '.'.join(sopt(sz, x) for x in v) + ']' for k, v in r['order'].items()),
        ','.join(f'{sz(k)}:{sbool(v)}' for k, v in r['stereo_atoms'].items()),
        ','.join(f'{sz(k)}:{{' + '.'.join(f'{sz(m)}:{sbool(s)}' for m, s in v.items()) + '}' for k, v in r['stereo_bonds'].items()),
        sz(len(r['log']))])


def guarded(fn, show):
    try:
        return show(fn())
    except Exception as e:  # noqa
        return sexn(e)


# ----------------------------------------------------------------------------------------------------------------
# Coq literals

def cstr(t):
    if all(32 <= ord(c) < 127 or c == '\n' for c in t):
        return '"' + t.replace('"', '""') + '"%string'
    assert all(ord(c) < 256 for c in t), repr(t)
    return '(of_codes [' + '; '.join(str(ord(c)) for c in t) + '])'


def cz(n):
    return f'({int(n)})' if n < 0 else str(int(n))


def clist(items):
    return '[' + '; '.join(items) + ']'


def copt(f, v):
    return 'None' if v is None else f'(Some {f(v)})'


def cbool(v):
    return 'true' if v else 'false'


def ctoken(t):
    """a Python token as a Coq term of type Tokenize.token"""
    from chython.containers.bonds import QueryBond
    ty, p = t
    if p is None:
        pl = 'PNone'
    elif isinstance(p, bool):
        pl = f'PBool {cbool(p)}'
    elif isinstance(p, int):
        pl = f'PInt {cz(p)}'
    elif isinstance(p, str):
        pl = f'PStr {cstr(p)}'
    elif isinstance(p, QueryBond):
        pl = f'PQB {clist(cz(x) for x in p.order)} {cbool(p.in_ring)}'
    elif isinstance(p, list):
        pl = f'PZs {clist(cz(x) for x in p)}'
    elif isinstance(p, dict):
        pl = (f'PAtom (mkAt {cstr(p["element"])} {copt(cz, p.get("isotope"))} {copt(cz, p.get("parsed_mapping"))} '
              f'{cz(p.get("charge", 0))} {copt(cz, p.get("implicit_hydrogens"))} {copt(cbool, p.get("stereo"))})')
    else:
        raise TypeError(p)
    return f'({cz(ty)}, {pl})'


# ----------------------------------------------------------------------------------------------------------------
# batches: one Coq case = one helper application on a list of inputs and the expected text of all of them

class Batches:
    def __init__(self, ck, name, extra=''):
        self.ck = ck
        self.name = name
        self.extra = extra
        self.cases = []
        self.meta = []      # per case: (helper, [python inputs], [expected texts])

    def add(self, helper, coq_inputs, py_inputs, expected):
        """helper: Coq function `list A -> string -> bool` (already applied to its flags); coq_inputs: Coq term of the list"""
        self.cases.append(f'{helper} {coq_inputs} {cstr(chr(10).join(expected))}')
        self.meta.append((helper, py_inputs, expected))

    def add_chunked(self, helper, items, fmt, chunk=40):
        """items: list of (python input, expected text)"""
        for i in range(0, len(items), chunk):
            part = items[i:i + chunk]
            self.add(helper, clist(fmt(x) for x, _ in part), [x for x, _ in part], [e for _, e in part])

    def run(self, what, single=None):
        """returns True when every batch agrees. `single(helper, py_input)` gives the Coq input term of one element,
        used to pin a failing batch down to its elements"""
        if not self.cases:
            return True
        size = sum(len(c) for c in self.cases) / len(self.cases)
        shard = max(20, int(110000 / max(size, 1)))
        ok, failing, log = coqcases.run_cases(self.name, 'Tokenize Parser Reader', self.cases, extra=self.extra, shard=shard, timeout=1500)
        bad = []
        if ok and failing and single is not None:
            # second pass: the elements of the first failing batches one by one
            cases2, meta2 = [], []
            for i in failing[:4]:
                helper, ins, exp = self.meta[i]
                for x, e in zip(ins, exp):
                    cases2.append(f'{helper} [{single(x)}] {cstr(e)}')
                    meta2.append((x, e))
            ok2, failing2, _ = coqcases.run_cases(self.name + '_pin', 'Tokenize Parser Reader', cases2, extra=self.extra, shard=400, timeout=900)
            if ok2:
                bad = [meta2[i] for i in failing2[:20]]
        elif failing:
            bad = [(self.meta[i][1][:3], self.meta[i][2][:3]) for i in failing[:5]]
        good = ok and not failing
        self.ck.oblige(f'correspondence: {what}', good, 'correspondence', log[-1500:] or repr(bad)[:1500])
        if not good:
            self.ck.unchecked(f'correspondence {what}', (log[-1500:] or 'model and implementation disagree') , [repr(x)[:300] for x in bad] or
                              [f'{len(failing)} failing batches'])
        self.ck.extra.setdefault('correspondence_batches', {})[self.name] = len(self.cases)
        return good


# ----------------------------------------------------------------------------------------------------------------
# 1. _tokenize / smiles_tokenize: all strings up to length L over the alphabet

ALPHA = '()[]=#:-+.>%/\\@HCcNnOoSsPpFlBrI0129*~$!&,;'
ATOM_ALPHA = '0145CcHaselrJjyt@+-:'


def corr_tokenize(ck):
    from chython.files.daylight.tokenize import _tokenize, smiles_tokenize
    L = 3 if ck.tier == 'quick' else 4
    bt = Batches(ck, 'c03tok', extra=f'Definition al : string := {cstr(ALPHA)}.')
    n = 0
    prefixes = ['']
    for k in range(L):
        nxt = []
        for p in prefixes:
            raw, tok = [], []
            for c in ALPHA:
                s = p + c
                r = guarded(lambda: _tokenize(s), stokens)
                t = guarded(lambda: smiles_tokenize(s), stokens)
                raw.append(r)
                tok.append(t)
                n += 1
                ck.case(('tok', s), nontrivial=not t.startswith('!'))
                ck.count('tokenize:' + (t if t.startswith('!') else 'Ok'))
                if k + 1 < L:
                    nxt.append(s)
            ins = [p + c for c in ALPHA]
            bt.add('b_raw', f'(sweep {cstr(p)} al)', ins, raw)
            bt.add('b_tok', f'(sweep {cstr(p)} al)', ins, tok)
        prefixes = nxt
    # boundary inputs: the empty string, characters outside ASCII (str.isnumeric on Latin-1), white space, quotes
    special = ['', 'C\xb2', 'C%1\xb2', 'C%\xb9\xb9', 'C\xbd', '%\xb2', 'C%1', 'C%12C%12', 'C%123', '[\x85]', 'C\x00', 'C"', "C'", 'C l', '[C"]',
               'C-;!@C', 'C-;!!@C', 'C-,=;@C', 'C-;@;@C', ';!', 'C-;!', 'C!-;@C', 'C!~', 'C-,', 'C-,=,#C', 'Cl', 'Br', 'Bl', 'Cr', 'ClBr', 'CBr',
               '[C][Cl]l', 'C[', 'C]', '[[', '[]', 'C%(', 'C(%12)', 'C%0', 'C%01', 'C%10', 'C0', 'C10', '%', '1', 'C.', '.C', 'C..C']
    items_r = [(s, guarded(lambda: _tokenize(s), stokens)) for s in special]
    items_t = [(s, guarded(lambda: smiles_tokenize(s), stokens)) for s in special]
    bt.add_chunked('b_raw', items_r, cstr)
    bt.add_chunked('b_tok', items_t, cstr)
    n += len(special)
    ck.extra['tokenize_strings'] = n
    ck.sample({'tokenize': 'C(=O)[O-]%12Cl', 'text': guarded(lambda: _tokenize('C(=O)[O-]%12Cl'), stokens)})
    return bt.run(f'_tokenize and smiles_tokenize == Coq model on all {n} strings of length <= {L} over {len(ALPHA)} symbols + boundary inputs',
                  single=cstr)


# ----------------------------------------------------------------------------------------------------------------
# 2. _atom_parse: all bracket bodies up to length L over its alphabet

def corr_atom(ck):
    from chython.files.daylight.tokenize import _atom_parse
    L = 4 if ck.tier == 'quick' else 5
    bt = Batches(ck, 'c03atom', extra=f'Definition al : string := {cstr(ATOM_ALPHA)}.')
    n = 0
    prefixes = ['']
    for k in range(L):
        nxt = []
        for p in prefixes:
            exp = []
            for c in ATOM_ALPHA:
                s = p + c
                e = guarded(lambda: _atom_parse(s), stoken)
                exp.append(e)
                n += 1
                ck.case(('atom', s), nontrivial=not e.startswith('!'))
                ck.count('atom_parse:' + (e if e.startswith('!') else 'Ok'))
                if k + 1 < L:
                    nxt.append(s)
            bt.add('b_atom', f'(sweep {cstr(p)} al)', [p + c for c in ATOM_ALPHA], exp)
        prefixes = nxt
    # every field together, every charge spelling, limits of the counted repetitions
    from chython.files.daylight.tokenize import charge_dict
    special = ['', '13CH4+', '13C@@H+:12', '999Cl@H4----:9999', '1000C', '0C', '12C:12345', 'C:', 'C:0', 'C:0000', 'C:00000', 'se', 'as', 'te', 'Se@@H',
               'nH', 'n+', 'b', 'cH-', 'oH+', 'pH', 'sH+', 'Cn', 'Cs', 'Sn', 'Uuo', 'H', 'HH', 'HH2', 'H+', 'CH5', 'CH0', 'C@@@', 'C@H@', 'C+5', 'C+0', 'C5+',
               'C+-', 'C-+', 'C+++', 'C---', 'C++++', 'C+:1', 'C:1+', 'CH+2:3', '2H', '3H+', 'Fe+3', 'Fe+++', 'Zn++', 'Zn+2', 'K+', 'Cl-', 'O--', 'O-2',
               'N+4', 'N-4', 'N-3', 'C@', 'C@@', 'C@H', 'C@@H2', 'C@TH1', 'C@?', 'ba', 'Ba', 'aS', 'tE', 'Te', 'CH+', 'C H', 'C\n', 'C+\n', '\xb2C', 'C:\xb2',
               'J', 'Q', 'j', 'q', 'w', 'x', 'z', 'Xx', 'Zz', 'Zr', 'Zy', 'Zw'] + ['C' + k for k in charge_dict] + ['13C@H' + k + ':7' for k in charge_dict]
    items = [(s, guarded(lambda: _atom_parse(s), stoken)) for s in special]
    for s, e in items:
        ck.case(('atom', s), nontrivial=not e.startswith('!'))
    bt.add_chunked('b_atom', items, cstr)
    n += len(special)
    ck.extra['atom_parse_bodies'] = n
    ck.sample({'atom_parse': '13C@@H+:12', 'text': guarded(lambda: _atom_parse('13C@@H+:12'), stoken)})
    return bt.run(f'_atom_parse == Coq matcher on all {n} bracket bodies of length <= {L} over {len(ATOM_ALPHA)} symbols + field combinations',
                  single=cstr)


# ----------------------------------------------------------------------------------------------------------------
# 3. parser: all token sequences up to length L over a representative token alphabet, both modes

def token_alphabet():
    from chython.containers.bonds import QueryBond
    full = lambda el, st=None, mp=None, h=0, iso=None, chg=0: {'element': el, 'isotope': iso, 'parsed_mapping': mp, 'charge': chg,  # noqa
                                                                'implicit_hydrogens': h, 'stereo': st}
    return [lambda: (0, {'element': 'C'}), lambda: (8, {'element': 'C'}), lambda: (0, full('C', True, 1, 1)), lambda: (8, full('N', None, None, 1)),
            lambda: (1, 1), lambda: (1, 2), lambda: (9, True), lambda: (9, False), lambda: (2, None), lambda: (3, None), lambda: (4, None),
            lambda: (6, 1), lambda: (6, 2), lambda: (12, QueryBond(1, True)), lambda: (10, [1, 2]), lambda: (1, 4)]


def corr_parser(ck):
    from chython.files.daylight.parser import parser
    from chython.files.daylight.tokenize import smiles_tokenize
    alpha = token_alphabet()
    if ck.tier == 'quick':
        alpha = alpha[:14]
    L = 4 if ck.tier == 'quick' else 5
    extra = 'Import ListNotations. Open Scope Z_scope. Definition ta : list token := ' + clist(ctoken(f()) for f in alpha) + '.'
    bt = Batches(ck, 'c03parse', extra=extra)
    n = 0
    prefixes = [()]
    for k in range(L):
        nxt = []
        for p in prefixes:
            exp = {True: [], False: []}
            ins = []
            for i in range(len(alpha)):
                seq = p + (i,)
                ins.append(seq)
                for strong in (False, True):
                    e = guarded(lambda: parser([alpha[j]() for j in seq], strong), sparsed)
                    exp[strong].append(e)
                    ck.count(f'parser:' + (e if e.startswith('!') else 'Ok'))
                n += 1
                ck.case(('parse', seq), nontrivial=not exp[False][-1].startswith('!'))
                if k + 1 < L:
                    nxt.append(seq)
            for strong in (False, True):
                bt.add(f'b_parse {cbool(strong)}', f'(psweep ta {clist(str(j) + "%nat" for j in p)})', ins, exp[strong])
        prefixes = nxt
    # the empty token list
    for strong in (False, True):
        bt.add(f'b_parse {cbool(strong)}', '[[]]', [()], [guarded(lambda: parser([], strong), sparsed)])
    ck.extra['parser_token_sequences'] = n + 1
    ok1 = bt.run(f'parser == Coq machine on all {n + 1} token sequences of length <= {L} over {len(alpha)} tokens, strong and non-strong',
                 single=lambda seq: clist(f'nth {j} ta (0, PNone)' for j in seq))
    return ok1


def run(ck):
    import os, time
    only = os.environ.get('C03_STEPS')          # development aid: comma separated step names; the real check runs all
    only = set(only.split(',')) if only else None
    ck.trusted += ['translator tools/gen_tokens.py (Python ast: dict displays, regex pattern texts, character classes)',
                   'translator tools/gen_elements.py (symbols and isotope keys)',
                   'correspondence runner harness/checks/C03.py + harness/coqcases.py', 'CachedMethods shim harness/boot.py',
                   'CPython 3.12.1 (re, str.split, str.isnumeric, int)', 'RDKit 2026.3 (search only)']
    timings = {}
    t = time.time()
    proved = True
    if only is None or 'proof' in only:
        proved = common.standard_proof_steps(ck, translators=['tokens', 'elements'])
    timings['proof'] = round(time.time() - t, 1)
    tied = True
    for name, f in STEPS:
        if only is not None and name not in only:
            continue
        t = time.time()
        tied = f(ck) and tied
        timings[name] = round(time.time() - t, 1)
    ck.extra['timings_s'] = timings
    ck.extra['proved'] = proved
    ck.extra['tied'] = tied


STEPS = [('tok', corr_tokenize), ('atom', corr_atom), ('parse', corr_parser)]
