"""C17 fingerprints: theorems about the Coq model (coq/model/Fingerprint.v, PyHash.v); exact correspondence, evaluated
by vm_compute, of the CPython hash model with the running interpreter and of every modelled function with chython
(exhaustive: every labelled graph with 1..4 atoms x every pair of radii in -1..5; corpus / hand-made / generated molecules
x parameter grid incl. malformed parameters; the folding code of the real *_bit_set methods on stub hash sets with
boundary values); a directed search on the disagreeing inputs when a correspondence breaks; and a model-independent
search (brute-force path enumerator, fragment counter, recursive neighbourhood hasher, window arithmetic, renumbering
and insertion-order invariance, indicator vectors, SMILES dictionaries) on the real code."""
import concurrent.futures as cf
import itertools
import random
from collections import Counter

import boot  # noqa
import common
import coqcases
import coqmol
import corpus
from coqfmt import zraw, b, lst, tup, s as cstr

replay = common.generic_replay

IMPORTS = 'Graph PyHash Fingerprint FingerprintCGR LinearSmiles FingerprintVec MorganSmiles LinearSpell LinearSmilesFull ChainsTrace'
EXTRA = '''
Import ListNotations.
Open Scope Z_scope.
Definition ok_set (r : pyres (list Z)) (e : pyres (list Z)) : bool :=
  pyres_eqb (list_eqb Z.eqb) (match r with Ok l => Ok (set_z l) | Err x => Err x end) e.
Definition canon_frags (d : list (list Z * list path)) : list (list Z * list path) :=
  msort _ (fun a b => tuple_leb (fst a) (fst b)) (map (fun e => (fst e, msort path tuple_leb (snd e))) d).
Definition frags_eqb := list_eqb (pair_eqb path_eqb (list_eqb path_eqb)).
Definition dict_eqb := list_eqb (pair_eqb Z.eqb Z.eqb).
Definition paths_eqb := list_eqb path_eqb.
(* one helper per kind of case; `idd` is the identifier dictionary observed on the implementation (compared with
   atom_identifiers g by ids_ok), fed to the *_with functions whose instances at atom_identifiers g are the model *)
Definition ids_ok (g : mol) (e : list (Z * Z)) : bool := dict_eqb (atom_identifiers g) e.
Definition chains_ok (g : mol) (lo hi : Z) (e : list path) : bool := paths_eqb (set_paths (chains g lo hi)) e.
Definition seq_ok (g : mol) (lo hi : Z) (e : list path) : bool :=
  option_eqb paths_eqb (chains_seq_loop (chains_fuel g hi) g lo hi) (Some e).
Definition loop_ok (g : mol) (lo hi : Z) : bool :=
  option_eqb paths_eqb (chains_seq_loop (chains_fuel g hi) g lo hi) (Some (chains_seq g lo hi)).
(* fragment keys are compared after replacing every atom identifier (even positions) by its first position in the
   identifier dictionary: an injective recoding of the keys of one molecule that keeps the case files small *)
Definition idx_of (tbl : list Z) (a : Z) : Z := match index_of tbl a with Some i => i | None => -1 end.
Fixpoint enc_key (tbl : list Z) (k : list Z) : list Z :=
  match k with
  | [] => []
  | [a] => [idx_of tbl a]
  | a :: o :: r => idx_of tbl a :: o :: enc_key tbl r
  end.
Definition frags_ok (idd : list (Z * Z)) (g : mol) (lo hi : Z) (e : list (list Z * list path)) : bool :=
  frags_eqb (canon_frags (map (fun kv => (enc_key (map snd idd) (fst kv), snd kv)) (fragments_with idd g lo hi))) e.
Definition lhs_ok (idd : list (Z * Z)) (g : mol) (lo hi nbp : Z) (e : list Z) : bool :=
  list_eqb Z.eqb (set_z (linear_hashes hash_ztuple_fast nbp (fragments_with idd g lo hi))) e.
Definition lhs_full_ok (g : mol) (lo hi nbp : Z) (e : list Z) : bool :=
  list_eqb Z.eqb (set_z (linear_hash_list hash_ztuple_fast g lo hi nbp)) e.
Definition lbs_full_ok (g : mol) (lo hi len nab nbp : Z) (e : pyres (list Z)) : bool :=
  ok_set (linear_bit_list hash_ztuple_fast g lo hi len nab nbp) e.
Definition fold_ok (len nab : Z) (hs : list Z) (e : pyres (list Z)) : bool := ok_set (bit_list len nab hs) e.
Definition mfold_ok (len nab : Z) (hs : pyres (list Z)) (e : pyres (list Z)) : bool := ok_set (bit_list_of len nab hs) e.
Definition mhd_ok (idd : list (Z * Z)) (g : mol) (lo hi : Z) (e : pyres (list (list (Z * Z)))) : bool :=
  pyres_eqb (list_eqb dict_eqb) (morgan_hash_dict_with hash_ztuple_fast idd g lo hi) e.
Definition mhd_full_ok (g : mol) (lo hi : Z) (e : pyres (list (list (Z * Z)))) : bool :=
  pyres_eqb (list_eqb dict_eqb) (morgan_hash_dict hash_ztuple_fast g lo hi) e.
Definition mhs_full_ok (g : mol) (lo hi : Z) (e : pyres (list Z)) : bool := ok_set (morgan_hash_list hash_ztuple_fast g lo hi) e.
Definition mbs_full_ok (g : mol) (lo hi len nab : Z) (e : pyres (list Z)) : bool :=
  ok_set (morgan_bit_list hash_ztuple_fast g lo hi len nab) e.
(* linear_hash_smiles (Model.LinearSmiles): dictionaries hash -> set of SMILES, compared as dictionaries of sets *)
Definition incl_s (l l' : list string) : bool := forallb (fun x => smem x l') l.
Definition sd_ok (m e : list (Z * list string)) : bool :=
  Nat.eqb (List.length m) (List.length e) && nodup_z (keys m) && nodup_z (keys e) &&
  forallb (fun kv => zmem (fst kv) (keys e) && incl_s (snd kv) (sget e (fst kv)) && incl_s (sget e (fst kv)) (snd kv)) m.
(* chs = the iteration order of the chain set observed on the implementation (it must be an enumeration of chains g lo hi) *)
Definition lhsm_ok (fa : list (Z * string)) (fb : list (Z * list (Z * string))) (idd : list (Z * Z)) (g : mol) (lo hi : Z)
    (chs : list path) (nbp : Z) (e : list (Z * list string)) : bool :=
  paths_eqb (set_paths chs) (set_paths (chains g lo hi)) && Nat.eqb (List.length chs) (List.length (chains g lo hi)) &&
  sd_ok (linear_hash_smiles_with (fa_of fa) (fb_of fb) hash_ztuple_fast idd g chs nbp) e.
(* the suggested fix of linear_hash_smiles, against its reference implementation in the check (fixed_lhs) *)
Definition lhsmf_ok (fa : list (Z * string)) (fb : list (Z * list (Z * string))) (idd : list (Z * Z)) (g : mol) (lo hi : Z)
    (chs : list path) (nbp : Z) (e : list (Z * list string)) : bool :=
  sd_ok (linear_hash_smiles_fixed_with (fa_of fa) (fb_of fb) hash_ztuple_fast idd g chs nbp) e.
(* the numpy arrays (Model.FingerprintVec) *)
Definition vec_eqb := pyres_eqb (list_eqb Z.eqb).
Definition lfp_ok (g : mol) (lo hi len nab nbp : Z) (e : pyres (list Z)) : bool := vec_eqb (linear_fingerprint hash_ztuple_fast g lo hi len nab nbp) e.
Definition mfp_ok (g : mol) (lo hi len nab : Z) (e : pyres (list Z)) : bool := vec_eqb (morgan_fingerprint hash_ztuple_fast g lo hi len nab) e.
Definition clfp_ok (c : cgr) (lo hi len nab nbp : Z) (e : pyres (list Z)) : bool := vec_eqb (cgr_linear_fingerprint hash_ztuple_fast c lo hi len nab nbp) e.
Definition cmfp_ok (c : cgr) (lo hi len nab : Z) (e : pyres (list Z)) : bool := vec_eqb (cgr_morgan_fingerprint hash_ztuple_fast c lo hi len nab) e.
Definition vfold_ok (len nab : Z) (hs : list Z) (e : pyres (list Z)) : bool := vec_eqb (vec_of len (bit_list len nab hs)) e.
Definition mvfold_ok (len nab : Z) (hs : pyres (list Z)) (e : pyres (list Z)) : bool := vec_eqb (vec_of len (bit_list_of len nab hs)) e.
(* morgan_hash_smiles / morgan_smiles_hash (Model.MorganSmiles) over the canonical strings observed on the implementation *)
Definition ball_ok (g : mol) (a : Z) (r : nat) (e : list Z) : bool := list_eqb Z.eqb (set_z (ball g a r)) e.
Definition mhsm_ok (t : list (list Z * string)) (g : mol) (lo hi : Z) (e : pyres (list (Z * list string))) : bool :=
  match morgan_hash_smiles hash_ztuple_fast (cs_of t) g lo hi, e with
  | Ok d, Ok e' => sd_ok d e'
  | Err x, Err y => pyexn_eqb x y
  | _, _ => false
  end.
Definition strd_ok (m e : list (string * list Z)) : bool :=
  Nat.eqb (List.length m) (List.length e) && nodup_s (keys m) && nodup_s (keys e) &&
  forallb (fun kv => smem (fst kv) (keys e) && list_eqb Z.eqb (strget e (fst kv)) (snd kv)) m.
Definition msh_ok (t : list (list Z * string)) (g : mol) (lo hi : Z) (e : pyres (list (string * list Z))) : bool :=
  match morgan_smiles_hash hash_ztuple_fast (cs_of t) g lo hi, e with
  | Ok d, Ok e' => strd_ok d e'
  | Err x, Err y => pyexn_eqb x y
  | _, _ => false
  end.
(* round 3: the spelling of atoms / bonds inside the model (Model.LinearSpell) and the functions of the molecule alone *)
Definition fa_all_ok (g : mol) (t : list (Z * string)) : bool :=
  forallb (fun ns => pyres_eqb String.eqb (lhs_fa_res g (fst ns)) (Ok (snd ns)) && String.eqb (lhs_fa g (fst ns)) (snd ns)) t.
Definition fb_all_ok (g : mol) (t : list (Z * list (Z * string))) : bool :=
  forallb (fun nl => forallb (fun ms => String.eqb (lhs_fb g (fst nl) (fst ms)) (snd ms)) (snd nl)) t.
Definition lhsm_model_ok (g : mol) (lo hi : Z) (chs : list path) (nbp : Z) (e : list (Z * list string)) : bool :=
  sd_ok (linear_hash_smiles_model hash_ztuple_fast g chs nbp) e.
Definition lsh_model_ok (g : mol) (lo hi : Z) (chs : list path) (nbp : Z) (e : list (string * list Z)) : bool :=
  strd_ok (linear_smiles_hash_model hash_ztuple_fast g chs nbp) e.
Definition lhsmf_model_ok (g : mol) (lo hi : Z) (chs : list path) (nbp : Z) (e : list (Z * list string)) : bool :=
  sd_ok (linear_hash_smiles_fixed_model hash_ztuple_fast g chs nbp) e.
(* intermediate states of _chains: the popleft sequence of the deque from the observed initial content q0, and the additions *)
Definition pops_ok (g : mol) (lo hi : Z) (q0 pops : list path) : bool :=
  option_eqb paths_eqb (chains_pops (S (List.length pops)) g hi q0) (Some pops) &&
  match chains_seq_loop_from (S (List.length pops)) g lo hi q0 with
  | Some r => paths_eqb (set_paths r) (set_paths (chains g lo hi))
  | None => false
  end.
(* CGR containers (Model.FingerprintCGR) *)
Definition cwf_ok (c : cgr) : bool := wf_cgr c.
Definition cids_ok (c : cgr) (e : list (Z * Z)) : bool := dict_eqb (cgr_atom_identifiers c) e.
Definition cint_ok (c : cgr) (e : list (Z * list (Z * Z))) : bool :=
  list_eqb (pair_eqb Z.eqb dict_eqb) (map (fun nl => (fst nl, map (fun mb => (fst mb, b_ord (snd mb))) (snd nl))) (m_adj (cgr_skeleton c))) e.
Definition cchains_ok (c : cgr) (lo hi : Z) (e : list path) : bool := paths_eqb (set_paths (cgr_chains c lo hi)) e.
Definition cfrags_ok (c : cgr) (lo hi : Z) (e : list (list Z * list path)) : bool :=
  frags_eqb (canon_frags (map (fun kv => (enc_key (map snd (cgr_atom_identifiers c)) (fst kv), snd kv)) (cgr_fragments c lo hi))) e.
Definition clhs_ok (c : cgr) (lo hi nbp : Z) (e : list Z) : bool :=
  list_eqb Z.eqb (set_z (cgr_linear_hash_list hash_ztuple_fast c lo hi nbp)) e.
Definition clbs_ok (c : cgr) (lo hi len nab nbp : Z) (e : pyres (list Z)) : bool :=
  ok_set (cgr_linear_bit_list hash_ztuple_fast c lo hi len nab nbp) e.
Definition cmhd_ok (c : cgr) (lo hi : Z) (e : pyres (list (list (Z * Z)))) : bool :=
  pyres_eqb (list_eqb dict_eqb) (cgr_morgan_hash_dict hash_ztuple_fast c lo hi) e.
Definition cmhs_ok (c : cgr) (lo hi : Z) (e : pyres (list Z)) : bool := ok_set (cgr_morgan_hash_list hash_ztuple_fast c lo hi) e.
Definition cmbs_ok (c : cgr) (lo hi len nab : Z) (e : pyres (list Z)) : bool :=
  ok_set (cgr_morgan_bit_list hash_ztuple_fast c lo hi len nab) e.
'''


# ------------------------------------------------------------------------------------------------------------
# printing

def pv(v):
    if isinstance(v, bool):
        return f'PBool {b(v)}'
    if isinstance(v, int):
        return f'PInt {zx(v)}'
    return 'PTuple ' + lst([f'({pv(x)})' for x in v])


def zx(v):
    """Coq Z literal; large values in hexadecimal (the number notation reads them about twice as fast)"""
    v = int(v)
    if -65536 < v < 65536:
        return zraw(v)
    return f'(-{hex(-v)})' if v < 0 else hex(v)


def zl(xs):
    return lst(list(xs), zx)


def pl(ps):
    return lst([zl(p) for p in ps])


def res_term(fn, conv):
    """Python outcome as a Coq pyres term; AssertionError is modelled as OtherError"""
    try:
        return 'Ok ' + conv(fn()), None
    except ValueError:
        return 'Err ValueError', 'ValueError'
    except AssertionError:
        return 'Err OtherError', 'AssertionError'
    except KeyError:
        return 'Err KeyError', 'KeyError'
    except IndexError:
        return 'Err IndexError', 'IndexError'
    except TypeError:
        return 'Err TypeError', 'TypeError'


# ------------------------------------------------------------------------------------------------------------
# PyHash against the running interpreter

P61 = 2 ** 61 - 1
BOUNDARY = [0, 1, -1, -2, 2, 3, P61, P61 - 1, P61 + 1, -P61, -P61 - 1, -P61 + 1, 2 * P61, 2 * P61 - 1, 2 * P61 + 1, -2 * P61 - 1,
            -2 * P61 + 1, 2 ** 61, -2 ** 61, 2 ** 62, 2 ** 63, 2 ** 63 - 1, -2 ** 63, -2 ** 63 - 1, 2 ** 64, 2 ** 64 - 1, -2 ** 64,
            2 ** 64 + 1, 2 ** 31, 2 ** 32, 2 ** 33, -2 ** 31, 2 ** 122 - 1, 2 ** 122, 3 * P61 - 1, 999_999_999, 1546275796]


def gen_value(rng, depth=0):
    r = rng.random()
    if r < 0.35 and depth < 3:
        return tuple(gen_value(rng, depth + 1) for _ in range(rng.choice([0, 1, 1, 2, 2, 3, 4, 5, 7, 9])))
    if r < 0.43:
        return rng.random() < 0.5
    k = rng.random()
    if k < 0.3:
        return rng.choice(BOUNDARY)
    if k < 0.5:
        return rng.randint(-300, 300)
    if k < 0.8:
        return rng.randint(-2 ** 63, 2 ** 63 - 1)          # the range of tuple hashes (atom identifiers)
    return rng.randint(-2 ** rng.choice([61, 62, 64, 70, 130]), 2 ** rng.choice([61, 62, 64, 70, 130]))


def kind_of(v):
    if isinstance(v, bool):
        return 'bool'
    if isinstance(v, int):
        return 'int'
    return 'nested-tuple' if any(isinstance(x, tuple) for x in v) else 'flat-tuple'


HASH_EXTRA = '''
Definition hk (v : pyval) (e : Z) : bool := py_hash v =? e.
(* both evaluations of the hash of a tuple of ints: the model and its masked form used by the fingerprint cases *)
Definition hz (l : list Z) (e : Z) : bool := (hash_ztuple l =? e) && (hash_ztuple_fast l =? e).
'''


def corr_pyhash(ck):
    rng = random.Random(f'{ck.seed}:pyhash')
    n = 1200 if ck.tier == 'quick' else 16000
    vals = list(BOUNDARY) + [True, False, (), (True,), (False, 0), ((),), ((), ()), (-1,), (-1, -1), (P61,), ((P61, -1), 2 ** 63)]
    vals += [(x, y) for x in BOUNDARY[:12] for y in BOUNDARY[:12]]
    while len(vals) < n:
        vals.append(gen_value(rng))
    # flat int tuples through hash_ztuple, the function the fingerprint model actually uses
    flat = [tuple(rng.choice([rng.randint(-2 ** 63, 2 ** 63 - 1), rng.randint(0, 120), rng.choice(BOUNDARY)])
                  for _ in range(rng.randint(0, 12))) for _ in range(n // 4)]
    cases = [f'hk ({pv(v)}) {zx(hash(v))}' for v in vals]
    cases += [f'hz {zl(v)} {zx(hash(v))}' for v in flat]
    meta = vals + flat
    for v in meta:
        ck.case(('hash', v))
        ck.count('pyhash:' + kind_of(v))
    ok, failing, log = coqcases.run_cases('c17h', IMPORTS, cases, extra=HASH_EXTRA, shard=400)
    good = ok and not failing
    ck.oblige(f'correspondence: PyHash.py_hash / hash_ztuple == hash() of the running interpreter on {len(cases)} values', good,
              'correspondence', log or str([meta[i] for i in failing[:5]]))
    ck.extra['pyhash_cases'] = len(cases)
    ck.sample({'py_hash_case': cases[len(BOUNDARY) + 20], 'value': repr(meta[len(BOUNDARY) + 20])})
    if not good:
        ck.unchecked('correspondence PyHash model vs CPython hash()', log[-1500:], [repr(meta[i]) for i in failing[:20]])
    return good


# ------------------------------------------------------------------------------------------------------------
# molecules

HAND = ['C', 'CC', 'CCO', 'CC(C)O', 'c1ccccc1', 'Cc1ccccc1', 'C1CC1', 'C1CC2CC1C2', 'C#N', '[13CH4]', '[NH4+]', '[O-]C=O', '[CH3]',
        'C[N+](C)(C)C', 'CC.CC', 'C1CCC2(CC1)CC2', 'c1ccc2ccccc2c1', 'CS(=O)(=O)N', '[Na+].[Cl-]', 'C=C=C', 'FC(F)(F)F',
        'C12C3C4C1C5C2C3C45', '[2H]O[2H]', 'C[NH2+]C.C[NH+](C)C', 'CC(=O)Oc1ccccc1C(=O)O', '[CH2]C[CH2]', 'OCC(O)CO', 'N#CC#N',
        # bonds of order 8 ('~': any / coordination bond): every bond order the containers allow must reach the fingerprint code
        'N~[Cu]', 'Cl[Pt](Cl)(~N)~N', '[Fe]~C#O', 'CC(=O)O~[Na]', 'c1ccccc1~[Cr]', 'C~O']


def random_graph_mol(rng, n_atoms):
    """a MoleculeContainer built through the public API with arbitrary (possibly chemically absurd) connectivity:
    sparse non-contiguous atom numbers, random elements / charges / isotopes / radicals, random bond orders"""
    from chython import MoleculeContainer
    from chython.periodictable import Element
    m = MoleculeContainer()
    nums = rng.sample(range(1, 60), n_atoms)
    for n in nums:
        z = rng.choice([6, 6, 6, 7, 8, 16, 9, 15])
        kw = {}
        if rng.random() < 0.2:
            kw['charge'] = rng.choice([-1, 1])
        if rng.random() < 0.1:
            kw['is_radical'] = True
        if rng.random() < 0.15:
            kw['isotope'] = {6: 13, 7: 15, 8: 18, 16: 34, 9: 18, 15: 32}[z]
        m.add_atom(Element.from_atomic_number(z)(**kw), n)
    p = rng.choice([0.25, 0.4, 0.6, 1.0])
    for i, j in itertools.combinations(nums, 2):
        if rng.random() < p:
            m.add_bond(i, j, rng.choice([1, 1, 1, 2, 3, 4, 8, 8]))
    return m


def renumbered(m, rng):
    nums = list(m._atoms)
    new = rng.sample(range(1, 3 * len(nums) + 10), len(nums))
    m2 = m.copy()
    m2.remap(dict(zip(nums, new)))
    return m2


def order_shuffled(m, rng):
    """same molecule, same numbers, other insertion order of atoms and of every neighbour dict (the stereo labels of
    chython are relative to the neighbour order, so this is used for the stereo-free fingerprint functions only)"""
    m2 = m.copy()
    order = list(m2._atoms)
    rng.shuffle(order)
    m2._atoms = {n: m2._atoms[n] for n in order}
    nb = {}
    for n in order:
        ks = list(m2._bonds[n])
        rng.shuffle(ks)
        nb[n] = {k: m2._bonds[n][k] for k in ks}
    m2._bonds = nb
    m2.flush_cache()
    return m2


def parse(smi):
    from chython import smiles
    try:
        return smiles(smi)
    except Exception:
        return None


# ------------------------------------------------------------------------------------------------------------
# HISTORIES: a fingerprint is a function of the CURRENT structure of the object, whatever was computed on it before.
# An object is used (fingerprint calls), edited in place through the public API, and used again; the second use is judged by the same
# oracles as a freshly built molecule (they read the atoms and bonds as they are now).  Edits: the isotope setter (Element.isotope: no
# cache obligation in its contract), the charge / is_radical setters followed by flush_cache() (what their docstrings ask for), and the
# structural operations add_atom / add_bond / delete_atom / delete_bond (which flush themselves).
WARM_CALLS = ['m.linear_hash_set()', 'm.morgan_hash_set()', 'm.linear_bit_set()', 'm.morgan_bit_set()', 'm._fragments(1, 3)', 'm.linear_fingerprint()',
              'm.morgan_fingerprint()', 'm.linear_hash_smiles(1, 2)', 'm.morgan_hash_set(2, 3)', 'm.linear_hash_set(2, 4, 0)']


def history_edit(m, rng):
    """one in-place edit of m through the public API; returns the Python statement that was executed (None: nothing applicable)"""
    nums = list(m._atoms)
    if not nums:
        return None
    kinds = ['isotope', 'isotope', 'isotope', 'charge', 'radical', 'add_atom', 'delete_bond', 'delete_atom', 'add_bond']
    rng.shuffle(kinds)
    for kind in kinds:
        n = rng.choice(nums)
        a = m._atoms[n]
        if kind == 'isotope':
            options = [i for i in sorted(a.isotopes_distribution) if i != a.isotope] + ([None] if a.isotope is not None else [])
            if not options:
                continue
            stmt = f'm.atom({n}).isotope = {rng.choice(options)!r}'
        elif kind == 'charge':
            stmt = f'm.atom({n}).charge = {rng.choice([c for c in (-1, 0, 1, 2) if c != a.charge])}; m.flush_cache()'
        elif kind == 'radical':
            stmt = f'm.atom({n}).is_radical = {not a.is_radical}; m.flush_cache()'
        elif kind == 'add_atom':
            stmt = f'm.add_bond({n}, m.add_atom({rng.choice(["C", "N", "O", "F"])!r}), {rng.choice([1, 1, 2, 8])})'
        elif kind == 'delete_bond':
            if not m._bonds[n]:
                continue
            stmt = f'm.delete_bond({n}, {rng.choice(list(m._bonds[n]))})'
        elif kind == 'delete_atom':
            if len(nums) < 2:
                continue
            stmt = f'm.delete_atom({n})'
        else:
            free = [k for k in nums if k != n and k not in m._bonds[n]]
            if not free:
                continue
            stmt = f'm.add_bond({n}, {rng.choice(free)}, {rng.choice([1, 2, 3, 8])})'
        try:
            exec(stmt, {'m': m})
        except Exception:
            continue                      # an edit the container refuses (valence checks etc.) is simply not part of the history
        return stmt
    return None


def make_history(m, rng, n_edits=None):
    """use the object, edit it in place, (use it, edit it) ...; returns the list of executed statements, [] when no edit applied"""
    stmts = []
    for _ in range(n_edits or rng.choice([1, 1, 2, 3])):
        warm = rng.sample(WARM_CALLS, rng.choice([1, 2, 3]))
        for w in warm:
            exec(w, {'m': m})
        e = history_edit(m, rng)
        if e is None:
            break
        stmts += warm + [e]
    return stmts if any('=' in x or 'add_' in x or 'delete_' in x for x in stmts) else []



class RecSet(set):
    """records the order of the add() calls of _chains (installed as the module global `set` of linear.py)"""

    def __init__(self, *a):
        super().__init__(*a)
        self.seq = []

    def add(self, x):
        self.seq.append(x)
        super().add(x)


def chains_deque_trace(m, lo, hi):
    """(initial content of the deque, sequence of popleft() results) of _chains, through a recording deque installed as the module
    global `deque` of linear.py; None when the function returns before the loop (min_radius == max_radius == 1)"""
    import collections
    import chython.algorithms.fingerprints.linear as lin
    rec = {}

    class RecDeque(collections.deque):
        def __init__(self, it=()):
            items = list(it)
            rec['init'] = items
            rec['pops'] = []
            super().__init__(items)

        def popleft(self):
            x = super().popleft()
            rec['pops'].append(x)
            return x

    orig = lin.deque
    lin.deque = RecDeque
    try:
        m._chains(lo, hi)
    finally:
        lin.deque = orig
    return (rec['init'], rec['pops']) if rec else None


def chains_sequence(m, lo, hi):
    import chython.algorithms.fingerprints.linear as lin
    lin.set = RecSet
    try:
        r = m._chains(lo, hi)
    finally:
        del lin.set
    return r.seq if isinstance(r, RecSet) else None


# ------------------------------------------------------------------------------------------------------------
# correspondence of the fingerprint model

RADII = [(1, 1), (1, 2), (1, 3), (1, 4), (2, 2), (2, 3), (2, 4), (3, 3), (3, 4), (1, 5), (2, 6), (4, 5), (1, 6), (6, 6), (3, 5)]
BAD_RADII = [(2, 1), (0, 2), (1, 0), (-1, 1), (3, 2), (0, 0), (5, 9), (0, 1)]
LENGTHS = [1, 2, 3, 8, 64, 100, 1000, 1024, 2048, 4096, 2 ** 16, 2 ** 20, 2 ** 31, 12345]
BAD_LENGTHS = [0, -1, -1024]
NABS = [1, 2, 3, 4, 1, 2, 3, 4, 0, -1, 5, 7]
NBPS = [0, 1, 2, 3, 4, 5, 0, 4, -1, 9]
# volume limits of one case (the Coq model hashes about 1000 tuple items per second under vm_compute)
VEC_LENGTHS = [1, 2, 3, 8, 16, 64, 100, 128, 256, 0, -1]        # lengths of the arrays compared entry by entry
MAX_PATHS_CHAINS = 1000        # _chains compared when it has at most this many chains
MAX_PATHS_SEQ = 400            # the add sequence (every chain twice) compared
MAX_PATHS_FRAGS = 300          # _fragments compared (dict_append is quadratic in the number of keys)
MOL_BUDGET_SMALL = 2000        # hashed tuple items per molecule of at most 10 atoms
MOL_BUDGET_LARGE = 900         # ... per larger molecule


def dict_term(d):
    return lst([tup(zraw(k), zx(v)) for k, v in d.items()])


def mol_cases(ck, tag, g, m, rng):
    """[(Coq boolean expression, meta, estimated cost in hashed items)] comparing every modelled function on molecule m
    (Coq names: g = the molecule, d<g> = the identifier dictionary observed on the implementation) with chython"""
    cases = []
    d = 'd' + g
    spent = [0]

    def add(expr, what, params, cost=0):
        spent[0] += cost
        cases.append((expr, (tag, what, params), cost))
        ck.case((tag, what, params))
        ck.count('fp:' + what)

    n = len(m._atoms)
    small = n <= 10
    budget = MOL_BUDGET_SMALL if small else MOL_BUDGET_LARGE       # hashed items per molecule
    scale = 1 if ck.tier == 'quick' else 3

    def affordable(lanes):
        return spent[0] + lanes <= budget
    add(f'wf_mol {g}', 'wf_mol', ())
    add(f'ids_ok {g} {d}', '_atom_identifiers', (), 4 * n)
    add(f'fa_all_ok {g} fa{g}', '_format_atom(n, None, stereo=False) of every atom', ())
    add(f'fb_all_ok {g} fb{g}', '_format_bond(n, m, None, stereo=False, aromatic=False) of every bond', ())
    radii = RADII if small else [r for r in RADII if r[1] <= 4]
    pick = rng.sample(radii, 4 if small else 2) + rng.sample(BAD_RADII, 1)
    idvals = list(m._atom_identifiers.values())

    def enc(key):
        return [idvals.index(x) if i % 2 == 0 else x for i, x in enumerate(key)]
    hashed = 0
    for lo, hi in pick:
        ch = m._chains(lo, hi)
        if len(ch) > MAX_PATHS_CHAINS * scale:
            ck.count('fp:skipped (too many chains)')
            continue
        a = f'{g} {zraw(lo)} {zraw(hi)}'
        tr = chains_deque_trace(m, lo, hi)
        if tr is not None and len(tr[1]) <= MAX_PATHS_SEQ * scale:
            # intermediate states: the deque content at the start (set order for min_radius = 1) and every popleft()
            add(f'pops_ok {a} {pl(tr[0])} {pl(tr[1])}', '_chains (initial deque and popleft sequence)', (lo, hi))
        seq = chains_sequence(m, lo, hi)
        if small or seq is None or len(ch) > MAX_PATHS_SEQ * scale:        # (for a larger molecule the add sequence, which determines the set, is compared instead)
            add(f'chains_ok {a} {pl(sorted(ch))}', '_chains(set)', (lo, hi))
        if seq is not None and len(ch) <= MAX_PATHS_SEQ * scale:
            add(f'seq_ok {a} {pl(seq)}', '_chains(add sequence, deque loop model)', (lo, hi))
        elif small:
            add(f'loop_ok {a}', 'loop model == generation model', (lo, hi))
        if len(ch) > MAX_PATHS_FRAGS * scale:
            continue
        frd = m._fragments(lo, hi)
        fr = sorted((enc(k), sorted(v)) for k, v in frd.items())
        add(f'frags_ok {d} {a} {lst([tup(zl(k), pl(v)) for k, v in fr])}', '_fragments', (lo, hi))
        nbp = rng.choice(NBPS)
        cap = nbp or 999_999_999
        lanes = sum((len(k) + 1) * max(0, min(len(v), cap)) for k, v in frd.items())
        if affordable(lanes) and (small or hashed == 0):
            hashed += 1
            hs = sorted(m.linear_hash_set(lo, hi, nbp))
            if small:       # the top-level model function, identifiers recomputed
                add(f'lhs_full_ok {a} {zraw(nbp)} {zl(hs)}', 'linear_hash_set', (lo, hi, nbp), lanes + 4 * n)
            else:
                add(f'lhs_ok {d} {a} {zraw(nbp)} {zl(hs)}', 'linear_hash_set (over the observed identifiers)', (lo, hi, nbp), lanes)
            if lanes <= 500 and (affordable(lanes) or lanes <= 300):
                # linear_hash_smiles over the observed iteration order of the chain set and the observed atom / bond spellings
                order = list(m._chains(lo, hi))
                exp = m.linear_hash_smiles(lo, hi, nbp)
                add(f'lhsm_ok fa{g} fb{g} {d} {a} {pl(order)} {zraw(nbp)} {lst([tup(zx(k), lst([cstr(x) for x in v])) for k, v in exp.items()])}',
                    'linear_hash_smiles (over the observed set order and spellings)', (lo, hi, nbp), lanes)
                if small and lanes <= 250:
                    # the same with the spelling computed by the model (Model.LinearSpell): functions of the molecule and of the set order only
                    add(f'lhsm_model_ok {a} {pl(order)} {zraw(nbp)} {lst([tup(zx(k), lst([cstr(x) for x in v])) for k, v in exp.items()])}',
                        'linear_hash_smiles (model spelling)', (lo, hi, nbp), lanes + 4 * n)
                    lsh = m.linear_smiles_hash(lo, hi, nbp)
                    add(f'lsh_model_ok {a} {pl(order)} {zraw(nbp)} {lst([tup(cstr(k), zl(v)) for k, v in lsh.items()])}',
                        'linear_smiles_hash (model spelling)', (lo, hi, nbp), lanes + 4 * n)
                expf = fixed_lhs(m, lo, hi, nbp)
                add(f'lhsmf_ok fa{g} fb{g} {d} {a} {pl(order)} {zraw(nbp)} {lst([tup(zx(k), lst([cstr(x) for x in v])) for k, v in expf.items()])}',
                    'suggested fix of linear_hash_smiles (reference implementation of the check)', (lo, hi, nbp), lanes)
        if affordable(lanes + 4 * n) and (small or lanes < 300):
            ln = rng.choice(LENGTHS + BAD_LENGTHS[:1]) if rng.random() < 0.9 else rng.choice(BAD_LENGTHS)
            nab, nbp = rng.choice(NABS), rng.choice(NBPS)
            t, err = res_term(lambda: m.linear_bit_set(lo, hi, ln, nab, nbp), lambda s: zl(sorted(s)))
            add(f'lbs_full_ok {a} {zraw(ln)} {zraw(nab)} {zraw(nbp)} ({t})', 'linear_bit_set' + (':' + err if err else ''),
                (lo, hi, ln, nab, nbp), lanes + 4 * n)
            if small and affordable(lanes + 4 * n):
                ln = rng.choice(VEC_LENGTHS)
                t, err = res_term(lambda: m.linear_fingerprint(lo, hi, ln, nab, nbp).tolist(), zl)
                add(f'lfp_ok {a} {zraw(ln)} {zraw(nab)} {zraw(nbp)} ({t})', 'linear_fingerprint (array)' + (':' + err if err else ''),
                    (lo, hi, ln, nab, nbp), lanes + 4 * n)
    deg = sum(len(v) for v in m._bonds.values())
    mr = rng.sample(RADII, 3) + rng.sample(BAD_RADII, 1) if small else rng.sample([r for r in RADII if r[1] <= 3], 1) + rng.sample(BAD_RADII, 1)
    for lo, hi in mr:
        lanes = max(0, hi - 1) * (n + 2 * deg)
        if not affordable(lanes if not small else 3 * lanes):
            ck.count('fp:skipped (Morgan over the budget)')
            continue
        a = f'{g} {zraw(lo)} {zraw(hi)}'
        t, err = res_term(lambda: m._morgan_hash_dict(lo, hi), lambda ds: lst([dict_term(x) for x in ds]))
        if not small:
            add(f'mhd_ok {d} {a} ({t})', '_morgan_hash_dict (over the observed identifiers)' + (':' + err if err else ''), (lo, hi), lanes)
            continue
        add(f'mhd_full_ok {a} ({t})', '_morgan_hash_dict' + (':' + err if err else ''), (lo, hi), lanes + 4 * n)
        t, err = res_term(lambda: m.morgan_hash_set(lo, hi), lambda s: zl(sorted(s)))
        add(f'mhs_full_ok {a} ({t})', 'morgan_hash_set' + (':' + err if err else ''), (lo, hi), lanes + 4 * n)
        ln = rng.choice(LENGTHS + BAD_LENGTHS)
        nab = rng.choice(NABS)
        t, err = res_term(lambda: m.morgan_bit_set(lo, hi, ln, nab), lambda s: zl(sorted(s)))
        add(f'mbs_full_ok {a} {zraw(ln)} {zraw(nab)} ({t})', 'morgan_bit_set' + (':' + err if err else ''), (lo, hi, ln, nab), lanes + 4 * n)
        ln = rng.choice(VEC_LENGTHS)
        t, err = res_term(lambda: m.morgan_fingerprint(lo, hi, ln, nab).tolist(), zl)
        add(f'mfp_ok {a} {zraw(ln)} {zraw(nab)} ({t})', 'morgan_fingerprint (array)' + (':' + err if err else ''), (lo, hi, ln, nab), lanes + 4 * n)
    return cases


def corr_molecules(ck):
    from chython import MoleculeContainer
    rng = random.Random(f'{ck.seed}:fp')
    quick = ck.tier == 'quick'
    mols = [('empty', None, MoleculeContainer())]
    for smi in HAND:
        m = parse(smi)
        if m is not None:
            mols.append(('hand:' + smi, smi, m))
    pool = [s for s in corpus.sample(corpus.lipo(), 400 if quick else 3000, ck.seed, 'c17corr')]
    n_corpus = 0
    for smi in pool:
        if n_corpus >= (30 if quick else 200):
            break
        m = parse(smi)
        if m is None or len(m._atoms) > 30:
            continue
        n_corpus += 1
        mols.append(('corpus:' + smi, smi, m))
        if n_corpus % 3 == 0:
            mols.append(('corpus-renumbered:' + smi, None, renumbered(m, rng)))
        if n_corpus % 3 == 1:
            mols.append(('corpus-order-shuffled:' + smi, None, order_shuffled(m, rng)))
    for i in range(30 if quick else 200):
        k = rng.choice([1, 2, 3, 4, 4, 5, 5, 6, 6, 7])
        mols.append((f'generated-graph:{i}:{k}', None, random_graph_mol(rng, k)))
    # histories: the object was used, edited in place through the public API and is used again (the model is a function of the printed,
    # current structure; identifiers and everything downstream are observed on the used object)
    hist_src = [x for x in mols if x[0].startswith(('hand:', 'corpus:', 'generated-graph:')) and 0 < len(x[2]._atoms) <= 14]
    for tag, smi, m0 in rng.sample(hist_src, min(10 if quick else 80, len(hist_src))):
        m = m0.copy()
        stmts = make_history(m, rng)
        if stmts:
            mols.append(('history:' + tag + ':' + '; '.join(stmts)[:200], None, m))
    per_mol = []
    for i, (tag, smi, m) in enumerate(mols):
        ck.count('molecules:' + tag.split(':')[0])
        ck.count(f'molecule_atoms<={(len(m._atoms) + 4) // 5 * 5}')
        g = f'g{i}'
        cs = mol_cases(ck, tag, g, m, rng)
        defs = f'Definition {g} : mol := {coqmol.mol_term(m)}.\nDefinition d{g} : list (Z * Z) := {dict_term(m._atom_identifiers)}.\n'
        defs += (f'Definition fa{g} : list (Z * string) := {lst([tup(zraw(k), cstr(m._format_atom(k, None, stereo=False))) for k in m._atoms])}.\n'
                 f'Definition fb{g} : list (Z * list (Z * string)) := '
                 f'{lst([tup(zraw(k), lst([tup(zraw(j), cstr(m._format_bond(k, j, None, stereo=False, aromatic=False))) for j in nb])) for k, nb in m._bonds.items()])}.\n')
        per_mol.append((defs, cs))
    ck.sample({'molecule': mols[5][0], 'case': per_mol[5][1][3][0][:300], 'meta': repr(per_mol[5][1][3][1])})
    # molecules are packed into shards of balanced estimated cost (one coqc process per shard)
    n_shards = 8 if quick else 48
    order = sorted(range(len(per_mol)), key=lambda i: -(sum(c[2] for c in per_mol[i][1]) + sum(len(c[0]) for c in per_mol[i][1]) // 20))
    shards = [[] for _ in range(n_shards)]
    load = [0] * n_shards
    for i in order:
        k = load.index(min(load))
        shards[k].append(i)
        load[k] += sum(c[2] for c in per_mol[i][1]) + sum(len(c[0]) for c in per_mol[i][1]) // 20 + 50

    def one(k):
        extra = EXTRA + ''.join(per_mol[i][0] for i in shards[k])
        cs = [c for i in shards[k] for c in per_mol[i][1]]
        ok, failing, log = coqcases.run_cases(f'c17m{k}', IMPORTS, [c[0] for c in cs], extra=extra, shard=max(1, len(cs)))
        return ok, [cs[j][1] for j in failing], log

    bad = []
    logs = []
    ok_all = True
    with cf.ThreadPoolExecutor(max_workers=8) as ex:
        for ok, failing, log in ex.map(one, [k for k in range(n_shards) if shards[k]]):
            ok_all &= ok
            bad.extend(failing)
            if log:
                logs.append(log[-1500:])
    total = sum(len(cs) for _, cs in per_mol)
    good = ok_all and not bad
    ck.oblige(f'correspondence: _chains (set; add sequence for min_radius != 1), _atom_identifiers, _fragments, linear_hash_set, linear_bit_set, '
              f'_morgan_hash_dict, morgan_hash_set, morgan_bit_set == Coq model on {len(mols)} molecules / {total} cases', good,
              'correspondence', '\n'.join(logs) or repr(bad[:8]))
    ck.extra['fingerprint_cases'] = total
    ck.extra['fingerprint_molecules'] = len(mols)
    ck.extra['fingerprint_hashed_items_estimate'] = sum(c[2] for _, cs in per_mol for c in cs)
    if not good:
        ck.unchecked('correspondence Fingerprint model vs chython/algorithms/fingerprints', '\n'.join(logs)[-1500:],
                     [repr(x) for x in bad[:20]])
    by_tag = {tag: (smi, m) for tag, smi, m in mols}
    return good, bad, by_tag


# ------------------------------------------------------------------------------------------------------------
# morgan_hash_smiles / morgan_smiles_hash: the model over the canonical strings observed on the implementation

MS_SMILES = ['C', 'CC', 'CCO', 'CC(C)O', 'c1ccccc1', 'Cc1ccccc1', 'C1CC1', 'C#N', '[NH4+]', '[O-]C=O', 'CC.CC', '[Na+].[Cl-]', 'C=C=C', 'FC(F)(F)F',
             'O[C@H]1C[C@@H](O)C1', 'C[C@H](O)F', 'F/C=C/F', 'C[N+](C)(C)C', 'OCC(O)CO', 'N#CC#N', 'C1CC2CC1C2', 'CS(=O)(=O)N', 'N~[Cu]', 'Cl[Pt](Cl)(~N)~N', '[Fe]~C#O']


def corr_morgan_smiles(ck):
    rng = random.Random(f'{ck.seed}:morgan_smiles')
    quick = ck.tier == 'quick'
    pool = [('hand:' + s_, parse(s_)) for s_ in MS_SMILES]
    n_c = 0
    for smi in corpus.sample(corpus.lipo(), 300 if quick else 2000, ck.seed, 'c17ms'):
        if n_c >= (10 if quick else 120):
            break
        m = parse(smi)
        if m is None or len(m._atoms) > 16:
            continue
        n_c += 1
        pool.append(('corpus:' + smi, m))
    pool = [(tag, m) for tag, m in pool if m is not None]
    pool += [(tag + ':renumbered', renumbered(m, rng)) for j, (tag, m) in enumerate(pool) if j % 3 == 0]
    defs, cases, meta = [], [], []
    conflicts = []

    def add(expr, tag, what, params):
        cases.append(expr)
        meta.append((tag, what, params))
        ck.case(meta[-1])
        ck.count('ms:' + what)

    for i, (tag, m) in enumerate(pool):
        g = f'q{i}'
        ck.count('ms molecules:' + tag.split(':')[0] + (':renumbered' if tag.endswith(':renumbered') else ''))
        radii = rng.sample([(1, 1), (1, 2), (1, 3), (2, 2), (2, 3), (1, 4), (3, 3)], 2) + rng.sample(BAD_RADII, 1)
        table = {}
        try:
            for lo, hi in radii:
                if not 1 <= lo <= hi:
                    continue
                for r in range(lo - 1, hi):
                    for a in m._atoms:
                        key = tuple(sorted(m._augmented_substructure((a,), r)[-1]))
                        s_ = format(m.augmented_substructure((a,), deep=r), 'A')
                        if table.setdefault(key, s_) != s_:
                            conflicts.append((tag, key))
            results = [(lo, hi, res_term(lambda: m.morgan_hash_smiles(lo, hi), lambda d: lst([tup(zx(k), lst([cstr(x) for x in v])) for k, v in d.items()])),
                        res_term(lambda: m.morgan_smiles_hash(lo, hi), lambda d: lst([tup(cstr(k), zl(v)) for k, v in d.items()]))) for lo, hi in radii]
        except Exception:               # a substructure that chython cannot build / write: outside this correspondence
            ck.count('ms:skipped (substructure not writable)')
            continue
        defs.append(f'Definition {g} : mol := {coqmol.mol_term(m)}.\n'
                    f'Definition t{g} : list (list Z * string) := {lst([tup(zl(k), cstr(v)) for k, v in table.items()])}.\n')
        add(f'wf_mol {g}', tag, 'wf_mol', ())
        for a in rng.sample(list(m._atoms), min(3, len(m._atoms))):
            r = rng.choice([0, 1, 2, 3])
            add(f'ball_ok {g} {zraw(a)} {r}%nat {zl(sorted(m._augmented_substructure((a,), r)[-1]))}', tag, '_augmented_substructure (atom set)', (a, r))
        for lo, hi, (t1, e1), (t2, e2) in results:
            add(f'mhsm_ok t{g} {g} {zraw(lo)} {zraw(hi)} ({t1})', tag, 'morgan_hash_smiles' + (':' + e1 if e1 else ''), (lo, hi))
            add(f'msh_ok t{g} {g} {zraw(lo)} {zraw(hi)} ({t2})', tag, 'morgan_smiles_hash' + (':' + e2 if e2 else ''), (lo, hi))
    n_sh = 2 if quick else 12
    ok, failing, log = coqcases.run_cases('c17s', IMPORTS, cases, extra=EXTRA + ''.join(defs), shard=max(1, (len(cases) + n_sh - 1) // n_sh))
    good = ok and not failing and not conflicts
    ck.oblige(f'correspondence (morgan_hash_smiles): atom set of augmented_substructure, morgan_hash_smiles and morgan_smiles_hash == Model.MorganSmiles over the '
              f'canonical strings observed on the implementation (a function of the atom set: {len(conflicts)} conflicts) on {len(pool)} molecules / {len(cases)} cases',
              good, 'correspondence', log or repr([meta[i] for i in failing[:8]] + conflicts[:3]))
    ck.extra['morgan_smiles_cases'] = len(cases)
    if not good:
        # directed search: the independent oracle on the molecules of this correspondence, every pair of radii
        for tag, m in pool:
            if tag.startswith(('hand:', 'corpus:')) and not tag.endswith(':renumbered'):
                try:
                    search_morgan_smiles(ck, tag, tag.split(':', 1)[1], m, rng, radii=MS_RADII)
                except Exception:
                    ck.count('ms:directed search skipped (substructure not writable)')
        ck.unchecked('correspondence MorganSmiles model vs morgan_hash_smiles / morgan_smiles_hash', log[-1500:], [repr(meta[i]) for i in failing[:20]] + [repr(c) for c in conflicts[:5]])
    return good


# ------------------------------------------------------------------------------------------------------------
# CGR containers (FingerprintsCGR)

REACTIONS = [('CC(=O)O', 'CC(=O)[O-]', None), ('CCO', 'CC=O', None), ('CCO.Cl', 'CCCl.O', {4: 3, 3: 4}), ('C=CC=C.C=C', 'C1CCC=CC1', {5: 6, 6: 5}),
             ('C[CH2]', 'CC', None), ('[13CH3]O', '[13CH3][O-]', None), ('CC(=O)Cl.N', 'CC(=O)N.Cl', {4: 5, 5: 4}), ('c1ccccc1', 'C1=CC=CC=C1', None),
             ('C', 'C', None), ('OO', 'O.O', None), ('N.[Cu]', 'N~[Cu]', None), ('Cl[Pt](Cl)(~N)~N', 'Cl[Pt](Cl)~N.N', None)]


def cgr_from_dicts(atoms, bonds):
    """CGRContainer from {n: (atomic number, isotope, charge, p_charge, is_radical, p_is_radical)} and
    {n: {m: (order, p_order)}} (given in both directions, insertion order kept); one DynamicBond object per bond"""
    from chython.containers import CGRContainer
    from chython.containers.bonds import DynamicBond
    from chython.periodictable import DynamicElement
    c = CGRContainer()
    for n, (z, iso, ch, pch, rad, prad) in atoms.items():
        a = DynamicElement.from_atomic_number(z)(iso)
        a._charge, a._p_charge, a._is_radical, a._p_is_radical = ch, pch, rad, prad
        c._atoms[n] = a
        c._bonds[n] = {}
    made = {}
    for n, nb in bonds.items():
        for m, (o, po) in nb.items():
            bd = made.get((m, n))
            if bd is None:
                bd = made[(n, m)] = DynamicBond(o, po)
            c._bonds[n][m] = bd
    return c


def cgr_dicts(c):
    atoms = {n: (a.atomic_number, a.isotope, a.charge, a.p_charge, a.is_radical, a.p_is_radical) for n, a in c._atoms.items()}
    bonds = {n: {m: (bd.order, bd.p_order) for m, bd in nb.items()} for n, nb in c._bonds.items()}
    return atoms, bonds


def cgr_renumbered(c, rng):
    atoms, bonds = cgr_dicts(c)
    nums = list(atoms)
    mp = dict(zip(nums, rng.sample(range(1, 3 * len(nums) + 10), len(nums))))
    return cgr_from_dicts({mp[n]: a for n, a in atoms.items()}, {mp[n]: {mp[m]: b_ for m, b_ in nb.items()} for n, nb in bonds.items()})


def cgr_shuffled(c, rng):
    atoms, bonds = cgr_dicts(c)
    order = list(atoms)
    rng.shuffle(order)
    nb2 = {}
    for n in order:
        ks = list(bonds[n])
        rng.shuffle(ks)
        nb2[n] = {k: bonds[n][k] for k in ks}
    return cgr_from_dicts({n: atoms[n] for n in order}, nb2)


def random_cgr(rng, n_atoms):
    nums = rng.sample(range(1, 60), n_atoms)
    atoms = {}
    for n in nums:
        z = rng.choice([6, 6, 6, 7, 8, 16, 9, 15])
        ch = rng.choice([0, 0, 0, 1, -1])
        rad = rng.random() < 0.1
        atoms[n] = (z, {6: 13, 7: 15, 8: 18, 16: 34, 9: 18, 15: 32}[z] if rng.random() < 0.15 else None, ch, ch if rng.random() < 0.7 else rng.choice([0, 1, -1]),
                    rad, rad if rng.random() < 0.8 else not rad)
    bonds = {n: {} for n in nums}
    p = rng.choice([0.25, 0.4, 0.6, 1.0])
    for i, j in itertools.combinations(nums, 2):
        if rng.random() < p:
            o = rng.choice([1, 1, 2, 3, 4, 8, None])
            po = o if rng.random() < 0.6 else rng.choice([1, 2, 3, 4, 8, None])
            if o is None and po is None:
                po = 1
            bonds[i][j] = bonds[j][i] = (o, po)
    return cgr_from_dicts(atoms, bonds)


def cgr_term(c):
    atoms, bonds = cgr_dicts(c)
    at = lst([tup(zraw(n), f'(mkCAtom {zraw(z)} {opt_z(iso)} {zraw(ch)} {zraw(pch)} {b(rad)} {b(prad)})') for n, (z, iso, ch, pch, rad, prad) in atoms.items()])
    adj = lst([tup(zraw(n), lst([tup(zraw(m), f'(mkCBond {opt_z(o)} {opt_z(po)})') for m, (o, po) in nb.items()])) for n, nb in bonds.items()])
    return f'(mkCgr {at} {adj})'


def opt_z(v):
    return 'None' if v is None else f'(Some {zraw(v)})'


def cgr_pool(ck, rng):
    from chython import smiles
    quick = ck.tier == 'quick'
    out = []
    for r, p_, mp in REACTIONS:
        a, b_ = smiles(r), smiles(p_)
        if mp:
            b_.remap(mp)
        try:
            out.append((f'compose:{r}>>{p_}', a ^ b_))
        except Exception:
            continue
    # a corpus molecule composed with an edited copy of itself (bond deleted / order changed / charge changed)
    n_c = 0
    for smi in corpus.sample(corpus.lipo(), 200 if quick else 1500, ck.seed, 'c17cgr'):
        if n_c >= (8 if quick else 100):
            break
        m = parse(smi)
        if m is None or not 4 <= len(m._atoms) <= 24:
            continue
        m2 = m.copy()
        try:
            bl = [(x, y) for x, y, _ in m2.bonds()]
            x, y = rng.choice(bl)
            m2.delete_bond(x, y)
            x, y = rng.choice([q for q in bl if q != (x, y)])
            old = int(m2.bond(x, y))
            m2.delete_bond(x, y)
            m2.add_bond(x, y, rng.choice([o for o in (1, 2, 3) if o != old]))
            c = m ^ m2
        except Exception:
            continue
        n_c += 1
        out.append((f'corpus-cgr:{smi}', c))
    for i in range(14 if quick else 200):
        k = rng.choice([1, 2, 3, 4, 4, 5, 5, 6, 7])
        out.append((f'generated-cgr:{i}:{k}', random_cgr(rng, k)))
    extra = []
    for j, (tag, c) in enumerate(out):
        if j % 4 == 1:
            extra.append((tag + ':renumbered', cgr_renumbered(c, rng)))
        if j % 4 == 3:
            extra.append((tag + ':shuffled', cgr_shuffled(c, rng)))
    return out + extra


def corr_cgr(ck):
    rng = random.Random(f'{ck.seed}:cgr')
    pool = cgr_pool(ck, rng)
    defs, cases = [], []

    def add(expr, tag, what, params, cost=0):
        cases.append((expr, (tag, what, params)))
        ck.case((tag, what, params))
        ck.count('cgr:' + what)

    for i, (tag, c) in enumerate(pool):
        g = f'c{i}'
        n = len(c._atoms)
        ck.count('cgr molecules:' + tag.split(':')[0] + (':' + tag.rsplit(':', 1)[1] if tag.endswith(('renumbered', 'shuffled')) else ''))
        defs.append(f'Definition {g} : cgr := {cgr_term(c)}.\n')
        add(f'cwf_ok {g}', tag, 'wf_cgr', ())
        ids = c._atom_identifiers
        add(f'cids_ok {g} {dict_term(ids)}', tag, '_atom_identifiers', ())
        add(f'cint_ok {g} {lst([tup(zraw(k), dict_term({m: int(bd) for m, bd in nb.items()})) for k, nb in c._bonds.items()])}', tag, 'int(DynamicBond)', ())
        idvals = list(ids.values())
        small = n <= 10
        radii = RADII if small else [r for r in RADII if r[1] <= 3]
        spent = 0
        for lo, hi in rng.sample(radii, 3 if small else 2) + rng.sample(BAD_RADII, 1):
            ch = c._chains(lo, hi)
            if len(ch) > MAX_PATHS_FRAGS:
                continue
            a = f'{g} {zraw(lo)} {zraw(hi)}'
            add(f'cchains_ok {a} {pl(sorted(ch))}', tag, '_chains(set)', (lo, hi))
            frd = c._fragments(lo, hi)
            fr = sorted(([idvals.index(x) if j % 2 == 0 else x for j, x in enumerate(k)], sorted(v)) for k, v in frd.items())
            add(f'cfrags_ok {a} {lst([tup(zl(k), pl(v)) for k, v in fr])}', tag, '_fragments', (lo, hi))
            nbp = rng.choice(NBPS)
            cap = nbp or 999_999_999
            lanes = sum((len(k) + 1) * max(0, min(len(v), cap)) for k, v in frd.items())
            if spent + lanes > (1500 if small else 600):
                continue
            spent += lanes
            add(f'clhs_ok {a} {zraw(nbp)} {zl(sorted(c.linear_hash_set(lo, hi, nbp)))}', tag, 'linear_hash_set', (lo, hi, nbp))
            if small:
                ln = rng.choice(LENGTHS + BAD_LENGTHS)
                nab = rng.choice(NABS)
                t_, err = res_term(lambda: c.linear_bit_set(lo, hi, ln, nab, nbp), lambda s: zl(sorted(s)))
                add(f'clbs_ok {a} {zraw(ln)} {zraw(nab)} {zraw(nbp)} ({t_})', tag, 'linear_bit_set' + (':' + err if err else ''), (lo, hi, ln, nab, nbp))
                ln = rng.choice(VEC_LENGTHS)
                t_, err = res_term(lambda: c.linear_fingerprint(lo, hi, ln, nab, nbp).tolist(), zl)
                add(f'clfp_ok {a} {zraw(ln)} {zraw(nab)} {zraw(nbp)} ({t_})', tag, 'linear_fingerprint (array)' + (':' + err if err else ''), (lo, hi, ln, nab, nbp))
        for lo, hi in (rng.sample(RADII, 2) if small else rng.sample([r for r in RADII if r[1] <= 3], 1)) + rng.sample(BAD_RADII, 1):
            a = f'{g} {zraw(lo)} {zraw(hi)}'
            t_, err = res_term(lambda: c._morgan_hash_dict(lo, hi), lambda ds: lst([dict_term(x) for x in ds]))
            add(f'cmhd_ok {a} ({t_})', tag, '_morgan_hash_dict' + (':' + err if err else ''), (lo, hi))
            if small:
                t_, err = res_term(lambda: c.morgan_hash_set(lo, hi), lambda s: zl(sorted(s)))
                add(f'cmhs_ok {a} ({t_})', tag, 'morgan_hash_set' + (':' + err if err else ''), (lo, hi))
                ln, nab = rng.choice(LENGTHS + BAD_LENGTHS), rng.choice(NABS)
                t_, err = res_term(lambda: c.morgan_bit_set(lo, hi, ln, nab), lambda s: zl(sorted(s)))
                add(f'cmbs_ok {a} {zraw(ln)} {zraw(nab)} ({t_})', tag, 'morgan_bit_set' + (':' + err if err else ''), (lo, hi, ln, nab))
                ln = rng.choice(VEC_LENGTHS)
                t_, err = res_term(lambda: c.morgan_fingerprint(lo, hi, ln, nab).tolist(), zl)
                add(f'cmfp_ok {a} {zraw(ln)} {zraw(nab)} ({t_})', tag, 'morgan_fingerprint (array)' + (':' + err if err else ''), (lo, hi, ln, nab))
    n_sh = 4 if ck.tier == 'quick' else 24
    ok, failing, log = coqcases.run_cases('c17c', IMPORTS, [x[0] for x in cases], extra=EXTRA + ''.join(defs), shard=max(1, (len(cases) + n_sh - 1) // n_sh))
    good = ok and not failing
    ck.oblige(f'correspondence (CGR): FingerprintsCGR._atom_identifiers, int(DynamicBond), _chains, _fragments, linear_hash_set, linear_bit_set, _morgan_hash_dict, '
              f'morgan_hash_set, morgan_bit_set on CGRContainer == Model.FingerprintCGR on {len(pool)} CGRs / {len(cases)} cases', good, 'correspondence',
              log or repr([cases[i][1] for i in failing[:8]]))
    ck.extra['cgr_cases'] = len(cases)
    ck.extra['cgr_containers'] = len(pool)
    bad = [cases[i][1] for i in failing]
    if not good:
        ck.unchecked('correspondence FingerprintCGR model vs FingerprintsCGR on CGRContainer', log[-1500:], [repr(x) for x in bad[:20]])
    # search: model-independent oracles on every CGR of the pool (all of them when the correspondence broke: the same pool)
    timed_search = 0
    for tag, c in pool:
        timed_search += search_cgr(ck, tag, c, rng)
    ck.extra['cgr_search_evaluations'] = timed_search
    return good


def my_cgr_identifiers(c):
    return {n: hash((a.isotope or 0, a.atomic_number, a.charge, a.p_charge, bool(a.is_radical), bool(a.p_is_radical))) for n, a in c._atoms.items()}


def search_cgr(ck, tag, c, rng):
    """brute-force paths / fragment counts / recursive Morgan / windows / renumbering and shuffling on a CGR"""
    n_eval = 0
    try:
        adj = {n: list(nb) for n, nb in c._bonds.items()}
        ids = my_cgr_identifiers(c)
        bint = {(n, m): hash((bd.order or 0, bd.p_order or 0)) for n, nb in c._bonds.items() for m, bd in nb.items()}
        small = len(adj) <= 10
        for lo, hi in rng.sample(RADII if small else [r for r in RADII if r[1] <= 4], 2):
            got = c._chains(lo, hi)
            exp = brute_paths(adj, lo, hi)
            n_eval += 1
            ck.case(('cgr-paths', tag, lo, hi), nontrivial=len(exp) > len(adj))
            as_pairs = Counter(frozenset((x, x[::-1])) for x in got)
            if set(as_pairs) != exp or any(v != 1 for v in as_pairs.values()) or any(len(x) > 1 and not x[0] > x[-1] for x in got):
                cx(ck, f'cgr-chains:{tag}:{lo}:{hi}', '_chains of a CGR is not the set of simple paths with min..max atoms in one orientation',
                   {'cgr': tag, 'dicts': cgr_dicts(c), 'min_radius': lo, 'max_radius': hi}, len(got), f'{len(exp)} undirected simple paths', 'depth-first brute-force path enumerator')
                continue
            cnt = Counter()
            for pair in exp:
                p = next(iter(pair))
                var = [ids[p[0]]]
                for x, y in zip(p, p[1:]):
                    var += [bint[(x, y)], ids[y]]
                var = tuple(var)
                cnt[max(var, var[::-1])] += 1
            fr = c._fragments(lo, hi)
            got_u = Counter()
            for k, v in fr.items():
                got_u[max(k, k[::-1])] += len(v)
            if got_u != cnt or len(got_u) != len(fr):
                cx(ck, f'cgr-fragments:{tag}:{lo}:{hi}', '_fragments of a CGR: keys / multiplicities differ from the path oracle', {'cgr': tag, 'dicts': cgr_dicts(c), 'radii': (lo, hi)},
                   len(fr), len(cnt), 'brute-force fragment counter')
                continue
            nbp = rng.choice([0, 1, 2, 4])
            cap = nbp or 999_999_999
            exp_h = {hash((*k, i)) for k, v in fr.items() for i in range(min(len(v), cap))}
            got_h = c.linear_hash_set(lo, hi, nbp)
            n_eval += 1
            ck.case(('cgr-hashset', tag, lo, hi, nbp))
            if got_h != exp_h:
                cx(ck, f'cgr-hash_set:{tag}:{lo}:{hi}:{nbp}', 'linear_hash_set of a CGR differs from {hash((*key, c)) for c < min(count, number_bit_pairs)}',
                   {'cgr': tag, 'dicts': cgr_dicts(c), 'args': (lo, hi, nbp)}, len(got_h ^ exp_h), 0, 'fragment counter + multiplicity cap')
                continue
            k_, nab = rng.choice([1, 6, 10, 12]), rng.choice([1, 2, 3, 4])
            bits = c.linear_bit_set(lo, hi, 2 ** k_, nab, nbp)
            exp_b = set().union(*(window_bits(h, 2 ** k_, nab) for h in exp_h)) if exp_h else set()
            fp = c.linear_fingerprint(lo, hi, 2 ** k_, nab, nbp)
            if bits != exp_b or set(int(i) for i in fp.nonzero()[0]) != bits or len(fp) != 2 ** k_:
                cx(ck, f'cgr-bit_set:{tag}:{lo}:{hi}:{nbp}:{2 ** k_}:{nab}', 'linear_bit_set / linear_fingerprint of a CGR is not the union of the windows of the hashes',
                   {'cgr': tag, 'dicts': cgr_dicts(c), 'args': (lo, hi, 2 ** k_, nab, nbp)}, sorted(bits ^ exp_b)[:8], 'windows', 'arithmetic definition of the folding')
            # Morgan
            memo = {}

            def ident(a, r):
                if r == 0:
                    return ids[a]
                if (a, r) not in memo:
                    env = sorted((bint[(a, x)], ident(x, r - 1)) for x in adj[a])
                    memo[(a, r)] = hash((ident(a, r - 1),) + tuple(v for pr in env for v in pr))
                return memo[(a, r)]

            exp_m = {ident(a, r) for r in range(lo - 1, hi) for a in adj}
            got_m = c.morgan_hash_set(lo, hi)
            n_eval += 1
            ck.case(('cgr-morgan', tag, lo, hi))
            if got_m != exp_m:
                cx(ck, f'cgr-morgan:{tag}:{lo}:{hi}', 'morgan_hash_set of a CGR differs from the iterated neighbourhood identifiers of the requested radii',
                   {'cgr': tag, 'dicts': cgr_dicts(c), 'radii': (lo, hi)}, len(got_m ^ exp_m), 0, 'recursive neighbourhood hasher')
        lo, hi = rng.choice([(1, 4), (1, 3), (2, 4), (2, 3)])
        nbp, nab, length = rng.choice([0, 2, 4]), rng.choice([1, 2, 3, 4]), rng.choice([256, 1024, 4096])
        def obs(x):
            return {'linear_hash_set': x.linear_hash_set(lo, hi, nbp), 'linear_bit_set': x.linear_bit_set(lo, hi, length, nab, nbp),
                    'linear_fingerprint': x.linear_fingerprint(lo, hi, length, nab, nbp).tolist(),
                    'fragment multiset': Counter({k: len(v) for k, v in x._fragments(lo, hi).items()}),
                    'morgan_hash_set': x.morgan_hash_set(lo, hi), 'morgan_bit_set': x.morgan_bit_set(lo, hi, length, nab),
                    'morgan_fingerprint': x.morgan_fingerprint(lo, hi, length, nab).tolist()}
        base = obs(c)
        for variant, mk in (('renumbered', cgr_renumbered), ('order-shuffled', cgr_shuffled)):
            c2 = mk(c, rng)
            got = obs(c2)
            n_eval += 1
            ck.case(('cgr-invariance', tag, variant, lo, hi, nbp, nab, length))
            for name in base:
                if got[name] != base[name]:
                    cx(ck, f'cgr-invariance:{name}:{variant}:{tag}', f'{name} of a CGR changes when it is {variant}', {'cgr': tag, 'dicts': cgr_dicts(c), 'variant dicts': cgr_dicts(c2),
                       'args': (lo, hi, length, nab, nbp)}, 'differs', 'identical', 'same CGR, other numbering / insertion order')
                    break
    except Exception as e:
        cx(ck, f'cgr-exception:{tag}', f'a fingerprint function of a CGR raised {type(e).__name__} on documented parameters', {'cgr': tag, 'dicts': cgr_dicts(c)},
           f'{type(e).__name__}: {e}', 'a value', 'no exception')
    return n_eval


# ------------------------------------------------------------------------------------------------------------
# exhaustive small space: EVERY labelled graph on 1..4 atoms (numbers 1..n, elements C N O S, bond orders 1 8 2 4 3 8 by pair) x EVERY
# pair of radii in -1..5: chain set; plus fragments / hash set / Morgan dictionaries on the documented radii

def all_small_graphs(max_n=4):
    from chython import MoleculeContainer
    from chython.periodictable import Element
    for n in range(1, max_n + 1):
        pairs = list(itertools.combinations(range(1, n + 1), 2))
        for mask in range(2 ** len(pairs)):
            m = MoleculeContainer()
            for i in range(1, n + 1):
                m.add_atom(Element.from_atomic_number((6, 7, 8, 16, 15)[i - 1])(), i)
            for k, (i, j) in enumerate(pairs):
                if mask >> k & 1:
                    m.add_bond(i, j, (1, 8, 2, 4, 3, 8, 1, 2, 8, 1)[k])       # every bond order the containers allow occurs
            yield f'graph{n}:{mask}', m


def corr_exhaustive(ck):
    rng = random.Random(f'{ck.seed}:exhaustive')
    quick = ck.tier == 'quick'
    grid = [(lo, hi) for lo in range(-1, 6) for hi in range(-1, 6)]
    defs, cases, meta = [], [], []
    for i, (tag, m) in enumerate(all_small_graphs(4 if quick else 5)):
        g = f'x{i}'
        n = len(m._atoms)
        defs.append(f'Definition {g} : mol := {coqmol.mol_term(m)}.\n')
        # quick: the whole grid for up to 3 atoms, a third of it (seeded) for the 64 graphs on 4 atoms;
        # thorough: the whole grid up to 4 atoms and 3 seeded pairs for each of the 1024 graphs on 5 atoms
        radii = rng.sample(grid, 3) if n == 5 else grid if (n <= 3 or not quick) else rng.sample(grid, len(grid) // 3)
        for lo, hi in radii:
            cases.append(f'chains_ok {g} {zraw(lo)} {zraw(hi)} {pl(sorted(m._chains(lo, hi)))}')
            meta.append((tag, '_chains(set)', (lo, hi)))
            ck.case(meta[-1], nontrivial=bool(m._bonds) and 1 <= hi)
        ck.count(f'exhaustive:graphs on {n} atoms')
        lo, hi = rng.choice([(1, 4), (1, 3), (2, 4), (2, 2), (1, 2)])
        nbp = rng.choice([0, 1, 2, 3])
        cases.append(f'lhs_full_ok {g} {zraw(lo)} {zraw(hi)} {zraw(nbp)} {zl(sorted(m.linear_hash_set(lo, hi, nbp)))}')
        meta.append((tag, 'linear_hash_set', (lo, hi, nbp)))
        ck.case(meta[-1])
        t_, err = res_term(lambda: m._morgan_hash_dict(lo, hi), lambda ds: lst([dict_term(x) for x in ds]))
        cases.append(f'mhd_full_ok {g} {zraw(lo)} {zraw(hi)} ({t_})')
        meta.append((tag, '_morgan_hash_dict', (lo, hi)))
        ck.case(meta[-1])
    ck.count('exhaustive:cases', len(cases))
    ok, failing, log = coqcases.run_cases('c17x', IMPORTS, cases, extra=EXTRA + ''.join(defs), shard=max(1, (len(cases) + 3) // 4) if quick else 700)
    good = ok and not failing
    ck.oblige(f'correspondence (exhaustive): _chains on every labelled graph with 1..4 atoms x radii in -1..5 ({"a seeded third of the grid for 4 atoms" if quick else "whole grid, plus every labelled graph on 5 atoms x 3 seeded pairs"}), '
              f'linear_hash_set and _morgan_hash_dict on each graph == Coq model on {len(cases)} cases', good, 'correspondence', log or str([meta[i] for i in failing[:5]]))
    ck.extra['exhaustive_cases'] = len(cases)
    if not good:
        ck.unchecked('correspondence Fingerprint model vs chython on the exhaustive small space', log[-1500:], [repr(meta[i]) for i in failing[:20]])
    by_tag = {tag: (None, m) for tag, m in all_small_graphs(4 if quick else 5)}
    return good, [meta[i] for i in failing], by_tag


# ------------------------------------------------------------------------------------------------------------
# folding: the real linear_bit_set / morgan_bit_set run on chosen hash sets (the hash-set method of a stub subclass
# returns them), so that boundary hash values reach the folding code

FOLD_HASHES = [0, 1, -1, -2, 2 ** 63 - 1, -2 ** 63, 2 ** 62, -2 ** 62, 1023, 1024, -1024, -1025, 2 ** 32 - 1, -2 ** 32, 2 ** 61 - 1, 1546275796,
               0x5555555555555555, -0x5555555555555556, 0x7FFFFFFF00000000, -0x7FFFFFFF00000001]


def corr_folding(ck):
    from chython.algorithms.fingerprints.linear import LinearFingerprint
    from chython.algorithms.fingerprints.morgan import MorganFingerprint

    class LinStub(LinearFingerprint):
        __slots__ = ('hs', 'args')

        def linear_hash_set(self, *a, **k):
            self.args = a
            return set(self.hs)

    class MorStub(MorganFingerprint):
        __slots__ = ('hs', 'args')

        def morgan_hash_set(self, *a, **k):
            self.args = a
            if self.hs is None:
                raise AssertionError('min_radius should be positive')
            return set(self.hs)

    rng = random.Random(f'{ck.seed}:fold')
    quick = ck.tier == 'quick'
    lengths = sorted(set(LENGTHS + BAD_LENGTHS + [2 ** k for k in range(0, 34)] + [5, 6, 7, 9, 255, 257, 1023, 1025, 2 ** 40, 2 ** 48]))
    nabs = [-1, 0, 1, 2, 3, 4, 5, 7, 8]
    cases, meta = [], []
    combos = [(ln, nab) for ln in lengths for nab in nabs]
    for ln, nab in combos:
        for rep in range(2 if quick else 8):
            hs = set(rng.sample(FOLD_HASHES, rng.choice([0, 1, 2, 3])) + [rng.randint(-2 ** 63, 2 ** 63 - 1) for _ in range(rng.choice([0, 1, 2]))])
            lin = LinStub()
            lin.hs = hs
            t, err = res_term(lambda: lin.linear_bit_set(2, 5, ln, nab, 3), lambda s: zl(sorted(s)))
            if err is None and lin.args != (2, 5, 3):
                t = 'Err OtherError'        # the parameters were not passed on as (min_radius, max_radius, number_bit_pairs)
            cases.append(f'fold_ok {zraw(ln)} {zraw(nab)} {zl(sorted(hs))} ({t})')
            meta.append(('linear_bit_set on a stub hash set', ln, nab, sorted(hs)))
            ck.count('fold:linear' + (':' + err if err else ''))
            mor = MorStub()
            mor.hs = None if rng.random() < 0.15 else hs
            t, err = res_term(lambda: mor.morgan_bit_set(2, 5, ln, nab), lambda s: zl(sorted(s)))
            if err is None and mor.args != (2, 5):
                t = 'Err OtherError'
            arg = 'Err OtherError' if mor.hs is None else 'Ok ' + zl(sorted(hs))
            cases.append(f'mfold_ok {zraw(ln)} {zraw(nab)} ({arg}) ({t})')
            meta.append(('morgan_bit_set on a stub hash set', ln, nab, None if mor.hs is None else sorted(hs)))
            ck.count('fold:morgan' + (':' + err if err else ''))
            if ln <= 300 and rep == 0:
                # the real array methods on the same stub hash sets (numpy assignment with boundary hash values)
                t, err = res_term(lambda: lin.linear_fingerprint(2, 5, ln, nab, 3).tolist(), zl)
                cases.append(f'vfold_ok {zraw(ln)} {zraw(nab)} {zl(sorted(hs))} ({t})')
                meta.append(('linear_fingerprint on a stub hash set', ln, nab, sorted(hs)))
                ck.count('fold:linear array' + (':' + err if err else ''))
                t, err = res_term(lambda: mor.morgan_fingerprint(2, 5, ln, nab).tolist(), zl)
                cases.append(f'mvfold_ok {zraw(ln)} {zraw(nab)} ({arg}) ({t})')
                meta.append(('morgan_fingerprint on a stub hash set', ln, nab, None if mor.hs is None else sorted(hs)))
                ck.count('fold:morgan array' + (':' + err if err else ''))
    for x in meta:
        ck.case(x)
    ok, failing, log = coqcases.run_cases('c17f', IMPORTS, cases, extra=EXTRA, shard=700)
    good = ok and not failing
    ck.oblige(f'correspondence: the folding of linear_bit_set / morgan_bit_set (real methods on stub hash sets incl. boundary values, '
              f'{len(lengths)} lengths x {len(nabs)} active-bit values) == bit_list / bit_list_of on {len(cases)} cases', good,
              'correspondence', log or str([meta[i] for i in failing[:5]]))
    ck.extra['folding_cases'] = len(cases)
    if not good:
        ck.unchecked('correspondence folding model (bit_list) vs linear_bit_set / morgan_bit_set', log[-1500:], [repr(meta[i]) for i in failing[:20]])
    return good, [meta[i] for i in failing]


# ------------------------------------------------------------------------------------------------------------
# search: oracles on the real code that do not use the model

MAX_REPLAYS = 30


def cx(ck, key, *a, **kw):
    """ck.counterexample, writing at most MAX_REPLAYS replay files per run (all are counted)"""
    if ck.match_known(key) is None:
        ck.extra['counterexamples_found'] = ck.extra.get('counterexamples_found', 0) + 1
        if ck.extra['counterexamples_found'] > MAX_REPLAYS:
            return True
    return ck.counterexample(key, *a, **kw)


def brute_paths(adj, lo, hi):
    """all simple paths with lo..hi atoms by depth-first extension from every atom; one tuple per undirected path
    (as a frozenset of the two orientations)"""
    out = set()

    def dfs(path, seen):
        if lo <= len(path) <= hi:
            out.add(frozenset((tuple(path), tuple(reversed(path)))))
        if len(path) >= hi:
            return
        for x in adj[path[-1]]:
            if x not in seen:
                seen.add(x)
                path.append(x)
                dfs(path, seen)
                path.pop()
                seen.discard(x)

    for a in adj:
        dfs([a], {a})
    return out


def my_identifiers(m):
    return {n: hash((a.isotope or 0, a.atomic_number, a.charge, bool(a.is_radical))) for n, a in m._atoms.items()}


def brute_fragment_counts(m, adj, lo, hi):
    ids = my_identifiers(m)
    cnt = Counter()
    for pair in brute_paths(adj, lo, hi):
        p = next(iter(pair))
        var = [ids[p[0]]]
        for x, y in zip(p, p[1:]):
            var += [int(m._bonds[x][y]), ids[y]]
        var = tuple(var)
        cnt[max(var, var[::-1])] += 1
    return cnt


def brute_morgan(m, lo, hi):
    """identifier of atom a at level r defined recursively over the neighbourhood (memoised), levels lo-1 .. hi-1"""
    ids = my_identifiers(m)
    memo = {}

    def ident(a, r):
        if r == 0:
            return ids[a]
        key = (a, r)
        if key not in memo:
            env = sorted((int(bd), ident(x, r - 1)) for x, bd in m._bonds[a].items())
            memo[key] = hash((ident(a, r - 1),) + tuple(v for pr in env for v in pr))
        return memo[key]

    return {ident(a, r) for r in range(lo - 1, hi) for a in m._atoms}


def window_bits(h, length, nab):
    k = length.bit_length() - 1
    return {(h // 2 ** (i * k)) % length for i in range(max(1, nab))}


def fixed_lhs(m, lo, hi, nbp):
    """reference implementation of the suggested fix of linear_hash_smiles: every chain of the fragment is spelt, both
    directions when the key is a palindrome (Model.LinearSmiles.lhs_of_fixed)"""
    from collections import defaultdict
    cap = nbp or 999_999_999
    out = defaultdict(set)
    for frg, chains in m._fragments(lo, hi).items():
        sp = {smi_of(m, c) for c in chains}
        if frg == frg[::-1]:
            sp |= {smi_of(m, c[::-1]) for c in chains}
        for cnt in range(min(len(chains), cap)):
            out[hash((*frg, cnt))].update(sp)
    return {k: sorted(v) for k, v in out.items()}


def smi_of(m, chain):
    s = [m._format_atom(chain[0], None, stereo=False)]
    for x, y in zip(chain, chain[1:]):
        s.append(m._format_bond(x, y, None, stereo=False, aromatic=False))
        s.append(m._format_atom(y, None, stereo=False))
    return ''.join(s)


def search_molecule(ck, tag, smi, m, rng, budget_params, rp=None):
    """the oracles of one molecule; an exception escaping from the fingerprint code on documented parameters is a
    counterexample as well"""
    try:
        return search_molecule_(ck, tag, smi, m, rng, budget_params, rp)
    except Exception as e:
        import traceback
        tb = traceback.format_exc().strip().split('\n')
        cx(ck, f'exception:{tag}', f'a fingerprint function raised {type(e).__name__} on documented parameters', {'molecule': tag, 'radii': list(budget_params)},
           f'{type(e).__name__}: {e}', 'a value', 'no exception for 1 <= min_radius <= max_radius, length 2^k, number_active_bits 1..4, number_bit_pairs 0..5',
           replay_py=None)
        ck.extra.setdefault('search_exceptions', []).append(tb[-4:])
        return 0


def search_molecule_(ck, tag, smi, m, rng, budget_params, rp=None):
    """returns number of oracle evaluations"""
    rp = rp or (f"from chython import smiles; m = smiles({smi!r}); " if smi else '')
    adj = {n: list(nb) for n, nb in m._bonds.items()}
    n_eval = 0
    for lo, hi in budget_params:
        # (1) _chains == simple paths, one orientation each
        got = m._chains(lo, hi)
        exp = brute_paths(adj, lo, hi)
        n_eval += 1
        ck.case(('paths', tag, lo, hi), nontrivial=len(exp) > len(adj))
        as_pairs = Counter(frozenset((c, c[::-1])) for c in got)
        if set(as_pairs) != exp or any(v != 1 for v in as_pairs.values()) or any(len(c) > 1 and not c[0] > c[-1] for c in got):
            extra_ = [sorted(p)[0] for p in set(as_pairs) - exp][:3]
            missing = [sorted(p)[0] for p in exp - set(as_pairs)][:3]
            cx(ck, f'chains:{tag}:{lo}:{hi}', '_chains is not the set of simple paths with min..max atoms in one orientation',
                              {'molecule': tag, 'min_radius': lo, 'max_radius': hi}, {'not simple paths in range / duplicated': extra_, 'missing': missing},
                              f'{len(exp)} undirected simple paths', 'depth-first brute-force path enumerator',
                              replay_py=rp + f"print(sorted(m._chains({lo}, {hi})))" if rp else None)
            continue
        # (2) _fragments groups them by direction-independent key; counts as in the oracle.  Which of the two spellings
        #     of a key the code keeps is not part of the property: keys are compared up to reversal (one spelling each)
        cnt_u = brute_fragment_counts(m, adj, lo, hi)
        fr = m._fragments(lo, hi)
        got_u = Counter()
        for k, v in fr.items():
            got_u[max(k, k[::-1])] += len(v)
        ids_ = my_identifiers(m)
        stored_ok = all(tuple(x for i, a in enumerate(c) for x in (([int(m._bonds[c[i - 1]][a])] if i else []) + [ids_[a]])) == k
                        for k, v in fr.items() for c in v)
        if got_u != cnt_u or len(got_u) != len(fr) or not stored_ok:
            cx(ck, f'fragments:{tag}:{lo}:{hi}', '_fragments keys / multiplicities differ from the path oracle (keys up to reversal), or a stored chain does not spell its key',
                              {'molecule': tag, 'min_radius': lo, 'max_radius': hi}, len(fr), len(cnt_u), 'brute-force fragment counter',
                              replay_py=rp + f"print(m._fragments({lo}, {hi}))" if rp else None)
            continue
        cnt = {k: len(v) for k, v in fr.items()}        # the spellings the code chose, with the (verified) multiplicities
        # (3) linear_hash_set == {hash((*key, c)) : c < min(count, cap)}
        for nbp in rng.sample([0, 1, 2, 3, 4, 5], 2):
            cap = nbp or 999_999_999
            exp_h = {hash((*k, c)) for k, v in cnt.items() for c in range(min(v, cap))}
            got_h = m.linear_hash_set(lo, hi, nbp)
            n_eval += 1
            ck.case(('hashset', tag, lo, hi, nbp), nontrivial=any(v > 1 for v in cnt.values()))
            if got_h != exp_h:
                cx(ck, f'hash_set:{tag}:{lo}:{hi}:{nbp}', 'linear_hash_set differs from {hash((*key, c)) for c < min(count, number_bit_pairs)}',
                                  {'molecule': tag, 'min_radius': lo, 'max_radius': hi, 'number_bit_pairs': nbp},
                                  f'{len(got_h)} hashes, {len(got_h ^ exp_h)} differ', f'{len(exp_h)} hashes', 'brute-force fragment counter + multiplicity cap',
                                  replay_py=rp + f"print(sorted(m.linear_hash_set({lo}, {hi}, {nbp})))" if rp else None)
                continue
            k = rng.choice([1, 3, 6, 8, 10, 12, 16, 20])
            length = 2 ** k
            nab = rng.choice([1, 2, 3, 4])
            bits = m.linear_bit_set(lo, hi, length, nab, nbp)
            exp_b = set().union(*(window_bits(h, length, nab) for h in exp_h)) if exp_h else set()
            ck.case(('bitset', tag, lo, hi, nbp, length, nab))
            n_eval += 1
            if bits != exp_b or any(not (0 <= x < length) for x in bits):
                cx(ck, f'bit_set:{tag}:{lo}:{hi}:{nbp}:{length}:{nab}',
                                  'linear_bit_set is not the union of the log2(length)-bit windows of the hashes / index out of range',
                                  {'molecule': tag, 'args': [lo, hi, length, nab, nbp]}, sorted(bits - exp_b)[:5] + sorted(exp_b - bits)[:5],
                                  'windows (h // 2^(i*k)) % 2^k, i < active bits', 'arithmetic definition of the folding',
                                  replay_py=rp + f"print(sorted(m.linear_bit_set({lo}, {hi}, {length}, {nab}, {nbp})))" if rp else None)
            if length <= 4096:
                fp = m.linear_fingerprint(lo, hi, length, nab, nbp)
                if len(fp) != length or set(int(i) for i in fp.nonzero()[0]) != bits or int(fp.max(initial=0)) > 1:
                    cx(ck, f'fingerprint:{tag}:{lo}:{hi}:{nbp}:{length}:{nab}', 'linear_fingerprint is not the indicator vector of linear_bit_set',
                                      {'molecule': tag, 'args': [lo, hi, length, nab, nbp]}, int(fp.sum()), len(bits), 'indicator vector',
                                      replay_py=None)
        # (4) Morgan
        if lo >= 1 and hi >= lo:
            exp_m = brute_morgan(m, lo, hi)
            got_m = m.morgan_hash_set(lo, hi)
            ck.case(('morgan', tag, lo, hi))
            n_eval += 1
            if got_m != exp_m:
                cx(ck, f'morgan:{tag}:{lo}:{hi}', 'morgan_hash_set differs from the iterated neighbourhood identifiers of the requested radii',
                                  {'molecule': tag, 'min_radius': lo, 'max_radius': hi}, len(got_m ^ exp_m), 0, 'recursive neighbourhood hasher',
                                  replay_py=rp + f"print(sorted(m.morgan_hash_set({lo}, {hi})))" if rp else None)
            k = rng.choice([1, 4, 10, 11, 16])
            nab = rng.choice([1, 2, 3, 4])
            bits = m.morgan_bit_set(lo, hi, 2 ** k, nab)
            exp_b = set().union(*(window_bits(h, 2 ** k, nab) for h in exp_m)) if exp_m else set()
            if bits != exp_b or any(not (0 <= x < 2 ** k) for x in bits):
                cx(ck, f'morgan_bits:{tag}:{lo}:{hi}:{2 ** k}:{nab}', 'morgan_bit_set is not the union of the windows of the hashes / index out of range',
                                  {'molecule': tag, 'args': [lo, hi, 2 ** k, nab]}, sorted(bits ^ exp_b)[:8], 'windows', 'arithmetic definition of the folding',
                                  replay_py=rp + f"print(sorted(m.morgan_bit_set({lo}, {hi}, {2 ** k}, {nab})))" if rp else None)
    # (4b) atoms exchanged by an automorphism (brute force over all permutations, molecules of at most 7 atoms) have equal Morgan
    #      identifiers at every radius (the semantic characterisation C17_morgan_level_neighbourhood_invariant on the real code)
    if 2 <= len(adj) <= 7:
        ids_ = my_identifiers(m)
        nums = list(adj)
        dicts = m._morgan_hash_dict(1, 5)
        n_auto = 0
        for perm in itertools.permutations(nums):
            s_ = dict(zip(nums, perm))
            if all(s_[x] == x for x in nums) or any(ids_[x] != ids_[s_[x]] for x in nums):
                continue
            if all(set(s_[y] for y in adj[x]) == set(adj[s_[x]]) and all(int(m._bonds[x][y]) == int(m._bonds[s_[x]][s_[y]]) for y in adj[x]) for x in nums):
                n_auto += 1
                if any(d[x] != d[s_[x]] for d in dicts for x in nums):
                    cx(ck, f'morgan-automorphism:{tag}', 'two atoms exchanged by an automorphism of the molecule have different Morgan identifiers',
                       {'molecule': tag, 'automorphism': s_}, 'differ', 'equal at every radius', 'brute-force automorphisms')
                    break
        ck.case(('automorphisms', tag), nontrivial=n_auto > 0)
        n_eval += 1
    # (5) invariance under renumbering and insertion-order shuffling, default and random parameters
    lo, hi = rng.choice([(1, 4), (1, 3), (2, 4), (1, 5), (2, 3)])
    nbp, nab, length = rng.choice([0, 2, 4]), rng.choice([1, 2, 3, 4]), rng.choice([256, 1024, 4096])
    base = {
        'linear_hash_set': m.linear_hash_set(lo, hi, nbp),
        'linear_bit_set': m.linear_bit_set(lo, hi, length, nab, nbp),
        'linear_fingerprint': m.linear_fingerprint(lo, hi, length, nab, nbp).tolist(),
        'fragment multiset': Counter({k: len(v) for k, v in m._fragments(lo, hi).items()}),
        'morgan_hash_set': m.morgan_hash_set(lo, hi),
        'morgan_bit_set': m.morgan_bit_set(lo, hi, length, nab),
        'morgan_fingerprint': m.morgan_fingerprint(lo, hi, length, nab).tolist(),
        'linear_hash_smiles keys': set(m.linear_hash_smiles(lo, hi, nbp)),
        'linear_smiles_hash values': set(h for v in m.linear_smiles_hash(lo, hi, nbp).values() for h in v),
    }
    if base['linear_hash_smiles keys'] != base['linear_hash_set'] or base['linear_smiles_hash values'] != base['linear_hash_set']:
        cx(ck, f'hash_smiles_keys:{tag}', 'keys of linear_hash_smiles / values of linear_smiles_hash differ from linear_hash_set',
                          {'molecule': tag, 'args': [lo, hi, nbp]}, len(base['linear_hash_smiles keys']), len(base['linear_hash_set']), 'self-consistency')
    for variant, mk in (('renumbered', renumbered), ('order-shuffled', order_shuffled), ('renumbered+shuffled', lambda x, r: order_shuffled(renumbered(x, r), r))):
        m2 = mk(m, rng)
        got = {
            'linear_hash_set': m2.linear_hash_set(lo, hi, nbp),
            'linear_bit_set': m2.linear_bit_set(lo, hi, length, nab, nbp),
            'linear_fingerprint': m2.linear_fingerprint(lo, hi, length, nab, nbp).tolist(),
            'fragment multiset': Counter({k: len(v) for k, v in m2._fragments(lo, hi).items()}),
            'morgan_hash_set': m2.morgan_hash_set(lo, hi),
            'morgan_bit_set': m2.morgan_bit_set(lo, hi, length, nab),
            'morgan_fingerprint': m2.morgan_fingerprint(lo, hi, length, nab).tolist(),
            'linear_hash_smiles keys': set(m2.linear_hash_smiles(lo, hi, nbp)),
            'linear_smiles_hash values': set(h for v in m2.linear_smiles_hash(lo, hi, nbp).values() for h in v),
        }
        n_eval += 1
        ck.case(('invariance', tag, variant, lo, hi, nbp, nab, length))
        for name in base:
            if got[name] != base[name]:
                cx(ck, f'invariance:{name}:{variant}:{tag}', f'{name} changes when the molecule is {variant}',
                                  {'molecule': tag, 'variant': variant, 'atoms': list(m2._atoms), 'bonds': {n: list(v) for n, v in m2._bonds.items()},
                                   'args': {'min_radius': lo, 'max_radius': hi, 'number_bit_pairs': nbp, 'number_active_bits': nab, 'length': length}},
                                  'differs', 'identical', 'same molecule, other numbering / insertion order')
                break
    # (6) the SMILES attached to a hash is the spelling of one of the chains with that fragment key (which one is a
    #     known numbering-dependent choice, see the known finding); morgan_hash_smiles is compared under renumbering
    fr = m._fragments(lo, hi)
    spell = {}
    for key, chains in fr.items():
        ss = set()
        for c in chains:
            ss.add(smi_of(m, c))
            if key == key[::-1]:
                ss.add(smi_of(m, c[::-1]))
        cap = nbp or 999_999_999
        for c in range(min(len(chains), cap)):
            spell.setdefault(hash((*key, c)), set()).update(ss)
    for hsh, sm in m.linear_hash_smiles(lo, hi, nbp).items():
        if not set(sm) <= spell.get(hsh, set()):
            cx(ck, f'hash_smiles_spelling:{tag}', 'linear_hash_smiles attaches a SMILES that spells none of the chains of that fragment',
                              {'molecule': tag, 'hash': hsh}, sm, sorted(spell.get(hsh, ()))[:5], 'fragment spelling')
            break
    # the suggested fix (C17_linear_hash_smiles_fixed_numbering_independent) on the real spelling functions
    m3 = renumbered(m, rng)
    ck.case(('fixed linear_hash_smiles', tag, lo, hi, nbp))
    if fixed_lhs(m, lo, hi, nbp) != fixed_lhs(m3, lo, hi, nbp):
        ck.extra.setdefault('suggested_fix_failures', []).append(tag)
    # (6b) morgan_hash_smiles / morgan_smiles_hash against an independent construction, min_radius >= 2 included: the key is the
    #      recursive neighbourhood identifier of atom a after r rounds, the value the SMILES of the substructure on the atoms found
    #      by a breadth-first search of depth r from a (own BFS; the canonical string of that atom set is taken from chython)
    if smi and len(m._atoms) <= 40:
        n_eval += search_morgan_smiles(ck, tag, smi, m, rng)
    if smi and len(m._atoms) <= 40:
        a = {k: sorted(v) for k, v in m.morgan_hash_smiles(1, 3).items()}
        m2 = renumbered(m, rng)
        c = {k: sorted(v) for k, v in m2.morgan_hash_smiles(1, 3).items()}
        ck.case(('morgan_hash_smiles', tag))
        if set(a) != m.morgan_hash_set(1, 3):
            cx(ck, f'morgan_hash_smiles_keys:{tag}', 'keys of morgan_hash_smiles differ from morgan_hash_set', {'molecule': tag}, len(a), len(m.morgan_hash_set(1, 3)), 'self-consistency')
        elif a != c:
            diff = [k for k in a if a[k] != c.get(k)][:2]
            # the known defect (see known_witness): the canonical SMILES of a substructure with pseudo-asymmetric ring stereo
            # depends on the numbering; it changes stereo marks only.  Anything else is a new counterexample
            stereo_only = {k: sorted(map(strip_stereo, v)) for k, v in a.items()} == {k: sorted(map(strip_stereo, v)) for k, v in c.items()}
            cx(ck, KNOWN_MORGAN_KEY if stereo_only else f'morgan_hash_smiles_renumbering:{tag}', 'morgan_hash_smiles changes under renumbering',
                              {'molecule': tag, 'mapping': dict(zip(m._atoms, m2._atoms))}, [c.get(k) for k in diff], [a[k] for k in diff], 'renumbering')
            ck.count('search:morgan_hash_smiles differs in stereo marks only (known)' if stereo_only else 'search:morgan_hash_smiles differs')
    return n_eval


KNOWN_SMILES = 'C[O-].[OH-]'
KNOWN_MORGAN_SMILES = 'O[C@H]1C[C@@H](O)C1'
KNOWN_MORGAN_KEY = 'morgan_hash_smiles-numbering:' + KNOWN_MORGAN_SMILES


def strip_stereo(s):
    return s.replace('@', '').replace('/', '').replace('\\', '')


MS_RADII = [(2, 2), (2, 3), (3, 3), (1, 2), (2, 4), (3, 4), (1, 3)]


def bfs_ball(adj, a, r):
    seen = {a}
    frontier = [a]
    for _ in range(r):
        nxt = []
        for x in frontier:
            for y in adj[x]:
                if y not in seen:
                    seen.add(y)
                    nxt.append(y)
        frontier = nxt
    return seen


def search_morgan_smiles(ck, tag, smi, m, rng, radii=None):
    """expected[identifier of a after r rounds] = {SMILES of the ball of radius r around a}, r = min_radius-1 .. max_radius-1"""
    adj = {n: list(nb) for n, nb in m._bonds.items()}
    ids = my_identifiers(m)
    memo = {}

    def ident(a, r):
        if r == 0:
            return ids[a]
        if (a, r) not in memo:
            env = sorted((int(bd), ident(x, r - 1)) for x, bd in m._bonds[a].items())
            memo[(a, r)] = hash((ident(a, r - 1),) + tuple(v for pr in env for v in pr))
        return memo[(a, r)]

    n_eval = 0
    for lo, hi in (radii or rng.sample(MS_RADII, 2 if len(adj) <= 20 else 1)):
        exp = {}
        cache = {}
        try:
            for r in range(lo - 1, hi):
                for a in adj:
                    ball = frozenset(bfs_ball(adj, a, r))
                    if ball not in cache:
                        cache[ball] = format(m.substructure(ball), 'A')
                    exp.setdefault(ident(a, r), set()).add(cache[ball])
        except Exception:       # the oracle's own substructure cannot be built / written: no verdict
            ck.count('search:morgan_hash_smiles oracle skipped')
            continue
        exp = {k: sorted(v) for k, v in exp.items()}
        got = m.morgan_hash_smiles(lo, hi)
        n_eval += 1
        ck.case(('morgan_hash_smiles oracle', tag, lo, hi), nontrivial=lo >= 2)
        ck.count('search:morgan_hash_smiles oracle min_radius>=2' if lo >= 2 else 'search:morgan_hash_smiles oracle min_radius=1')
        rp = f"from chython import smiles; m = smiles({smi!r}); print(m.morgan_hash_smiles({lo}, {hi})); print(m.morgan_smiles_hash({lo}, {hi}))"
        if {k: sorted(v) for k, v in got.items()} != exp:
            bad = [k for k in exp if sorted(got.get(k, ())) != exp[k]][:2]
            cx(ck, f'morgan_hash_smiles-environment:{tag}:{lo}:{hi}', 'morgan_hash_smiles attaches to a radius-r identifier a SMILES that is not the radius-r environment of its atom',
               {'molecule': tag, 'min_radius': lo, 'max_radius': hi}, {k: got.get(k) for k in bad}, {k: exp[k] for k in bad},
               'recursive neighbourhood hasher + breadth-first ball of the same radius', replay_py=rp)
            continue
        tr = {}
        for k, v in exp.items():
            for s_ in v:
                tr.setdefault(s_, set()).add(k)
        got_t = m.morgan_smiles_hash(lo, hi)
        if {k: set(v) for k, v in got_t.items()} != tr or any(len(v) != len(set(v)) for v in got_t.values()):
            cx(ck, f'morgan_smiles_hash-transposed:{tag}:{lo}:{hi}', 'morgan_smiles_hash is not the transposed dictionary of the radius-r environments',
               {'molecule': tag, 'min_radius': lo, 'max_radius': hi}, len(got_t), len(tr), 'transposition of the oracle dictionary', replay_py=rp)
    return n_eval


def known_witness(ck):
    """linear_hash_smiles shows, for every fragment hash, the SMILES of chains[0] of a set-ordered list; the atom identifier
    ignores the hydrogen count (and aromaticity), so which spelling is shown depends on the atom numbering: the smallest
    witness has 3 atoms (methoxide + hydroxide: the O- fragment is spelt '[O-]' or '[OH-]'); all 6 numberings are tried"""
    m = parse(KNOWN_SMILES)
    if m is None:
        return
    nums = list(m._atoms)
    seen = {}
    for perm in itertools.permutations(nums):
        m2 = m.copy()
        m2.remap(dict(zip(nums, perm)))
        r = tuple(sorted((k, tuple(sorted(v))) for k, v in m2.linear_hash_smiles(1, 1).items()))
        seen.setdefault(r, dict(zip(nums, perm)))
        ck.case(('known-witness', KNOWN_SMILES, perm))
    if len(seen) > 1:
        (r1, map1), (r2, map2) = list(seen.items())[:2]
        diff = [(a, bb) for a, bb in zip(r1, r2) if a != bb][:2]
        cx(ck, 'linear_hash_smiles-numbering:' + KNOWN_SMILES, 'linear_hash_smiles(1, 1) of methoxide + hydroxide depends on the atom numbering '
                          "(the SMILES shown for the O- fragment is '[O-]' or '[OH-]')", {'smiles': KNOWN_SMILES, 'mapping_a': map1, 'mapping_b': map2},
                          [d[1] for d in diff], [d[0] for d in diff], 'same molecule, other numbering',
                          replay_py="from chython import smiles\nm = smiles('C[O-].[OH-]'); a = m.linear_hash_smiles(1, 1)\n"
                                    "m.remap({2: 3, 3: 2}); b = m.linear_hash_smiles(1, 1)\nprint(sorted(a.items())); print(sorted(b.items()))")
    # morgan_hash_smiles: the SMILES of an augmented substructure is chython's canonical string, which depends on the numbering for
    # pseudo-asymmetric ring stereo (cis-1,3-cyclobutanediol: both labels flip); hash sets / keys are not affected
    m = parse(KNOWN_MORGAN_SMILES)
    if m is None:
        return
    a = {k: sorted(v) for k, v in m.morgan_hash_smiles(1, 3).items()}
    m2 = m.copy()
    m2.remap({1: 1, 2: 2, 3: 4, 4: 5, 5: 6, 6: 3})
    c = {k: sorted(v) for k, v in m2.morgan_hash_smiles(1, 3).items()}
    ck.case(('known-witness', KNOWN_MORGAN_SMILES))
    if a != c:
        diff = [k for k in a if a[k] != c.get(k)][:2]
        cx(ck, KNOWN_MORGAN_KEY, 'morgan_hash_smiles(1, 3) of cis-1,3-cyclobutanediol depends on the atom numbering', {'smiles': KNOWN_MORGAN_SMILES,
           'mapping': {1: 1, 2: 2, 3: 4, 4: 5, 5: 6, 6: 3}}, [c.get(k) for k in diff], [a[k] for k in diff], 'same molecule, other numbering',
           replay_py="from chython import smiles\nm = smiles('O[C@H]1C[C@@H](O)C1'); a = m.morgan_hash_smiles(1, 3)\n"
                     "m.remap({1: 1, 2: 2, 3: 4, 4: 5, 5: 6, 6: 3}); b = m.morgan_hash_smiles(1, 3)\nprint(sorted(a.items())); print(sorted(b.items()))")


def search(ck, n_corpus, n_generated):
    rng = random.Random(f'{ck.seed}:search')
    from chython import MoleculeContainer
    n_eval = 0
    mols = [('empty', None, MoleculeContainer())]
    for smi in HAND:
        m = parse(smi)
        if m is not None:
            mols.append(('hand:' + smi, smi, m))
    for smi in corpus.sample(corpus.lipo(), n_corpus, ck.seed, 'c17search'):
        m = parse(smi)
        if m is not None:
            mols.append(('corpus:' + smi, smi, m))
    for i in range(n_generated):
        k = rng.choice([2, 3, 4, 5, 5, 6, 6, 7, 8])
        mols.append((f'generated-graph:{i}:{k}', None, random_graph_mol(rng, k)))
    for tag, smi, m in mols:
        n = len(m._atoms)
        ck.count('search:' + tag.split(':')[0])
        small = n <= 10
        # only parameters the docstrings allow (1 <= min <= max): what happens outside is fixed by the model / correspondence only
        params = rng.sample(RADII if small else [r for r in RADII if r[1] <= 5], 3)
        n_eval += search_molecule(ck, tag, smi, m, rng, params)
    n_eval += search_histories(ck, rng, mols)
    known_witness(ck)
    wm = parse(KNOWN_SMILES)
    wm2 = wm.copy()
    wm2.remap({2: 3, 3: 2})
    fails = ck.extra.get('suggested_fix_failures', [])
    ck.oblige(f'the suggested fix of linear_hash_smiles (spell every chain, both directions of a palindromic key, sorted) is numbering independent on the '
              f'witness {KNOWN_SMILES} and on {len(mols)} searched molecules (real spelling functions)',
              not fails and fixed_lhs(wm, 1, 1, 4) == fixed_lhs(wm2, 1, 1, 4) and wm.linear_hash_smiles(1, 1) != wm2.linear_hash_smiles(1, 1), 'search', repr(fails[:5]))
    ck.extra['search_oracle_evaluations'] = n_eval
    ck.extra['search_molecules'] = len(mols)


def search_histories(ck, rng, mols):
    """used - edited in place - used again: the oracles of search_molecule on the edited OBJECT (not on a copy), and the same functions on
    m.copy() (a fresh object with the same structure) must agree"""
    n_eval = 0
    quick = ck.tier == 'quick'
    pick = [x for x in mols if x[0].startswith('hand:')] + rng.sample([x for x in mols if x[0].startswith('corpus:')], min(25 if quick else 300, sum(x[0].startswith('corpus:') for x in mols))) \
        + [x for x in mols if x[0].startswith('generated-graph:')][:25 if quick else 300]
    for tag, smi, m0 in pick:
        m = m0.copy()
        stmts = make_history(m, rng)
        if not stmts:
            continue
        ck.count('search:history')
        for st in stmts:
            if '=' in st or 'add_' in st or 'delete_' in st:
                ck.count('history edit:' + ('isotope' if '.isotope' in st else 'charge+flush' if '.charge' in st else 'radical+flush' if 'is_radical' in st
                                           else st.split('(')[0].replace('m.', '')))
        htag = 'history:' + tag + ':' + '; '.join(stmts)[:300]
        rp = (f"from chython import smiles; m = smiles({smi!r}); " + '; '.join(stmts) + '; ') if smi else None
        small = len(m._atoms) <= 10
        params = rng.sample(RADII if small else [r for r in RADII if r[1] <= 4], 2)
        n_eval += search_molecule(ck, htag, None, m, rng, params, rp=rp)
        lo, hi = params[0]
        fresh = m.copy()
        ck.case(('history-vs-copy', htag, lo, hi))
        n_eval += 1
        for name, f in (('linear_hash_set', lambda x: x.linear_hash_set(lo, hi)), ('morgan_hash_set', lambda x: x.morgan_hash_set(lo, hi)),
                        ('_atom_identifiers', lambda x: x._atom_identifiers), ('linear_bit_set', lambda x: x.linear_bit_set(lo, hi)),
                        ('morgan_fingerprint', lambda x: x.morgan_fingerprint(lo, hi).tolist())):
            if f(m) != f(fresh):
                cx(ck, f'history-copy:{name}:{htag}', f'{name} of an object that was used, edited in place through the public API and used again differs from '
                   f'{name} of its copy() (same structure, fresh object)', {'molecule': tag, 'history': stmts, 'args': [lo, hi]}, 'differs', 'identical',
                   'copy() of the edited object', replay_py=(rp + f"print(m.{name}({lo}, {hi}) == m.copy().{name}({lo}, {hi}))") if rp and name != '_atom_identifiers' else None)
                break
    ck.extra['history_search_evaluations'] = n_eval
    return n_eval


def directed_search(ck, bad, by_tag):
    """the correspondence disagreed: run the property-level oracles of the search on the disagreeing molecules, with the
    disagreeing radii first and then the whole grid of documented radii, and on renumbered / shuffled copies"""
    rng = random.Random(f'{ck.seed}:directed')
    todo = {}
    for tag, what, params in bad:
        radii = todo.setdefault(tag, [])
        if len(params) >= 2 and 1 <= params[0] <= params[1] and tuple(params[:2]) not in radii:
            radii.append(tuple(params[:2]))
    n_eval = 0
    for tag, radii in list(todo.items())[:40]:
        smi, m = by_tag[tag]
        grid = radii + [r for r in RADII if r not in radii and (len(m._atoms) <= 12 or r[1] <= 4)]
        ck.count('directed-search molecules')
        n_eval += search_molecule(ck, tag, smi, m, rng, grid)
        for mk in (renumbered, order_shuffled):
            n_eval += search_molecule(ck, tag + ':' + mk.__name__, None, mk(m, rng), rng, radii or grid[:3])
    ck.extra['directed_search_evaluations'] = n_eval


def directed_fold_search(ck, bad_fold):
    """the folding correspondence disagreed: property-level oracle (window arithmetic, range) on the disagreeing inputs"""
    from chython.algorithms.fingerprints.linear import LinearFingerprint
    from chython.algorithms.fingerprints.morgan import MorganFingerprint

    class LinStub(LinearFingerprint):
        __slots__ = ('hs',)

        def linear_hash_set(self, *a, **k):
            return set(self.hs)

    class MorStub(MorganFingerprint):
        __slots__ = ('hs',)

        def morgan_hash_set(self, *a, **k):
            return set(self.hs)

    for what, ln, nab, hs in bad_fold[:200]:
        if hs is None or ln < 1 or ln & (ln - 1):
            continue            # the property speaks about lengths 2^k
        stub = LinStub() if what.startswith('linear') else MorStub()
        stub.hs = hs
        name = 'linear_bit_set' if what.startswith('linear') else 'morgan_bit_set'
        try:
            bits = stub.linear_bit_set(1, 4, ln, nab, 4) if what.startswith('linear') else stub.morgan_bit_set(1, 4, ln, nab)
        except Exception as e:
            bits = f'{type(e).__name__}: {e}'
        exp = set().union(*(window_bits(h, ln, nab) for h in hs)) if hs else set()
        ck.case(('directed-fold', what, ln, nab, tuple(hs)))
        if bits != exp:
            cx(ck, f'folding:{name}:{ln}:{nab}:{hs}', f'{name} does not set exactly the log2(length)-bit windows of the hashes (indices below length, '
                              'max(1, number_active_bits) windows per hash)', {'hashes': hs, 'length': ln, 'number_active_bits': nab},
                              sorted(bits) if isinstance(bits, set) else bits, sorted(exp), 'arithmetic definition of the folding',
                              replay_py=FOLD_REPLAY.format(name=name, hs=hs, ln=ln, nab=nab))


FOLD_REPLAY = """from chython.algorithms.fingerprints.linear import LinearFingerprint
from chython.algorithms.fingerprints.morgan import MorganFingerprint
class S(LinearFingerprint, MorganFingerprint):
    __slots__ = ()
    def linear_hash_set(self, *a, **k): return set({hs})
    def morgan_hash_set(self, *a, **k): return set({hs})
print(sorted(S().{name}(1, 4, {ln}, {nab})))
"""


def run(ck):
    ck.trusted += ['correspondence runner harness/checks/C17.py + harness/coqcases.py + harness/coqmol.py (printing of live molecules and results as Coq terms)',
                   'CachedMethods shim harness/boot.py', 'CPython 3.12.1 (its hash() is what PyHash is compared with)',
                   'the comparison helpers of the cases: set_z / set_paths / msort of Model.Fingerprint (sorted duplicate-free form of a Python set), canon_frags and '
                   'enc_key (fragment keys recoded by the position of each identifier in the observed identifier dictionary) of harness/checks/C17.py',
                   'brute-force path enumerator, fragment counter, recursive neighbourhood hasher and window arithmetic of the search (Python, independent of the model)']
    ck.assumptions += ['theorems are about the Gallina model of _chains/_fragments/linear_hash_set/linear_bit_set/_morgan_hash_dict/morgan_*; the tie is the '
                       'exact correspondence on corpus / hand-made / generated / malformed-parameter inputs, with PyHash making hash values comparable bit for bit '
                       '(the cases evaluate hash_ztuple_fast, proved equal to PyHash.hash_ztuple: C17_hash_ztuple_fast_eq)',
                       'CPython set iteration order is not modelled: set-valued results are compared as sorted lists, _fragments value lists after sorting; '
                       'the order of arr.add calls of _chains is observed through an injected recording set for min_radius != 1 (for min_radius = 1 the queue is '
                       'filled from a set and only the resulting set is compared)',
                       'for molecules of more than 10 atoms the identifier dictionary observed on the implementation is compared with atom_identifiers g once and '
                       'then fed to fragments_with / morgan_hash_dict_with (whose instances at atom_identifiers g are fragments / morgan_hash_dict by definition)',
                       'int(log2(length)) is modelled as Z.log2 length (exact for 0 < length < 2^49 - 1); numpy arrays are modelled by Model.FingerprintVec, the '
                       'SMILES dictionaries by Model.LinearSmiles / LinearSpell / MorganSmiles (canonical string of a substructure and set iteration order: observed inputs)',
                       'the method bodies of linear.py / morgan.py, both _atom_identifiers and DynamicBond.__hash__ are translated from the source on every run '
                       '(tools/gen_fpbodies.py -> Gen.FingerprintBodies) and proved equal to the hand-written model (C17_translated_*); trusted there: the meaning the '
                       'translation rules give to the Python / numpy primitives (docstring of the translator) and the attribute -> record field table',
                       'molecules satisfy Graph.wf_mol (checked on every correspondence molecule); KeyError paths for dangling neighbours are not modelled; '
                       'CGR containers are modelled by Model.FingerprintCGR (skeleton with int(DynamicBond) as bond number + CGR identifier dictionary)']
    ck.extra['rule'] = ('PyHash: boundary ints around 0, -1, 2^61-1, 2^63, 2^64 and their pairs, then random ints/bools/nested tuples (depth <= 3, length <= 9) and flat int '
                        'tuples; every case is non-trivial. Exhaustive: every labelled graph on 1..4 atoms (C N O S, bond orders 1 8 2 4 3 8 by pair) x radii -1..5 (quick: a seeded third '
                        'of the grid for 4 atoms). Folding: the real linear_bit_set / morgan_bit_set on stub hash sets (boundary values 0, -1, +-2^63, +-2^62, '
                        'alternating bit patterns, random 64-bit values) x 57 lengths (2^0..2^33, 2^40, 2^48, non powers of two, <= 0) x active bits -1..8. '
                        'Fingerprints: empty molecule, hand-made molecules, lipophilicity.csv sample (<= 30 atoms, some renumbered / '
                        'insertion-order shuffled), random labelled graphs of 1-7 atoms built through add_atom/add_bond with sparse numbers, charges, isotopes, radicals, bond orders 1 2 3 4 8; '
                        'per molecule a random part of the grid radii (1..6 incl. min>max, min<1) x length (2^k, non powers of two, <= 0) x active bits (-1..7) x bit '
                        'pairs (-1..9), bounded by a per-molecule budget of hashed items and of chains. Search: same families, more molecules, oracle = brute-force '
                        'paths / counts / recursive Morgan / window arithmetic / renumbering / shuffling; a path case is non-trivial when there are more paths than atoms')
    import time
    phase = ck.extra['phase_s'] = {}

    def timed(name, fn, *a):
        t0 = time.time()
        r = fn(*a)
        phase[name] = round(time.time() - t0, 1)
        return r

    # tables read by Model.LinearSpell (element symbols, charge_str, organic_set, B C N P S), the constants of Gen.FingerprintConsts and the
    # statement-by-statement translation of the seven function bodies (Gen.FingerprintBodies, proved equal to the hand-written model)
    proved = timed('proof steps', common.standard_proof_steps, ck, ['elements', 'smiles_tables', 'fingerprints', 'fpbodies'])
    tied_hash = timed('correspondence PyHash', corr_pyhash, ck)
    tied_fold, bad_fold = timed('correspondence folding', corr_folding, ck)
    tied_x, bad_x, by_tag_x = timed('correspondence exhaustive', corr_exhaustive, ck)
    tied_cgr = timed('correspondence + search CGR', corr_cgr, ck)
    tied_ms = timed('correspondence morgan_hash_smiles', corr_morgan_smiles, ck)
    tied_fp, bad, by_tag = timed('correspondence molecules', corr_molecules, ck)
    all_ok = proved and tied_hash and tied_fp and tied_fold and tied_x and tied_cgr and tied_ms
    if not (tied_fp and tied_x):
        by_tag.update(by_tag_x)
        timed('directed search', directed_search, ck, bad_x + bad, by_tag)
    if not tied_fold:
        timed('directed folding search', directed_fold_search, ck, bad_fold)
    if ck.tier == 'quick':
        n_corpus, n_gen = (100, 100) if all_ok else (300, 300)     # directed: more volume when a layer broke
    else:
        n_corpus, n_gen = (1500, 1500) if all_ok else (3000, 3000)
    timed('search', search, ck, n_corpus, n_gen)
    ck.extra['proved'] = proved
    ck.extra['tied'] = bool(tied_hash and tied_fp and tied_fold and tied_x and tied_cgr and tied_ms)
