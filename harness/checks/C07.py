"""C07 substructure search: theorems about the matcher model (coq/model/Iso.v) + correspondence of the SEQUENCE of
mappings (order included), of _compile_query and of lazy_product + brute-force search on the real code."""
import itertools
import random

import boot  # noqa
import common
import coqcases
import coqmol
import corpus
from coqfmt import zraw, b, lst, opt, tup

replay = common.generic_replay

EXN = {'KeyError', 'ValueError', 'IndexError', 'TypeError', 'StopIteration', 'AttributeError'}


def exn_name(e):
    n = type(e).__name__
    return n if n in EXN else 'OtherError'


# --------------------------------------------------------------------------------------------------
# printers

def zpairs(d):
    return lst([tup(zraw(k), zraw(v)) for k, v in d.items()])


def zadj(bonds):
    return lst([tup(zraw(n), lst([tup(zraw(m), zraw(int(bd))) for m, bd in ms.items()])) for n, ms in bonds.items()])


def zentry(e):
    n, back, atom, bond = e
    return f'({zraw(n)}, {opt(back, zraw)}, {zraw(atom)}, {opt(bond, lambda x: zraw(int(x)))})'


def zcomps(comps):
    return lst([lst([zentry(e) for e in c]) for c in comps])


def zclo(clo):
    return lst([tup(zraw(k), lst([tup(zraw(m), zraw(int(bd))) for m, bd in v])) for k, v in clo.items()])


def maps_term(ms):
    return lst([lst([tup(zraw(k), zraw(v)) for k, v in m.items()]) for m in ms])


def zll(ls):
    return lst([lst(list(x), zraw) for x in ls])


def scope_term(scope):
    return 'None' if scope is None else f'(Some {lst(sorted(scope), zraw)})'


def drain(gen):
    """the whole sequence of a generator, or what it raised"""
    try:
        return list(gen), None
    except Exception as e:  # noqa
        return None, exn_name(e)


def res_maps(ms, err):
    return f'(Err {err})' if err else f'(Ok {maps_term(ms)})'


# --------------------------------------------------------------------------------------------------
# small labelled graphs

def all_graphs(n):
    """all simple graphs on nodes 1..n as edge lists"""
    pairs = list(itertools.combinations(range(1, n + 1), 2))
    for mask in range(1 << len(pairs)):
        yield [p for i, p in enumerate(pairs) if mask >> i & 1]


def mk_graph(nodes, edges, alabel=lambda n: 6, blabel=lambda n, m: 1, edge_order=None):
    """dict-of-dicts in a chosen insertion order; edges inserted like add_bond does (both directions at once)"""
    atoms = {n: alabel(n) for n in nodes}
    bonds = {n: {} for n in nodes}
    for n, m in (edge_order or edges):
        bd = blabel(*sorted((n, m)))
        bonds[n][m] = bd
        bonds[m][n] = bd
    return atoms, bonds


def is_connected(nodes, edges):
    nodes = list(nodes)
    if not nodes:
        return False
    adj = {n: set() for n in nodes}
    for n, m in edges:
        adj[n].add(m)
        adj[m].add(n)
    seen = {nodes[0]}
    todo = [nodes[0]]
    while todo:
        x = todo.pop()
        for y in adj[x]:
            if y not in seen:
                seen.add(y)
                todo.append(y)
    return len(seen) == len(nodes)


def random_graph(rng, nmax, p=None, labels=(6, 7, 8), orders=(1, 2)):
    n = rng.randint(1, nmax)
    ids = rng.sample(range(1, 3 * nmax), n)
    p = p if p is not None else rng.choice([0.2, 0.35, 0.5, 0.8])
    edges = [(x, y) for x, y in itertools.combinations(ids, 2) if rng.random() < p]
    rng.shuffle(edges)
    edges = [e if rng.random() < .5 else e[::-1] for e in edges]
    la = {i: rng.choice(labels) for i in ids}
    lb = {tuple(sorted(e)): rng.choice(orders) for e in edges}
    return mk_graph(ids, edges, la.get, lambda x, y: lb[(x, y)])


class IntGraph:
    """the smallest object Isomorphism._get_mapping works on: plain dicts, integer labels compared by ==."""

    def __init__(self, atoms, bonds):
        self._atoms = atoms
        self._bonds = bonds

    def __len__(self):
        return len(self._atoms)

    def __iter__(self):
        return iter(self._atoms)

    @property
    def connected_components(self):
        from chython.algorithms.rings import _connected_components
        if 'cc' not in self.__dict__:
            self.__dict__['cc'] = _connected_components(self._bonds)
        return self.__dict__['cc']


def int_graph_class():
    from chython.algorithms.isomorphism import Isomorphism

    class G(IntGraph, Isomorphism):
        def get_mapping(self, other, /, *, automorphism_filter=True, searching_scope=None):
            return self._get_mapping(other, automorphism_filter=automorphism_filter, searching_scope=searching_scope)
    return G


# --------------------------------------------------------------------------------------------------
# correspondence

class Cases:
    def __init__(self):
        self.exprs = []
        self.meta = []

    def add(self, expr, meta):
        self.exprs.append(expr)
        self.meta.append(meta)


def corr_lazy_product(ck, cs):
    from chython._functions import lazy_product
    rng = random.Random(f'{ck.seed}:lp')
    shapes = []
    for k in range(0, 4):
        shapes.extend(itertools.product(range(0, 4), repeat=k))          # all lists of <= 3 lists of <= 3 elements
    extra = 150 if ck.tier == 'quick' else 1500
    for _ in range(extra):
        shapes.append(tuple(rng.randint(0, 5) if rng.random() < .9 else 0 for _ in range(rng.randint(2, 5))))
    for i, shape in enumerate(shapes):
        distinct = i < 85 or rng.random() < .7
        args = [[(10 * a + j) if distinct else rng.randint(0, 2) for j in range(ln)] for a, ln in enumerate(shape)]
        # the implementation is handed generators, as Isomorphism._get_mapping does
        got, err = drain(lazy_product(*[iter(x) for x in args]))
        assert err is None
        cs.add(f'list_eqb (list_eqb Z.eqb) (lazy_product {zll(args)}) {zll(got)}', ('lazy_product', args))
        ck.case(('lp', tuple(map(tuple, args))), nontrivial=len(got) > 0)
        ck.count(f'lazy_product:factors={len(shape)}' + (':empty' if not got else ''))


def compile_case(cs, ck, atoms, bonds, tag):
    from chython.algorithms.isomorphism import _compile_query
    try:
        comps, clo = _compile_query(atoms, bonds)
        got = f'(Ok ({zcomps(comps)}, {zclo(clo)}))'
        kind = f'comps={min(len(comps), 4)}:closures={min(sum(len(v) for v in clo.values()), 4)}'
    except Exception as e:  # noqa
        comps = clo = None
        got = f'(Err {exn_name(e)})'
        kind = exn_name(e)
    cs.add(f'zcompiled_eqb (compile_query {zpairs(atoms)} {zadj(bonds)}) {got}', ('compile', tag, atoms, bonds))
    ck.case(('cq', tuple(atoms.items()), tuple((n, tuple(ms.items())) for n, ms in bonds.items())), nontrivial=comps is not None and len(atoms) > 1)
    ck.count('compile_query:' + kind)
    return comps, clo


def corr_compile(ck, cs):
    rng = random.Random(f'{ck.seed}:cq')
    # exhaustive: every graph on <= 4 nodes, neighbour dicts in ascending and in descending insertion order
    for n in range(0, 5):
        for edges in all_graphs(n):
            nodes = list(range(1, n + 1))
            compile_case(cs, ck, *mk_graph(nodes, edges, blabel=lambda x, y: x * 10 + y), 'exh-asc')
            if len(edges) > 1:
                compile_case(cs, ck, *mk_graph(nodes[::-1], edges[::-1], blabel=lambda x, y: x * 10 + y), 'exh-desc')
    # every graph on 5 nodes (quick: a sample), random insertion orders
    g5 = list(all_graphs(5))
    for edges in (g5 if ck.tier != 'quick' else rng.sample(g5, 150)):
        nodes = list(range(1, 6))
        rng.shuffle(nodes)
        e = edges[:]
        rng.shuffle(e)
        compile_case(cs, ck, *mk_graph(nodes, e, blabel=lambda x, y: x * 10 + y), 'g5')
    for _ in range(150 if ck.tier == 'quick' else 2000):
        compile_case(cs, ck, *random_graph(rng, 9), 'random')
    # malformed dictionaries (a container never holds these)
    bad = [
        ({1: 6, 2: 6}, {1: {2: 1}, 2: {}}),                   # asymmetric
        ({1: 6, 2: 6}, {1: {3: 1}, 2: {}}),                   # neighbour that is not an atom
        ({1: 6, 2: 6}, {1: {}}),                              # atom without adjacency
        ({1: 6}, {1: {1: 1}}),                                # loop
        ({1: 6, 2: 6, 3: 6}, {1: {2: 1}, 2: {1: 1, 2: 2, 3: 1}, 3: {2: 1}}),  # loop inside
        ({1: 6, 2: 6}, {1: {2: 1}, 2: {1: 2}}),               # two different bonds
        ({1: 6, 2: 6, 3: 6}, {1: {2: 1, 4: 1}, 2: {1: 1}, 3: {}}),
        ({1: 6, 2: 6, 3: 6}, {1: {2: 1}, 2: {3: 1}, 3: {1: 1}}),  # directed cycle
        ({}, {}),
        ({}, {1: {}}),
    ]
    for atoms, bonds in bad:
        compile_case(cs, ck, atoms, bonds, 'malformed')


def matcher_case(cs, ck, patt, targ, scope, tag):
    """_get_mapping called directly, per compiled component, on integer-labelled graphs"""
    from chython.algorithms.isomorphism import _compile_query, _get_mapping
    (qa, qb), (ta, tb) = patt, targ
    comps, clo = _compile_query(qa, qb)
    for c in comps:
        got, err = drain(_get_mapping(c, clo, ta, tb, scope))
        assert err is None, (patt, targ, scope, err)
        cs.add(f'maps_eqb (zget_mapping {lst([zentry(e) for e in c])} {zclo(clo)} {zpairs(ta)} {zadj(tb)} {lst(sorted(scope), zraw)}) {maps_term(got)}',
               ('_get_mapping', tag, patt, targ, sorted(scope)))
        ck.case(('gm', repr(patt), repr(targ), tuple(sorted(scope))), nontrivial=len(got) > 0)
        ck.count(f'_get_mapping:{tag}:mappings={min(len(got), 5)}' + ('+' if len(got) >= 5 else ''))


def wrapper_case(cs, ck, G, patt, targ, flt, scope, tag):
    """Isomorphism._get_mapping on integer-labelled graphs (compile + components + scope + filter + lazy_product)"""
    p, t = G(*patt), G(*targ)
    got, err = drain(p.get_mapping(t, automorphism_filter=flt, searching_scope=scope))
    tc = [sorted(c) for c in t.connected_components]
    cs.add(f'pyres_eqb maps_eqb (zmol_get_mapping {zpairs(patt[0])} {zadj(patt[1])} {zpairs(targ[0])} {zadj(targ[1])} {zll(tc)} {b(flt)} {scope_term(scope)}) {res_maps(got, err)}',
           ('Isomorphism._get_mapping', tag, patt, targ, flt, scope))
    ck.case(('wr', repr(patt), repr(targ), flt, None if scope is None else tuple(sorted(scope))), nontrivial=bool(got))
    ncomp = len(p._compiled_query[0])
    ck.count(f'wrapper:{tag}:pcomps={min(ncomp, 3)}:tcomps={min(len(tc), 3)}:filter={int(flt)}:scope={"none" if scope is None else ("empty" if not scope else "set")}:'
             f'{"err" if err else "hit" if got else "miss"}')


def corr_matcher(ck, cs):
    rng = random.Random(f'{ck.seed}:gm')
    G = int_graph_class()
    # exhaustive, one label: every connected pattern on <= 3 nodes x every target on <= 4 nodes
    patterns = []
    for n in range(1, 4):
        for edges in all_graphs(n):
            if is_connected(range(1, n + 1), edges):
                patterns.append((list(range(1, n + 1)), edges))
    targets = []
    for n in range(0, 5):
        for edges in all_graphs(n):
            targets.append((list(range(1, n + 1)), edges))
    for pn, pe in patterns:
        for tn, te in targets:
            patt = mk_graph([x + 10 for x in pn], [(x + 10, y + 10) for x, y in pe])
            targ = mk_graph(tn, te)
            matcher_case(cs, ck, patt, targ, set(tn), 'exh1')
    # every pattern on <= 3 nodes (disconnected ones included) x every target on <= 4 nodes through the wrapper
    allp = []
    for n in range(0, 4):
        for edges in all_graphs(n):
            allp.append((list(range(1, n + 1)), edges))
    pairs = [(p, t) for p in allp for t in targets]
    if ck.tier == 'quick':
        pairs = rng.sample(pairs, 500)
    for (pn, pe), (tn, te) in pairs:
        patt = mk_graph([x + 10 for x in pn], [(x + 10, y + 10) for x, y in pe])
        targ = mk_graph(tn, te)
        flt = rng.random() < .5
        r = rng.random()
        scope = None if r < .6 else [] if r < .65 else [x for x in tn + [9] if rng.random() < .6]
        wrapper_case(cs, ck, G, patt, targ, flt, scope, 'exh')
    # labelled graphs: 2 atom labels, 2 bond labels; patterns <= 4 nodes, targets <= 6 nodes
    nrand = 700 if ck.tier == 'quick' else 8000
    for i in range(nrand):
        targ = random_graph(rng, 6, labels=(6, 7), orders=(1, 2))
        tn = list(targ[0])
        if rng.random() < .6 and tn:
            # pattern cut from the target (a hit is guaranteed), renumbered
            keep = rng.sample(tn, rng.randint(1, min(4, len(tn))))
            ren = {x: 20 + k for k, x in enumerate(rng.sample(keep, len(keep)))}
            qa = {ren[x]: targ[0][x] for x in keep}
            qb = {ren[x]: {} for x in keep}
            es = [(x, y) for x in keep for y in targ[1][x] if y in ren and x < y]
            rng.shuffle(es)
            for x, y in es:
                qb[ren[x]][ren[y]] = targ[1][x][y]
                qb[ren[y]][ren[x]] = targ[1][x][y]
            patt = (qa, qb)
        else:
            patt = random_graph(rng, 4, labels=(6, 7), orders=(1, 2))
        flt = rng.random() < .5
        r = rng.random()
        scope = None if r < .5 else [] if r < .55 else [x for x in tn + [99] if rng.random() < .7]
        wrapper_case(cs, ck, G, patt, targ, flt, scope, 'rand')
        if i % 3 == 0:
            matcher_case(cs, ck, patt, targ, set(tn) if scope is None else set(scope), 'rand')


def run(ck):
    pass
