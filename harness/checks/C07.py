"""C07 substructure search: theorems about the matcher model (coq/model/Iso.v) + correspondence of the SEQUENCE of
mappings (order included), of _compile_query and of lazy_product + brute-force search on the real code."""
import itertools
import random

import boot  # noqa
import common
import coqcases
import coqmol
import corpus
from coqfmt import zraw, b, lst, opt, tup

replay = common.generic_replay

EXN = {'KeyError', 'ValueError', 'IndexError', 'TypeError', 'StopIteration', 'AttributeError'}


def exn_name(e):
    n = type(e).__name__
    return n if n in EXN else 'OtherError'


# --------------------------------------------------------------------------------------------------
# printers

def zpairs(d):
    return lst([tup(zraw(k), zraw(v)) for k, v in d.items()])


def zadj(bonds):
    return lst([tup(zraw(n), lst([tup(zraw(m), zraw(int(bd))) for m, bd in ms.items()])) for n, ms in bonds.items()])


def zentry(e):
    n, back, atom, bond = e
    return f'({zraw(n)}, {opt(back, zraw)}, {zraw(atom)}, {opt(bond, lambda x: zraw(int(x)))})'


def zcomps(comps):
    return lst([lst([zentry(e) for e in c]) for c in comps])


def zclo(clo):
    return lst([tup(zraw(k), lst([tup(zraw(m), zraw(int(bd))) for m, bd in v])) for k, v in clo.items()])


def maps_term(ms):
    return lst([lst([tup(zraw(k), zraw(v)) for k, v in m.items()]) for m in ms])


def zll(ls):
    return lst([lst(list(x), zraw) for x in ls])


def scope_term(scope):
    return 'None' if scope is None else f'(Some {lst(sorted(scope), zraw)})'


def drain(gen):
    """the whole sequence of a generator, or what it raised"""
    try:
        return list(gen), None
    except Exception as e:  # noqa
        return None, exn_name(e)


def res_maps(ms, err):
    return f'(Err {err})' if err else f'(Ok {maps_term(ms)})'


# --------------------------------------------------------------------------------------------------
# small labelled graphs

def all_graphs(n):
    """all simple graphs on nodes 1..n as edge lists"""
    pairs = list(itertools.combinations(range(1, n + 1), 2))
    for mask in range(1 << len(pairs)):
        yield [p for i, p in enumerate(pairs) if mask >> i & 1]


def mk_graph(nodes, edges, alabel=lambda n: 6, blabel=lambda n, m: 1, edge_order=None):
    """dict-of-dicts in a chosen insertion order; edges inserted like add_bond does (both directions at once)"""
    atoms = {n: alabel(n) for n in nodes}
    bonds = {n: {} for n in nodes}
    for n, m in (edge_order or edges):
        bd = blabel(*sorted((n, m)))
        bonds[n][m] = bd
        bonds[m][n] = bd
    return atoms, bonds


def is_connected(nodes, edges):
    nodes = list(nodes)
    if not nodes:
        return False
    adj = {n: set() for n in nodes}
    for n, m in edges:
        adj[n].add(m)
        adj[m].add(n)
    seen = {nodes[0]}
    todo = [nodes[0]]
    while todo:
        x = todo.pop()
        for y in adj[x]:
            if y not in seen:
                seen.add(y)
                todo.append(y)
    return len(seen) == len(nodes)


def random_graph(rng, nmax, p=None, labels=(6, 7, 8), orders=(1, 2)):
    n = rng.randint(1, nmax)
    ids = rng.sample(range(1, 3 * nmax), n)
    p = p if p is not None else rng.choice([0.2, 0.35, 0.5, 0.8])
    edges = [(x, y) for x, y in itertools.combinations(ids, 2) if rng.random() < p]
    rng.shuffle(edges)
    edges = [e if rng.random() < .5 else e[::-1] for e in edges]
    la = {i: rng.choice(labels) for i in ids}
    lb = {tuple(sorted(e)): rng.choice(orders) for e in edges}
    return mk_graph(ids, edges, la.get, lambda x, y: lb[(x, y)])


class IntGraph:
    """the smallest object Isomorphism._get_mapping works on: plain dicts, integer labels compared by ==."""

    def __init__(self, atoms, bonds):
        self._atoms = atoms
        self._bonds = bonds

    def __len__(self):
        return len(self._atoms)

    def __iter__(self):
        return iter(self._atoms)

    @property
    def connected_components(self):
        from chython.algorithms.rings import _connected_components
        if 'cc' not in self.__dict__:
            self.__dict__['cc'] = _connected_components(self._bonds)
        return self.__dict__['cc']


def int_graph_class():
    from chython.algorithms.isomorphism import Isomorphism

    class G(IntGraph, Isomorphism):
        def get_mapping(self, other, /, *, automorphism_filter=True, searching_scope=None):
            return self._get_mapping(other, automorphism_filter=automorphism_filter, searching_scope=searching_scope)
    return G


# --------------------------------------------------------------------------------------------------
# correspondence

class Cases:
    def __init__(self):
        self.exprs = []
        self.meta = []

    def add(self, expr, meta):
        self.exprs.append(expr)
        self.meta.append(meta)


def corr_lazy_product(ck, cs):
    from chython._functions import lazy_product
    rng = random.Random(f'{ck.seed}:lp')
    shapes = []
    for k in range(0, 4):
        shapes.extend(itertools.product(range(0, 4), repeat=k))          # all lists of <= 3 lists of <= 3 elements
    extra = 150 if ck.tier == 'quick' else 1500
    for _ in range(extra):
        shapes.append(tuple(rng.randint(0, 5) if rng.random() < .9 else 0 for _ in range(rng.randint(2, 5))))
    for i, shape in enumerate(shapes):
        distinct = i < 85 or rng.random() < .7
        args = [[(10 * a + j) if distinct else rng.randint(0, 2) for j in range(ln)] for a, ln in enumerate(shape)]
        # the implementation is handed generators, as Isomorphism._get_mapping does
        got, err = drain(lazy_product(*[iter(x) for x in args]))
        assert err is None
        cs.add(f'list_eqb (list_eqb Z.eqb) (lazy_product {zll(args)}) {zll(got)}', ('lazy_product', args))
        ck.case(('lp', tuple(map(tuple, args))), nontrivial=len(got) > 0)
        ck.count(f'lazy_product:factors={len(shape)}' + (':empty' if not got else ''))


def compile_case(cs, ck, atoms, bonds, tag):
    from chython.algorithms.isomorphism import _compile_query
    try:
        comps, clo = _compile_query(atoms, bonds)
        got = f'(Ok ({zcomps(comps)}, {zclo(clo)}))'
        kind = f'comps={min(len(comps), 4)}:closures={min(sum(len(v) for v in clo.values()), 4)}'
    except Exception as e:  # noqa
        comps = clo = None
        got = f'(Err {exn_name(e)})'
        kind = exn_name(e)
    cs.add(f'zcompiled_eqb (compile_query {zpairs(atoms)} {zadj(bonds)}) {got}', ('compile', tag, atoms, bonds))
    ck.case(('cq', tuple(atoms.items()), tuple((n, tuple(ms.items())) for n, ms in bonds.items())), nontrivial=comps is not None and len(atoms) > 1)
    ck.count('compile_query:' + kind)
    return comps, clo


def corr_compile(ck, cs):
    rng = random.Random(f'{ck.seed}:cq')
    # exhaustive: every graph on <= 4 nodes, neighbour dicts in ascending and in descending insertion order
    for n in range(0, 5):
        for edges in all_graphs(n):
            nodes = list(range(1, n + 1))
            compile_case(cs, ck, *mk_graph(nodes, edges, blabel=lambda x, y: x * 10 + y), 'exh-asc')
            if len(edges) > 1:
                compile_case(cs, ck, *mk_graph(nodes[::-1], edges[::-1], blabel=lambda x, y: x * 10 + y), 'exh-desc')
    # every graph on 5 nodes (quick: a sample), random insertion orders
    g5 = list(all_graphs(5))
    for edges in (g5 if ck.tier != 'quick' else rng.sample(g5, 150)):
        nodes = list(range(1, 6))
        rng.shuffle(nodes)
        e = edges[:]
        rng.shuffle(e)
        compile_case(cs, ck, *mk_graph(nodes, e, blabel=lambda x, y: x * 10 + y), 'g5')
    for _ in range(150 if ck.tier == 'quick' else 2000):
        compile_case(cs, ck, *random_graph(rng, 9), 'random')
    # malformed dictionaries (a container never holds these)
    bad = [
        ({1: 6, 2: 6}, {1: {2: 1}, 2: {}}),                   # asymmetric
        ({1: 6, 2: 6}, {1: {3: 1}, 2: {}}),                   # neighbour that is not an atom
        ({1: 6, 2: 6}, {1: {}}),                              # atom without adjacency
        ({1: 6}, {1: {1: 1}}),                                # loop
        ({1: 6, 2: 6, 3: 6}, {1: {2: 1}, 2: {1: 1, 2: 2, 3: 1}, 3: {2: 1}}),  # loop inside
        ({1: 6, 2: 6}, {1: {2: 1}, 2: {1: 2}}),               # two different bonds
        ({1: 6, 2: 6, 3: 6}, {1: {2: 1, 4: 1}, 2: {1: 1}, 3: {}}),
        ({1: 6, 2: 6, 3: 6}, {1: {2: 1}, 2: {3: 1}, 3: {1: 1}}),  # directed cycle
        ({}, {}),
        ({}, {1: {}}),
    ]
    for atoms, bonds in bad:
        compile_case(cs, ck, atoms, bonds, 'malformed')


_TRACE_LINE = []
_FULL_STATES = []      # filled by traced_get_mapping: (stack top first, path, mapping items, reversed_mapping items) at every pop


def traced_get_mapping(c, clo, ta, tb, scope):
    """the real explicit-stack loop of _get_mapping under sys.settrace: (n, depth, path[:depth]) right after every `stack.pop()`, and what is
    yielded.  The line is located by its text (exactly one occurrence, else the tie is reported broken)."""
    import inspect
    import sys
    from chython.algorithms import isomorphism as iso
    if not _TRACE_LINE:
        lines, start = inspect.getsourcelines(iso._get_mapping)
        hits = [start + i for i, text in enumerate(lines) if text.strip() == 'current = linear_query[depth][0]']
        prev = [start + i for i, text in enumerate(lines) if text.strip() == 'n, depth = stack.pop()']
        if len(hits) != 1 or len(prev) != 1 or hits[0] != prev[0] + 1:
            raise RuntimeError('_get_mapping: the statement after `n, depth = stack.pop()` was not found')
        _TRACE_LINE.append(hits[0])
    code = iso._get_mapping.__code__
    states = []
    full = []

    def local(frame, event, arg):
        if event == 'line' and frame.f_lineno == _TRACE_LINE[0]:
            loc = frame.f_locals
            states.append((loc['n'], loc['depth'], tuple(loc['path'][:loc['depth']])))
            # everything the loop carries, as it is (stale tail of path included): for the explicit-stack model Model.IsoStack
            full.append(([(loc['n'], loc['depth'])] + list(reversed(loc['stack'])), list(loc['path']), list(loc['mapping'].items()),
                         list(loc['reversed_mapping'].items())))
        return local

    def tracer(frame, event, arg):
        return local if frame.f_code is code else None
    old = sys.gettrace()
    sys.settrace(tracer)
    try:
        out = list(iso._get_mapping(c, clo, ta, tb, scope))
    finally:
        sys.settrace(old)
    _FULL_STATES[:] = full
    return out, states


def full_states_term(full):
    pr = lambda d: lst([tup(zraw(k), zraw(v)) for k, v in d])
    return lst([tup(pr(stk), lst(path, zraw), pr(mp), pr(rm)) for stk, path, mp, rm in full])


def trace_term(states):
    return lst([tup(zraw(n), zraw(d), lst(list(p), zraw)) for n, d, p in states])


def matcher_case(cs, ck, patt, targ, scope, tag):
    """_get_mapping called directly, per compiled component, on integer-labelled graphs"""
    from chython.algorithms.isomorphism import _compile_query, _get_mapping
    (qa, qb), (ta, tb) = patt, targ
    comps, clo = _compile_query(qa, qb)
    for c in comps:
        got, err = drain(_get_mapping(c, clo, ta, tb, scope))
        assert err is None, (patt, targ, scope, err)
        cs.add(f'maps_eqb (zget_mapping {lst([zentry(e) for e in c])} {zclo(clo)} {zpairs(ta)} {zadj(tb)} {lst(sorted(scope), zraw)}) {maps_term(got)}',
               ('_get_mapping', tag, patt, targ, sorted(scope)))
        # intermediate states: every pop of the explicit stack (node, depth, valid part of the path) against the model's pre-order trace
        got2, states = traced_get_mapping(c, clo, ta, tb, scope)
        assert got2 == got
        cs.add(f'trace_eqb (zget_mapping_trace {lst([zentry(e) for e in c])} {zclo(clo)} {zpairs(ta)} {zadj(tb)} {lst(sorted(scope), zraw)}) {trace_term(states)}',
               ('_get_mapping trace', tag, patt, targ, sorted(scope)))
        # the loop in its own form (Model.IsoStack: stack, path with its stale tail, mapping, reversed_mapping at every pop) and, with one unit
        # of fuel per observed pop, its result against the recursive model (the theorem C07_stack_loop_refines says: for some fuel)
        if len(states) <= 60 and (ck.tier == 'quick' or len(cs.exprs) % 8 < 2):      # thorough: every fourth case of the big exhaustive families
            cs.add(f'sm_check {lst([zentry(e) for e in c])} {zclo(clo)} {zpairs(ta)} {zadj(tb)} {lst(sorted(scope), zraw)} {full_states_term(_FULL_STATES)}',
                   ('_get_mapping loop states', tag, patt, targ, sorted(scope)))
            ck.count('_get_mapping:loop-states:' + ('stale-path' if any(len(path) > stk[0][1] for stk, path, _, _ in _FULL_STATES) else 'no-stale-path'))
        ck.count(f'_get_mapping:trace:pops={min(len(states) // 5 * 5, 30)}+')
        ck.case(('gm', repr(patt), repr(targ), tuple(sorted(scope))), nontrivial=len(got) > 0)
        ck.count(f'_get_mapping:{tag}:mappings={min(len(got), 5)}' + ('+' if len(got) >= 5 else ''))


def pop_order(components, atoms):
    """a pop order of the atom set that makes the model's _connected_components produce the components in the order the real code returned
    them: one representative of every component first (which atom set.pop() really handed out cannot be observed and does not matter)"""
    reps = [min(c) for c in components]
    return reps + [n for n in atoms if n not in reps]


def wrapper_case(cs, ck, G, patt, targ, flt, scope, tag):
    """Isomorphism._get_mapping on integer-labelled graphs (compile + components + scope + filter + lazy_product)"""
    p, t = G(*patt), G(*targ)
    got, err = drain(p.get_mapping(t, automorphism_filter=flt, searching_scope=scope))
    tc = [sorted(c) for c in t.connected_components]
    cs.add(f'pyres_eqb maps_eqb (zmol_get_mapping {zpairs(patt[0])} {zadj(patt[1])} {zpairs(targ[0])} {zadj(targ[1])} {zll(tc)} {b(flt)} {scope_term(scope)}) {res_maps(got, err)}',
           ('Isomorphism._get_mapping', tag, patt, targ, flt, scope))
    ck.case(('wr', repr(patt), repr(targ), flt, None if scope is None else tuple(sorted(scope))), nontrivial=bool(got))
    if tag == 'rand' and flt:
        # the hypotheses of the theorems (well-formed adjacency; connected_components = a partition into CONNECTED lists no bond leaves)
        cs.add(f'hyp_okb Z.eqb {zpairs(targ[0])} {zadj(targ[1])} {zll(tc)} && wf_adjb Z.eqb {zpairs(patt[0])} {zadj(patt[1])} && '
               f'cc_tieb (W := Z) {zadj(targ[1])} {lst(pop_order(t.connected_components, targ[0]), zraw)} {zll(tc)}',
               ('hypotheses', tag, patt, targ))
        ck.count('hypotheses:int-graph')
    ncomp = len(p._compiled_query[0])
    ck.count(f'wrapper:{tag}:pcomps={min(ncomp, 3)}:tcomps={min(len(tc), 3)}:filter={int(flt)}:scope={"none" if scope is None else ("empty" if not scope else "set")}:'
             f'{"err" if err else "hit" if got else "miss"}')


def corr_matcher(ck, cs):
    rng = random.Random(f'{ck.seed}:gm')
    G = int_graph_class()
    # exhaustive, one label: every connected pattern on <= 3 nodes x every target on <= 4 nodes
    patterns = []
    for n in range(1, 4):
        for edges in all_graphs(n):
            if is_connected(range(1, n + 1), edges):
                patterns.append((list(range(1, n + 1)), edges))
    targets = []
    for n in range(0, 5):
        for edges in all_graphs(n):
            targets.append((list(range(1, n + 1)), edges))
    for pn, pe in patterns:
        for tn, te in targets:
            patt = mk_graph([x + 10 for x in pn], [(x + 10, y + 10) for x, y in pe])
            targ = mk_graph(tn, te)
            matcher_case(cs, ck, patt, targ, set(tn), 'exh1')
    if ck.tier != 'quick':
        # thorough: every connected pattern on 4 nodes x every target on 4 nodes, and two atom labels on the 3-node patterns x 4-node targets
        p4 = [(list(range(1, 5)), e) for e in all_graphs(4) if is_connected(range(1, 5), e)]
        t4 = [(list(range(1, 5)), e) for e in all_graphs(4)]
        for pn, pe in p4:
            for tn, te in t4:
                matcher_case(cs, ck, mk_graph([x + 10 for x in pn], [(x + 10, y + 10) for x, y in pe]), mk_graph(tn, te), set(tn), 'exh4')
        for pn, pe in [x for x in patterns if len(x[0]) == 3]:
            for tn, te in t4:
                for lab in range(8):
                    for tlab in (0b0101, 0b0011, 0b0110):
                        patt = mk_graph([x + 10 for x in pn], [(x + 10, y + 10) for x, y in pe], alabel=lambda n, lab=lab: 6 + (lab >> (n - 11) & 1))
                        targ = mk_graph(tn, te, alabel=lambda n, tlab=tlab: 6 + (tlab >> (n - 1) & 1))
                        matcher_case(cs, ck, patt, targ, set(tn), 'exh-labels')
    # every pattern on <= 3 nodes (disconnected ones included) x every target on <= 4 nodes through the wrapper
    allp = []
    for n in range(0, 4):
        for edges in all_graphs(n):
            allp.append((list(range(1, n + 1)), edges))
    pairs = [(p, t) for p in allp for t in targets]
    if ck.tier == 'quick':
        pairs = rng.sample(pairs, 500)
    for (pn, pe), (tn, te) in pairs:
        patt = mk_graph([x + 10 for x in pn], [(x + 10, y + 10) for x, y in pe])
        targ = mk_graph(tn, te)
        flt = rng.random() < .5
        r = rng.random()
        scope = None if r < .6 else [] if r < .65 else [x for x in tn + [9] if rng.random() < .6]
        wrapper_case(cs, ck, G, patt, targ, flt, scope, 'exh')
    # labelled graphs: 2 atom labels, 2 bond labels; patterns <= 4 nodes, targets <= 6 nodes
    nrand = 700 if ck.tier == 'quick' else 8000
    for i in range(nrand):
        targ = random_graph(rng, 6, labels=(6, 7), orders=(1, 2))
        tn = list(targ[0])
        if rng.random() < .6 and tn:
            # pattern cut from the target (a hit is guaranteed), renumbered
            keep = rng.sample(tn, rng.randint(1, min(4, len(tn))))
            ren = {x: 20 + k for k, x in enumerate(rng.sample(keep, len(keep)))}
            qa = {ren[x]: targ[0][x] for x in keep}
            qb = {ren[x]: {} for x in keep}
            es = [(x, y) for x in keep for y in targ[1][x] if y in ren and x < y]
            rng.shuffle(es)
            for x, y in es:
                qb[ren[x]][ren[y]] = targ[1][x][y]
                qb[ren[y]][ren[x]] = targ[1][x][y]
            patt = (qa, qb)
        else:
            patt = random_graph(rng, 4, labels=(6, 7), orders=(1, 2))
        flt = rng.random() < .5
        r = rng.random()
        scope = None if r < .5 else [] if r < .55 else [x for x in tn + [99] if rng.random() < .7]
        wrapper_case(cs, ck, G, patt, targ, flt, scope, 'rand')
        if i % 3 == 0:
            matcher_case(cs, ck, patt, targ, set(tn) if scope is None else set(scope), 'rand')



# --------------------------------------------------------------------------------------------------
# real molecules

SMALL_PATTERNS = ['C', 'N', 'O', 'CC', 'CO', 'C=O', 'CN', 'CCO', 'CC(C)C', 'C(=O)O', 'C(=O)N', 'c1ccccc1', 'c1ccncc1', 'C1CC1', 'C1CCCCC1',
                  'cc', 'ccc', 'cO', 'cN', 'CF', 'CCl', 'S(=O)=O', 'C#N', 'C.C', 'C.O', 'CC.N', 'O.O', 'C.C.C', 'CO.CO', 'c1ccccc1.C',
                  '[O-]', '[N+]', '[Na+].[O-]', 'C=C', 'CC=O', 'OCCO', 'NCC(=O)O', 'C1CCC1', 'c1ccc2ccccc2c1', 'CCCC', 'C(C)(C)(C)C']
SMALL_TARGETS = ['C', 'CC', 'CCO', 'CC(=O)O', 'c1ccccc1', 'CC(C)C', 'C1CC1', 'C1CCC1', 'CCN', 'OCCO', 'C.C', 'C.O', 'CC.O', 'CO.CO', 'C.C.C',
                 'CCO.CN', 'NCC(=O)O', 'C1CC1C', 'C=CC=C', 'c1ccncc1', 'C1CC1.C1CC1', '[Na+].[O-]C', 'CC(=O)[O-].[NH4+]', 'OO', 'N#N', 'C#CC',
                 'FC(F)F', 'ClCCl', 'C1CC2CC12', 'C12CC1C2', 'CC(C)(C)C', 'C1=CC=C1', 'O=C=O', 'CS(C)=O', 'C[N+](C)(C)C', 'CCCCCCCC', 'C1CCCCCCC1',
                 'c1ccccc1C', 'c1ccccc1O', 'CC.CC.CC', 'O.O.O.O', 'C1CC1.O.N']
SMARTS = ['[C;D1]-[C;!R]=O', '[#6]-[#8]', '[O,N;D1]', 'c:c', '[C;D3](=O)[O;D1]', '[C;r6]', 'C-,=O', '[N;h2]', '[C;z2]', '[O;x1]', '[C;D1].[O;D1]',
          '[#6]1:[#6]:[#6]:[#6]:[#6]:[#6]:1', '[C;a]', 'cO', '[A]-[A]', '[O,S;D2]', '[C;D2;!R]', '[C;r3]', '[N,O].[N,O]', '[#7]~[#6]', 'C=,#C',
          '[C;h3]', '[c;D3]', '[A].[A]', '[F,Cl,Br,I]-c', '[C;D4]', '[#6]-[#6]-[#8]', '[C;r5,r6]', '[O;D1]=[C;D3]-[O,N]', '[A]1-[A]-[A]-1',
          # ring-membership marks on bonds
          '[#6]-;!@[#6]', '[#6]-;@[#6]', '[#6]=;!@[#6]', '[#6]-,=;!@[#8]', '[#7]-;!@[#6]-;!@[#6]', '[#6]:;@[#6]', '[#6]-;@[#6]-;!@[#6]', '[C;r5,r6]-;!@[A]',
          # primitives on the any-element atom A and on element lists (their __eq__ are separate code)
          '[A;h1]', '[A;h1,h2]C', '[A;h0]', '[A;h1]C', '[A;D3]', '[A;x1]-[A]', '[A;z2]=[A]', '[A;h2]-[A;h0]', '[C,N;h1]', '[C,N,O;h0]', '[A;r6]',
          '[A;D1;h3]-[A;h0]', '[A;h3]-[A;h1,h2]', '[O,S;h1]-[A;h0]', '[A;!R;D2]', '[C,N;D3]-[A;x0]']
# element lists whose symbols contain / are contained in the symbols of OTHER elements (Cl-C, Br-B, Si-S-I, Na-N, Se-S, Sn-S-N ...) and
# targets holding those other elements in positions compatible with the rest of the query: every list query x every target, in the
# correspondence (reference path), the brute-force search (reference and default path) and the RDKit comparison
LIST_SMARTS = ['[Cl,Br]-[#6]', '[Si,P]-[#6]', '[Br,I]', '[Cl,F]-[#6]', '[Se,Sn]', '[Na,K]', '[Si,Se;D2]', '[#6]-[Cl,Br,I]']
HETERO_TARGETS = ['ClCCBr', 'OB(O)CCBr', 'C[Si](C)(C)CSC', 'FC(Cl)CN', 'C[Se]CSN', 'CCO', 'IC(Br)CP']
# graph cycles that are NOT rings for the library: a cycle closed through a special / coordination bond (order 8, `~`) is ignored by ring
# perception, so every bond on it has in_ring False.  Ring-CLOSING queries (closure bond without ring mark, with @, with !@, the special bond
# itself as closure) and open queries on such targets, next to ordinary rings: every query x every target on the reference path, on the
# default (accelerated) path and in the correspondence
CHELATE_TARGETS = ['[Cu]1~OCCN~1', '[Cu]12(~OC(=O)CN~1)~OC(=O)CN~2', '[Zn]1~NCCN~1', 'C1CC[Fe]~1', '[Cu]1~OCCO~1.CC1CCCCC1', 'O1CC[Ni]~1~OCC', 'C1CC[Fe]~1C2CC2']
CHELATE_QUERIES = ['[Cu]1~OCCN~1', 'N1~[Cu]~OCC1', 'N~[Cu]~O', '[A]1[A][A][A]~1', '[A]~1[A][A][A]1', '[#6]1[#6][#8]~[A]~[#7]1', '[#6]1[#6][#6]~[A]-1',
                   '[#6]1[#6][#6]~;!@[A]-;!@1', '[#6]1[#6][#6]~[A]-;@1', '[A]1-;!@[A][A]~[A]1', '[#6]-;!@[#6]', '[A]~;!@[A]~;!@[A]', '[A]1[A][A]1', '[#7]1[#6][#6][#7]~[A]~1']
# ring sizes the bit masks of the accelerated matcher cannot express (above 65): a query asking for such a ring, and a target whose only ring
# is that large (the library sends both to the reference path; the DEFAULT call must still return exactly the embeddings)
BIG_RING = 'C1' + 'C' * 64 + 'C1'                        # a 66-membered carbocycle
BIG_RING_PAIRS = [('[C;r66]', 'CCC'), ('[C;!R]', BIG_RING), ('[C;r66]', BIG_RING), ('[C;!R]', 'CCC'), ('[C;r66,r6]', 'C1CCCCC1C'), ('[C;D2]', BIG_RING)]
# the part of the SMARTS language that chython and RDKit read identically on neutral, isotope-free, radical-free targets whose aromatic
# bonds both toolkits agree on: atomic numbers, lists of them, degree, bond orders - = # :, ring marks @ !@ on bonds
RDKIT_SMARTS = ['[#6]-;!@[#6]', '[#6]-;@[#6]', '[#6]=;!@[#6]', '[#6]=;@[#6]', '[#6]-,=;!@[#8]', '[#6]-;@[#8]', '[#6]=[#8]', '[#6]-[#8]', '[#6]#[#7]',
                '[#6]-[#7]', '[#6]:[#6]', '[#6]:;@[#7]', '[#7]-;!@[#6]-;!@[#6]', '[#6]-;@[#6]-;!@[#6]', '[#6]-[#6]-[#8]', '[#6;D3]-[#8]', '[#6;D1]-[#6]',
                '[#8,#7]-[#6]', '[#6]-;!@[#6]=;!@[#8]', '[#6;D2]-;@[#6;D3]', '[#6]-;!@[#7,#8;D1]', '[#6]-;@[#6]-;@[#6]']


def small_enough(gen, limit):
    """the whole sequence when it has at most `limit` items, else None (case skipped: output too large to be worth printing)"""
    out = list(itertools.islice(gen, limit + 1))
    return out if len(out) <= limit else None


def cut_pattern(rng, mol, size):
    """connected random fragment of a molecule, as a new molecule (mol.substructure), sometimes renumbered"""
    start = rng.choice(list(mol._atoms))
    chosen = [start]
    frontier = [m for m in mol._bonds[start]]
    while frontier and len(chosen) < size:
        x = frontier.pop(rng.randrange(len(frontier)))
        if x in chosen:
            continue
        chosen.append(x)
        frontier.extend(m for m in mol._bonds[x] if m not in chosen)
    sub = mol.substructure(chosen)
    if rng.random() < .5:
        sub = corpus.renumber(sub, rng)
    return sub


def txt(m):
    """SMILES of a molecule for messages ('' for the empty molecule, whose __str__ raises)"""
    return str(m) if len(m) else ''


def has_stereo(m):
    return any(a.stereo is not None for _, a in m.atoms()) or any(bd.stereo is not None for *_, bd in m.bonds())


def mol_pool(ck, n, maxatoms, salt):
    from chython import smiles
    out = []
    for smi in corpus.sample(corpus.lipo(), 4 * n, ck.seed, salt):
        try:
            m = smiles(smi)
        except Exception:  # noqa
            continue
        if m is not None and len(m) <= maxatoms:
            out.append(m)
        if len(out) >= n:
            break
    return out


def mol_case(cs, ck, p, t, flt, scope, tag, limit=200):
    got = None
    err = None
    try:
        got = small_enough(p.get_mapping(t, automorphism_filter=flt, searching_scope=scope), limit)
        if got is None:
            ck.count(f'molecule:{tag}:skipped-too-many-mappings')
            return
    except Exception as e:  # noqa
        err = exn_name(e)
    tc = [sorted(c) for c in t.connected_components]
    cs.add(f'pyres_eqb maps_eqb (mm_get_mapping {coqmol.mol_term(p)} {coqmol.mol_term(t)} {zll(tc)} {b(flt)} {scope_term(scope)}) {res_maps(got, err)}',
           ('MoleculeContainer.get_mapping', tag, txt(p), txt(t), flt, scope))
    ck.case(('mol', txt(p), tuple(p._atoms), txt(t), tuple(t._atoms), flt, None if scope is None else tuple(sorted(scope))), nontrivial=bool(got))
    ck.count(f'molecule:{tag}:pcomps={min(p.connected_components_count, 3) if len(p) else 0}:tcomps={min(len(tc), 3)}:filter={int(flt)}:'
             f'scope={"none" if scope is None else ("empty" if not scope else "set")}:{"err" if err else "hit" if got else "miss"}')


def ops_case(cs, ck, p, t, tag):
    """is_substructure / is_equal / < <= > >= against the model"""
    tcp = [sorted(c) for c in p.connected_components]
    tct = [sorted(c) for c in t.connected_components]
    P, T = coqmol.mol_term(p), coqmol.mol_term(t)

    def res(fn):
        try:
            return f'(Ok {b(fn())})'
        except Exception as e:  # noqa
            return f'(Err {exn_name(e)})'
    for name, model, fn in (
            ('is_substructure', f'mm_is_substructure {P} {T} {zll(tct)}', lambda: p.is_substructure(t)),
            ('is_equal', f'mm_is_equal {P} {T} {zll(tct)}', lambda: p.is_equal(t)),
            ('lt', f'mm_lt {P} {T} {zll(tct)}', lambda: p < t),
            ('le', f'mm_is_substructure {P} {T} {zll(tct)}', lambda: p <= t),
            ('gt', f'mm_lt {T} {P} {zll(tcp)}', lambda: p > t),
            ('ge', f'mm_is_substructure {T} {P} {zll(tcp)}', lambda: p >= t)):
        got = res(fn)
        cs.add(f'pyres_eqb Bool.eqb ({model}) {got}', ('operator', name, tag, txt(p), txt(t)))
        ck.case(('op', name, txt(p), tuple(p._atoms), txt(t), tuple(t._atoms)), nontrivial='true' in got)
        ck.count(f'operator:{name}:{got.strip("()").replace("Ok ", "")}')


def random_scope(rng, t):
    r = rng.random()
    if r < .5:
        return None
    if r < .56:
        return []
    return [x for x in list(t._atoms) + [10 ** 6] if rng.random() < .7]


def corr_molecules(ck, cs):
    from chython import smiles
    from chython.containers import MoleculeContainer
    rng = random.Random(f'{ck.seed}:mol')
    n = 60 if ck.tier == 'quick' else 600
    pool = mol_pool(ck, n, 32, 'c07-corr')
    small = [smiles(x) for x in SMALL_PATTERNS]
    for i, t in enumerate(pool):
        # compiled query of the whole molecule (shape only: atoms and bonds are carried through)
        comps, clo = t._compiled_query
        sk = (f'(Ok ({lst([lst([tup(zraw(e[0]), opt(e[1], zraw)) for e in c]) for c in comps])}, '
              f'{lst([tup(zraw(k), lst([zraw(m) for m, _ in v])) for k, v in clo.items()])}))')
        cs.add(f'skel_eqb (skel (compile_query (m_atoms {coqmol.mol_term(t)}) (m_adj {coqmol.mol_term(t)}))) {sk}', ('_compiled_query', str(t)))
        ck.case(('mol-cq', str(t), tuple(t._atoms)), nontrivial=True)
        tc0 = [sorted(c) for c in t.connected_components]
        cs.add(f'hyp_okb bond_eqb (m_atoms {coqmol.mol_term(t)}) (m_adj {coqmol.mol_term(t)}) {zll(tc0)} && '
               f'cc_tieb (W := bond) (m_adj {coqmol.mol_term(t)}) {lst(pop_order(t.connected_components, t._atoms), zraw)} {zll(tc0)}', ('hypotheses', 'molecule', str(t)))
        ck.count('hypotheses:molecule')
        ck.count(f'molecule:compile_query:closures={min(sum(len(v) for v in clo.values()), 4)}')
        for k in range(3):
            p = cut_pattern(rng, t, rng.randint(2, 9))
            mol_case(cs, ck, p, t, rng.random() < .5, random_scope(rng, t), 'cut')
        for p in rng.sample(small, 3):
            mol_case(cs, ck, p, t, rng.random() < .5, random_scope(rng, t), 'small')
        # target with several components: this molecule plus another one (and a pattern with two components cut from both)
        o = rng.choice(pool)
        try:
            two = smiles(str(t) + '.' + str(o))
        except Exception:  # noqa
            two = None
        if two is not None and len(two) <= 40:
            cs.add(f'hyp_okb bond_eqb (m_atoms {coqmol.mol_term(two)}) (m_adj {coqmol.mol_term(two)}) {zll([sorted(c) for c in two.connected_components])} && '
                   f'cc_tieb (W := bond) (m_adj {coqmol.mol_term(two)}) {lst(pop_order(two.connected_components, two._atoms), zraw)} '
                   f'{zll([sorted(c) for c in two.connected_components])}', ('hypotheses', 'molecule', str(two)))
            ck.count('hypotheses:molecule')
            p1 = cut_pattern(rng, two, rng.randint(1, 4))
            p2 = cut_pattern(rng, two, rng.randint(1, 4))
            try:
                pp = smiles(str(p1) + '.' + str(p2))
            except Exception:  # noqa
                pp = None
            if pp is not None:
                mol_case(cs, ck, pp, two, rng.random() < .5, random_scope(rng, two), 'two-components')
            mol_case(cs, ck, rng.choice(small), two, rng.random() < .5, random_scope(rng, two), 'small-on-two')
        if i % 4 == 0:
            ops_case(cs, ck, cut_pattern(rng, t, rng.randint(1, 6)), t, 'cut')
            ops_case(cs, ck, t, t.copy(), 'self')
            ops_case(cs, ck, rng.choice(small), t, 'small')
    # boundary: empty pattern / empty target
    e = MoleculeContainer()
    c = smiles('CO')
    for p, t in ((e, c), (c, e), (e, e)):
        for flt in (True, False):
            mol_case(cs, ck, p, t, flt, None, 'empty')
        ops_case(cs, ck, p, t, 'empty')


def corr_smarts(ck, cs):
    """query patterns (pure-Python path, _cython=False): atom and bond predicates enter the model as truth tables"""
    from chython import smiles, smarts
    rng = random.Random(f'{ck.seed}:smarts')
    pool = mol_pool(ck, 25 if ck.tier == 'quick' else 250, 30, 'c07-smarts')
    pool += [smiles(x) for x in ('CC(=O)O', 'CCO.CN', 'c1ccccc1O', 'C1CC1C(=O)N', 'OCC(O)CO.O')]
    qs = []
    for s in SMARTS:
        try:
            q = smarts(s)
        except Exception:  # noqa
            continue
        if any(getattr(a, 'stereo', None) is not None for a in q._atoms.values()):
            continue
        qs.append((s, q))
    lq = [(s, smarts(s)) for s in LIST_SMARTS]
    for t, fixed in [(t, None) for t in pool] + [(smiles(x), lq) for x in HETERO_TARGETS]:
        tb_id = {}
        for n, ms in t._bonds.items():
            for m in ms:
                tb_id.setdefault(frozenset((n, m)), len(tb_id) + 1)
        for s, q in fixed or rng.sample(qs, 6):
            qb_id = {}
            for n, ms in q._bonds.items():
                for m in ms:
                    qb_id.setdefault(frozenset((n, m)), len(qb_id) + 1)
            # the truth tables handed to the model come from the INDEPENDENT evaluation of the primitives (own_atom_match / own_bond_match, no
            # __eq__ of the library) wherever it decides: a wrong primitive in the library then shows up as a disagreement of the sequences
            atab = [(qn, tn) for qn, qa in q._atoms.items() for tn, ta in t._atoms.items() if own_or_lib_atom(qa, t, tn)]
            btab = [(qb_id[qk], tb_id[tk]) for qk in qb_id for tk in tb_id
                    if own_or_lib_bond(q._bonds[min(qk)][max(qk)], t, min(tk), max(tk))]
            flt = rng.random() < .5
            scope = random_scope(rng, t)
            got = small_enough(q.get_mapping(t, automorphism_filter=flt, searching_scope=scope, _cython=False), 200)
            if got is None:
                ck.count('smarts:skipped-too-many-mappings')
                continue
            tc = [sorted(c) for c in t.connected_components]
            qat = lst([tup(zraw(n), zraw(n)) for n in q._atoms])
            qbt = lst([tup(zraw(n), lst([tup(zraw(m), zraw(qb_id[frozenset((n, m))])) for m in ms])) for n, ms in q._bonds.items()])
            tat = lst([tup(zraw(n), zraw(n)) for n in t._atoms])
            tbt = lst([tup(zraw(n), lst([tup(zraw(m), zraw(tb_id[frozenset((n, m))])) for m in ms])) for n, ms in t._bonds.items()])
            pr = lambda tab: lst([tup(zraw(x), zraw(y)) for x, y in tab])
            cs.add(f'pyres_eqb maps_eqb (tab_get_mapping {pr(atab)} {pr(btab)} {qat} {qbt} {tat} {tbt} {zll(tc)} {b(flt)} {scope_term(scope)}) '
                   f'(Ok {maps_term(got)})', ('QueryContainer.get_mapping(_cython=False)', s, str(t), flt, scope))
            ck.case(('smarts', s, str(t), flt, None if scope is None else tuple(sorted(scope))), nontrivial=bool(got))
            ck.count(f'smarts:pcomps={min(len(q._compiled_query[0]), 3)}:{"hit" if got else "miss"}')
            if fixed:
                ck.count(f'smarts:element-list-query:{"hit" if got else "miss"}')


POLY_TARGETS = ['C1C23C(C12)C3', 'C12C3C4C1C5C2C3C45', 'C1CC2CC12', 'C12CC1C2', 'C1CC2CCC1C2', 'C1C2CC3CC1CC(C2)C3', 'C12C3C1C23', 'c1ccc2ccccc2c1',
                'C1CC2(C1)CCC2', 'C12C3C4C1C5C4C3C25', 'C1CC2CC1C2', 'C1C2C3CC1C23', 'C1CC23CC2CC13', 'O1C2CC1C2', 'C1CC2C1CC2', 'C1CC2CC3CC1C23',
                'N1C2CC1C2', 'C1C2C1C1CC21', 'C1CC2C3CCC(C3)C2C1', 'O=C1C2CC1C2']
RING_QUERIES = ['C1CCC1', 'C1CC1', 'C1CCCC1', 'C1CCCCC1', '[#6]1[#6][#6][#6]1', '[A]1[A][A]1', '[A]1[A][A][A]1', 'C1CC2CC12', 'C1CC2CCC1C2',
                '[#6]1~[#6]~[#6]~[#6]~1', 'C1C2CC12', 'C1CCC2CC2C1', 'C1CC2CC2C1', '[A]1[A][A][A][A]1', 'C1C[A]C1', '[C;D3]1[A][A]1', 'C1CC1C', 'C1CCC1C']


def accelerated_module(ck):
    """the transpiled accelerated matcher installed as chython.algorithms._isomorphism (harness/iso_pyx.py): the DEFAULT path of
    QueryContainer.get_mapping; None (and the tie reported broken) when the .pyx has a shape the transpiler does not know"""
    try:
        import iso_pyx
        return iso_pyx.inject()
    except Exception as e:  # noqa
        ck.unchecked('accelerated matcher _isomorphism.pyx could not be transpiled (harness/iso_pyx.py)', f'tie-broken: {type(e).__name__}: {e}')
        return None


def tab_model_expr(q, t, flt, scope, got):
    """the model call for a query pattern: atoms / bonds named by integers, matched through truth tables from the independent evaluators"""
    tb_id = {}
    for n, ms in t._bonds.items():
        for m in ms:
            tb_id.setdefault(frozenset((n, m)), len(tb_id) + 1)
    qb_id = {}
    for n, ms in q._bonds.items():
        for m in ms:
            qb_id.setdefault(frozenset((n, m)), len(qb_id) + 1)
    atab = [(qn, tn) for qn, qa in q._atoms.items() for tn, ta in t._atoms.items() if own_or_lib_atom(qa, t, tn)]
    btab = [(qb_id[qk], tb_id[tk]) for qk in qb_id for tk in tb_id if own_or_lib_bond(q._bonds[min(qk)][max(qk)], t, min(tk), max(tk))]
    tc = [sorted(c) for c in t.connected_components]
    qat = lst([tup(zraw(n), zraw(n)) for n in q._atoms])
    qbt = lst([tup(zraw(n), lst([tup(zraw(m), zraw(qb_id[frozenset((n, m))])) for m in ms])) for n, ms in q._bonds.items()])
    tat = lst([tup(zraw(n), zraw(n)) for n in t._atoms])
    tbt = lst([tup(zraw(n), lst([tup(zraw(m), zraw(tb_id[frozenset((n, m))])) for m in ms])) for n, ms in t._bonds.items()])
    pr = lambda tab: lst([tup(zraw(x), zraw(y)) for x, y in tab])
    return (f'pyres_eqb maps_eqb (tab_get_mapping {pr(atab)} {pr(btab)} {qat} {qbt} {tat} {tbt} {zll(tc)} {b(flt)} {scope_term(scope)}) '
            f'(Ok {maps_term(got)})')


def corr_accelerated(ck, cs):
    """the DEFAULT path of QueryContainer.get_mapping (the accelerated bit-mask matcher of _isomorphism.pyx, run through the transpiler) on
    ring-closing queries and polycyclic / bridged targets: the sequence of mappings against the same Coq model"""
    from chython import smiles, smarts
    if accelerated_module(ck) is None:
        return
    rng = random.Random(f'{ck.seed}:accel')
    qs = [(x, smarts(x)) for x in RING_QUERIES]
    for ttxt in POLY_TARGETS:
        t = smiles(ttxt)
        for s_, q in (rng.sample(qs, 6) if ck.tier == 'quick' else qs):
            flt = rng.random() < .5
            scope = None if rng.random() < .8 else [x for x in t._atoms if rng.random() < .8]
            got, err = drain_partial(itertools.islice(q.get_mapping(t, automorphism_filter=flt, searching_scope=scope), 121))
            if err is not None or len(got) > 120:
                ck.count('accelerated:skipped')
                continue
            cs.add(tab_model_expr(q, t, flt, scope, got), ('QueryContainer.get_mapping (accelerated path)', s_, ttxt, flt, scope))
            ck.case(('accel', s_, ttxt, flt, None if scope is None else tuple(scope)), nontrivial=bool(got))
            ck.count(f'accelerated:corr:{"hit" if got else "miss"}')
    for ttxt in CHELATE_TARGETS:                           # cycles through special bonds: every query, no sampling
        t = smiles(ttxt)
        for s_ in CHELATE_QUERIES:
            q = smarts(s_)
            flt = rng.random() < .3
            got, err = drain_partial(itertools.islice(q.get_mapping(t, automorphism_filter=flt), 121))
            if err is not None or len(got) > 120:
                ck.count('accelerated:skipped')
                continue
            cs.add(tab_model_expr(q, t, flt, None, got), ('QueryContainer.get_mapping (accelerated path)', s_, ttxt, flt, None))
            ck.case(('accel', s_, ttxt, flt, None), nontrivial=bool(got))
            ck.count(f'accelerated:corr:special-bond-cycle:{"hit" if got else "miss"}')


def corr_automorphism(ck, cs):
    from chython import smiles
    from chython.algorithms.isomorphism import _get_automorphism_mapping
    rng = random.Random(f'{ck.seed}:auto')
    seeds = ['CC', 'CCC', 'C1CC1', 'c1ccccc1', 'CC(C)C', 'C.C', 'CC.CC', 'CC.OO', 'CC.O', 'C1CC1.C1CC1', 'OCCO', 'FC(F)F', 'CC(C)(C)C', 'C',
             'CCO', 'c1ccc(C)cc1', 'O=C=O', 'C1CCC1', 'ClC(Cl)C(Cl)Cl', 'CC.CC.O', 'C1CC1.CC', 'N#N', 'OO.C', 'C[N+](C)(C)C', 'CCCC']
    mols = [smiles(x) for x in seeds] + mol_pool(ck, 30 if ck.tier == 'quick' else 300, 26, 'c07-auto')
    for m in mols:
        atoms = dict(m._chiral_morgan)
        got = small_enough(m.get_automorphism_mapping(), 150)
        if got is None:
            ck.count('automorphism:skipped-too-many-mappings')
            continue
        bonds = {n: {k: int(bd) for k, bd in ms.items()} for n, ms in m._bonds.items()}
        # _chiral_morgan may hold the atoms in another order than _atoms: the model is given exactly that dict
        cs.add(f'pyres_eqb maps_eqb (get_automorphism_mapping Z.eqb {zpairs(atoms)} {zadj(bonds)}) (Ok {maps_term(got)})',
               ('get_automorphism_mapping', str(m)))
        ck.case(('auto', str(m), tuple(m._atoms)), nontrivial=bool(got))
        ck.count(f'automorphism:molecule:comps={min(m.connected_components_count, 3)}:{"some" if got else "none"}')
    # the function itself on integer-labelled graphs (classes given directly)
    for _ in range(100 if ck.tier == 'quick' else 1500):
        atoms, bonds = random_graph(rng, 6, labels=(1, 2), orders=(1, 2))
        got, err = drain(_get_automorphism_mapping(atoms, bonds))
        cs.add(f'pyres_eqb maps_eqb (get_automorphism_mapping Z.eqb {zpairs(atoms)} {zadj(bonds)}) {res_maps(got, err)}',
               ('_get_automorphism_mapping', atoms, bonds))
        ck.case(('auto-int', repr(atoms), repr(bonds)), nontrivial=bool(got))
        ck.count(f'automorphism:int-graph:{"err" if err else "some" if got else "none"}')


# --------------------------------------------------------------------------------------------------
# the stereo post-filter of QueryIsomorphism.get_mapping (coq/model/IsoStereo.v)

STEREO_SMARTS = ['[C@](F)(Cl)(Br)I', '[C@@](F)(Cl)(Br)I', '[C@;h1](F)(Cl)Br', '[C@@;h1](F)(Cl)Br', '[C@](F)(Cl)Br', 'F[C@](Cl)Br', '[C@](F)Cl',
                 '[C@]([#6])([#6])(F)Cl', '[C@@]([#6])([#6])(F)Cl', '[C@]([#6])([#6])[#8]', '[C@@;h1]([#6])([#6])[#8]', '[#6][C@;h1]([#8])[#6]',
                 '[C@]1(F)(Cl)CC1', '[C@](F)(Cl)(Br)[H]', '[#6][C@@]([#6])([#7])[#6]', '[C@]([#6])([#8])([#6])[#6]',
                 'F/C=C/F', 'F/C=C\\F', 'F/C=C/[#6]', '[#6]/C=C/[#6]', '[#6]/C=C\\[#6]', '[#6]/C=C/C=C/[#6]', '[#8]/C=C/[#6]', 'C/C=C(/F)Cl',
                 '[#6]C=[C@]=CC', '[#6]C=[C@@]=C[#6]', '[#6]C([#6])=[C@]=C[#6]', 'C[C@;h1](O)/C=C/C', '[C@;h1](F)(Cl)/C=C/[#6]', '[C@;h1](F)(Cl)[C@;h1](F)Br']
STEREO_TARGETS = ['F[C@](Cl)(Br)I', 'F[C@@](Cl)(Br)I', 'FC(Cl)(Br)I', 'F[C@H](Cl)Br', 'F[C@@H](Cl)Br', 'F[C@]([H])(Cl)Br', 'C[C@](CC)(F)Cl', 'C[C@@](CC)(F)Cl',
                  'C[C@H](O)CC', 'C[C@@H](O)CC', 'CC(O)CC', 'F[C@]1(Cl)CC1C', 'F[C@]1(Cl)C[C@H]1C', 'C[C@](N)(CC)CCC', 'C[C@@](O)(CC)C(C)C',
                  'F/C=C/F', 'F/C=C\\F', 'FC=CF', 'F/C=C/C', 'C/C=C/C', 'C/C=C\\C', 'C/C=C/C=C/C', 'C/C=C/C=C\\C', 'C/C=C(/F)Cl', 'C/C=C(\\F)Cl', 'O/C=C/C',
                  'CC=[C@]=CC', 'CC=[C@@]=CC', 'CC=C=CC', 'CC(C)=[C@]=CC', 'F/C=C=C=C/F', 'C[C@H](O)/C=C/C', 'C[C@@H](O)/C=C\\C', 'F[C@H](Cl)/C=C/C',
                  'F[C@H](Cl)[C@H](F)Br', 'F[C@H](Cl)[C@@H](F)Br', 'F[C@@H](Cl)[C@@H](F)Br', 'C[C@H]1CC[C@@H](C)CC1', 'N[C@@H](C)C(=O)O', 'C[C@H](N)C(O)=O']


def env4_term(e):
    return tup(zraw(e[0]), zraw(e[1]), opt(e[2], zraw), opt(e[3], zraw))


def starget_term(t):
    ct = {}
    for (n, m), e in t.stereogenic_cis_trans.items():
        ct.setdefault(n, {})[m] = e
    return ('(mkSTarget ' + ' '.join([
        lst([tup(zraw(n), opt(a.stereo, b)) for n, a in t._atoms.items()]),
        lst([tup(zraw(n), lst([tup(zraw(m), opt(bd.stereo, b)) for m, bd in ms.items()])) for n, ms in t._bonds.items()]),
        lst([n for n, a in t._atoms.items() if a.atomic_number == 1], zraw),
        lst([tup(zraw(n), lst(list(o), zraw)) for n, o in t.stereogenic_tetrahedrons.items()]),
        lst([tup(zraw(n), tup(zraw(x), zraw(y))) for n, (x, y) in t._stereo_allenes_terminals.items()]),
        lst([tup(zraw(n), env4_term(e)) for n, e in t.stereogenic_allenes.items()]),
        lst([tup(zraw(n), tup(zraw(x), zraw(y))) for n, (x, y) in t._stereo_cis_trans_terminals.items()]),
        lst([tup(zraw(n), lst([tup(zraw(m), env4_term(e)) for m, e in ms.items()])) for n, ms in ct.items()]),
        lst([tup(zraw(n), tup(zraw(x), zraw(y))) for n, (x, y) in t._stereo_cis_trans_centers.items()])]) + ')')


def squery_term(q):
    from chython.periodictable import ExtendedQuery
    return ('(mkSQuery ' + ' '.join([
        lst([tup(zraw(n), opt(a.stereo if isinstance(a, ExtendedQuery) else None, b)) for n, a in q.atoms()]),
        lst([tup(zraw(n), lst(list(ms), zraw)) for n, ms in q._bonds.items()]),
        lst([tup(zraw(n), zraw(m), opt(bd.stereo, b)) for n, m, bd in q.bonds()])]) + ')')


def drain_partial(gen):
    """what a generator yields until it stops or raises: (items, exception name or None)"""
    out = []
    try:
        for x in gen:
            out.append(x)
    except Exception as e:  # noqa
        return out, exn_name(e)
    return out, None


def stereo_pairs(ck):
    from chython import smiles, smarts
    rng = random.Random(f'{ck.seed}:stereo')
    qs = []
    for s_ in STEREO_SMARTS:
        try:
            qs.append((s_, smarts(s_)))
        except Exception:  # noqa
            ck.count('stereo:smarts-rejected')
    ts = []
    for x in STEREO_TARGETS:
        try:
            ts.append((x, smiles(x)))
        except Exception:  # noqa
            ck.count('stereo:target-rejected')
    # corpus molecules that carry stereo labels
    extra = 15 if ck.tier == 'quick' else 150
    for smi in corpus.sample(corpus.stereo_smiles(), 4 * extra, ck.seed, 'c07-stereo'):
        if extra <= 0:
            break
        try:
            m = smiles(smi)
        except Exception:  # noqa
            continue
        if m is not None and len(m) <= 28 and has_stereo(m):
            ts.append((smi, m))
            extra -= 1
    return qs, ts, rng


def mirror_smiles(smi):
    """the enantiomer's text: every @ <-> @@"""
    return smi.replace('@@', '\0').replace('@', '@@').replace('\0', '@')


def fragment_queries(rng, t, n=2):
    """query patterns cut around stereo centres / stereo bonds of a molecule: the fragment's SMILES re-read as SMARTS
    ([C@H] spelled [C@;h1]); only fragments whose bracket atoms are plain C stereo centres"""
    import re
    from chython import smarts
    out = []
    centres = [k for k, a in t._atoms.items() if a.stereo is not None] + [k for k, m, bd in t.bonds() if bd.stereo is not None]
    rng.shuffle(centres)
    for c in centres[:4]:
        atoms = {c} | set(t._bonds[c])
        for x in list(atoms):
            if rng.random() < .5:
                atoms |= set(t._bonds[x])
        try:
            sub = t.substructure(atoms, recalculate_hydrogens=False)
            txt_ = str(sub)
        except Exception:  # noqa
            continue
        if not has_stereo(sub) or '.' in txt_:
            continue
        brackets = re.findall(r'\[[^\]]*\]', txt_)
        if any(not re.fullmatch(r'\[C@@?H?\]', x) for x in brackets):
            continue
        sma = re.sub(r'\[C(@@?)H\]', r'[C\1;h1]', txt_)
        try:
            q = smarts(sma)
        except Exception:  # noqa
            continue
        out.append((sma, q))
        if len(out) >= n:
            break
    return out


def corr_stereo(ck, cs):
    """QueryIsomorphism.get_mapping(_cython=False) == model's stereo filter applied to what Isomorphism._get_mapping yields
    (same filter value and scope), exceptions included"""
    qs, ts, rng = stereo_pairs(ck)
    from chython import smiles
    work = []
    for ttxt, t in ts:
        picks = list(qs) if len(t) <= 9 else rng.sample(qs, 8)
        if len(t) > 9:
            fq = fragment_queries(rng, t)
            picks += fq
            try:
                mt = smiles(mirror_smiles(ttxt))
                work.append((mirror_smiles(ttxt), mt, fq))
            except Exception:  # noqa
                pass
        work.append((ttxt, t, picks))
    for ttxt, t, picks in work:
        T = starget_term(t)
        for s_, q in picks:
            flt = rng.random() < .5
            scope = None if rng.random() < .8 else [x for x in t._atoms if rng.random() < .7]
            un, err0 = drain_partial(q._get_mapping(t, automorphism_filter=flt, searching_scope=scope))
            if err0 is not None or len(un) > 150:
                ck.count('stereo:skipped')
                continue
            if not un and rng.random() < .93:              # nothing for the filter to do: keep a few such cases only
                continue
            got, err = drain_partial(q.get_mapping(t, automorphism_filter=flt, searching_scope=scope, _cython=False))
            cs.add(f'sres_eqb (qstereo_filter {T} {squery_term(q)} {maps_term(un)}) ({maps_term(got)}, {opt(err, str)})',
                   ('QueryIsomorphism.get_mapping stereo filter', s_, ttxt, flt, scope))
            ck.case(('stereo', s_, ttxt, flt, None if scope is None else tuple(scope)), nontrivial=bool(un))
            ck.count(f'stereo:unfiltered={min(len(un), 3)}:kept={min(len(got), 3)}:{"err:" + err if err else "ok"}')


MS_PATTERNS = ['F[C@H](Cl)Br', 'F[C@@H](Cl)Br', 'C[C@H](O)CC', 'C[C@H](O)C', 'C/C=C/C', 'C/C=C\\C', 'CC', 'CO', 'C[C@H](N)C(O)=O', 'F/C=C/F', 'CC=[C@]=CC',
               'C[C@@H](O)/C=C/C', 'F[C@H](Cl)[C@H](F)Br', 'C.C', 'F[C@H](Cl)Br.C', 'C[C@H]1CC[C@@H](C)CC1', 'OC(C)C', 'FC(Cl)Br']


def corr_match_stereo(ck, cs):
    """MoleculeIsomorphism.get_mapping(match_stereo=True): the sequence of mappings against the control-flow model; get_fast_mapping's
    answer and the substructure's classes / bonds are observed per found embedding"""
    from chython import smiles
    rng = random.Random(f'{ck.seed}:match-stereo')
    pats = [(x, smiles(x)) for x in MS_PATTERNS]
    tgts = [(x, smiles(x)) for x in STEREO_TARGETS if '[H]' not in x] + [(x, smiles(x)) for x in ('C.C', 'F[C@H](Cl)Br.C', 'C[C@](F)(Cl)Br')]
    for ttxt, t in tgts:
        for ptxt, p in pats:
            if len(p) > len(t):
                continue
            for flt in (True, False):
                un, e0 = drain_partial(p._get_mapping(t, automorphism_filter=True, searching_scope=None))
                if e0 is not None or len(un) > 40:
                    continue
                if not un and rng.random() < .9:
                    continue
                obs = []
                keyed = []
                bad = False
                for mp in un:
                    try:
                        sub = t.substructure(mp.values())
                        fm = p.get_fast_mapping(sub)
                        cl = dict(sub._chiral_morgan)
                        bd = {n: {k: int(x) for k, x in ms.items()} for n, ms in sub._bonds.items()}
                    except Exception:  # noqa
                        bad = True
                        break
                    obs.append(tup(opt(fm, lambda f: lst([tup(zraw(k), zraw(v)) for k, v in f.items()])), zpairs(cl), zadj(bd)))
                    keyed.append(tup(lst([tup(zraw(k), zraw(v)) for k, v in mp.items()]), obs[-1]))
                if bad:
                    ck.count('match_stereo:skipped')
                    continue
                got, err = drain(p.get_mapping(t, automorphism_filter=flt, match_stereo=True))
                cs.add(f'pyres_eqb maps_eqb (match_stereo_stream Z.eqb {b(flt)} {lst(obs)}) {res_maps(got, err)}',
                       ('MoleculeIsomorphism.get_mapping(match_stereo=True)', ptxt, ttxt, flt))
                # the whole call through the model's own search (compile, components, image-set filter), the oracle looked up per embedding;
                # and the hypothesis of C07_match_stereo_filtered_distinct on this oracle
                tc = [sorted(c) for c in t.connected_components]
                cs.add(f'pyres_eqb maps_eqb (mm_get_mapping_match_stereo {coqmol.mol_term(p)} {coqmol.mol_term(t)} {zll(tc)} {b(flt)} None {lst(keyed)}) '
                       f'{res_maps(got, err)} && oracle_keeps_imageb (B := Z) {lst(keyed)}',
                       ('MoleculeIsomorphism.get_mapping(match_stereo=True) whole call', ptxt, ttxt, flt))
                ck.case(('match-stereo', ptxt, ttxt, flt), nontrivial=bool(got))
                ck.count(f'match_stereo:filter={int(flt)}:found={min(len(un), 3)}:yielded={min(len(got or []), 4)}')


def correspondence(ck):
    cs = Cases()
    corr_lazy_product(ck, cs)
    corr_compile(ck, cs)
    corr_matcher(ck, cs)
    corr_molecules(ck, cs)
    corr_smarts(ck, cs)
    corr_automorphism(ck, cs)
    corr_stereo(ck, cs)
    corr_match_stereo(ck, cs)
    corr_accelerated(ck, cs)
    ok, failing, log = coqcases.run_cases('c07', 'Iso Graph IsoStereo IsoStack', cs.exprs, shard=250, extra='From Proofs Require Import IsoProofs IsoExt IsoMatchStereo IsoCC.')
    good = ok and not failing
    ck.oblige('correspondence: lazy_product, _compile_query, _get_mapping, Isomorphism._get_mapping (sequence of mappings, order included), '
              'operators, _get_automorphism_mapping == Coq model', good, 'correspondence', log or str([cs.meta[i] for i in failing[:5]]))
    ck.extra['correspondence_cases'] = len(cs.exprs)
    for i in (0, len(cs.exprs) // 3, len(cs.exprs) // 2, len(cs.exprs) - 40):
        ck.sample({'model_call': cs.exprs[i][:1500], 'meta': repr(cs.meta[i])[:600]})
    if not good:
        ck.unchecked('correspondence Iso model vs chython/algorithms/isomorphism.py + chython/_functions.py', log[-1500:],
                     [repr(cs.meta[i])[:800] for i in failing[:20]])
    return good, [cs.meta[i] for i in failing]


# --------------------------------------------------------------------------------------------------
# search: brute-force reference enumerator on the real code

def own_components(bonds):
    comp = {}
    for s in bonds:
        if s in comp:
            continue
        comp[s] = s
        todo = [s]
        while todo:
            x = todo.pop()
            for y in bonds[x]:
                if y not in comp:
                    comp[y] = s
                    todo.append(y)
    return comp


# ---- evaluation of atom / bond primitives WITHOUT the library's __eq__, from attributes recomputed from the raw target graph ----

def _order(bd):
    return int(bd)


def own_bond_in_ring(t, n, m):
    """the bond n-m lies on a cycle: m is reachable from n without this bond (special, order 8, bonds are ignored as by ring perception)"""
    if _order(t._bonds[n][m]) == 8:
        return False
    seen = {n}
    todo = [n]
    while todo:
        x = todo.pop()
        for y, bd in t._bonds[x].items():
            if _order(bd) == 8 or (x == n and y == m) or (x == m and y == n) or y in seen:
                continue
            if y == m:
                return True
            seen.add(y)
            todo.append(y)
    return False


def own_cycle_sizes(t, n, limit=14):
    """sizes of all simple cycles through atom n (special bonds ignored); None when the target is too large to enumerate"""
    if len(t._atoms) > limit:
        return None
    sizes = set()
    path = [n]

    def rec(x):
        for y, bd in t._bonds[x].items():
            if _order(bd) == 8:
                continue
            if y == n and len(path) > 2:
                sizes.add(len(path))
            elif y not in path:
                path.append(y)
                rec(y)
                path.pop()
    rec(n)
    return sizes


def own_atom_attrs(t, n):
    """neighbors, heteroatoms, hybridization as documented, recomputed from the adjacency (not read from the cached labels)"""
    nb = het = 0
    orders = []
    for m, bd in t._bonds[n].items():
        o = _order(bd)
        if o == 8:
            continue
        nb += 1
        orders.append(o)
        if t._atoms[m].atomic_number not in (1, 6):
            het += 1
    if 4 in orders:
        hyb = 4
    elif 3 in orders or orders.count(2) >= 2:
        hyb = 3
    elif 2 in orders:
        hyb = 2
    else:
        hyb = 1
    return nb, het, hyb


# own periodic table (symbol -> atomic number = position + 1); typed in, NOT read from the library, so that the element of a query atom /
# the members of an element list are decided from the symbols the query was written with
OWN_SYMBOLS = ('H He Li Be B C N O F Ne Na Mg Al Si P S Cl Ar K Ca Sc Ti V Cr Mn Fe Co Ni Cu Zn Ga Ge As Se Br Kr Rb Sr Y Zr Nb Mo Tc Ru Rh Pd '
               'Ag Cd In Sn Sb Te I Xe Cs Ba La Ce Pr Nd Pm Sm Eu Gd Tb Dy Ho Er Tm Yb Lu Hf Ta W Re Os Ir Pt Au Hg Tl Pb Bi Po At Rn Fr Ra '
               'Ac Th Pa U Np Pu Am Cm Bk Cf Es Fm Md No Lr Rf Db Sg Bh Hs Mt Ds Rg Cn Nh Fl Mc Lv Ts Og').split()
OWN_NUMBER = {x: i + 1 for i, x in enumerate(OWN_SYMBOLS)}


def own_list_numbers(qa):
    """atomic numbers an element-list query atom stands for: the symbols it was built from (qa._elements, the constructor's stored input)
    through the own table; never the library's derived atomic_numbers / atomic_symbol"""
    return {OWN_NUMBER[x] for x in qa._elements}


def own_atom_match(qa, t, n):
    """does the pattern atom match target atom n?  True / False, or None when this evaluator does not decide (then the library's
    own comparison is used for this one pair).  Never calls __eq__ of the library."""
    from chython.periodictable import Element, QueryElement, AnyElement, ListElement, AnyMetal
    if isinstance(qa, int):
        return None                                        # integer-labelled graphs: plain equality, nothing to re-evaluate
    ta = t._atoms[n]
    if isinstance(qa, Element):                            # molecule pattern: element, isotope, charge, radical
        return (qa.atomic_number == ta.atomic_number and (qa.isotope or None) == (ta.isotope or None) and qa.charge == ta.charge
                and bool(qa.is_radical) == bool(ta.is_radical))
    if isinstance(qa, AnyMetal) or not isinstance(qa, (QueryElement, AnyElement, ListElement)):
        return None
    if isinstance(qa, QueryElement):
        if qa.atomic_number != ta.atomic_number:
            return False
        if qa.isotope and qa.isotope != ta.isotope:
            return False
    elif isinstance(qa, ListElement):
        if ta.atomic_number not in own_list_numbers(qa):
            return False
    if qa.charge != ta.charge or bool(qa.is_radical) != bool(ta.is_radical):
        return False
    nb, het, hyb = own_atom_attrs(t, n)
    if qa.neighbors and nb not in qa.neighbors:
        return False
    if qa.hybridization and hyb not in qa.hybridization:
        return False
    if qa.heteroatoms and het not in qa.heteroatoms:
        return False
    if qa.implicit_hydrogens and ta.implicit_hydrogens not in qa.implicit_hydrogens:   # stored hydrogen count (C04's business)
        return False
    undecided = False
    if qa.ring_sizes:
        on_cycle = any(own_bond_in_ring(t, n, m) for m in t._bonds[n])
        if not qa.ring_sizes[0]:                           # (0,): not in a ring
            if on_cycle:
                return False
        elif not on_cycle:
            return False
        else:
            # ring sizes come from the SSSR (C06).  Independent bounds: a ring of that size through the atom must exist at all;
            # and every minimum cycle basis contains a smallest cycle through the atom.  In between: not decided here.
            sizes = own_cycle_sizes(t, n)
            if sizes is None:
                undecided = True
            elif not sizes & set(qa.ring_sizes):
                return False
            elif min(sizes) not in qa.ring_sizes:
                undecided = True
    return None if undecided else True


def own_bond_match(qb, t, n, m):
    """does the pattern bond match the target bond n-m?  order from the bond's int, ring membership from own_bond_in_ring"""
    from chython.containers.bonds import Bond, QueryBond
    if isinstance(qb, int):
        return None
    o = _order(t._bonds[n][m])
    if isinstance(qb, QueryBond):
        if qb.in_ring is not None and bool(qb.in_ring) != own_bond_in_ring(t, n, m):
            return False
        return o in qb.order
    if isinstance(qb, Bond):
        return _order(qb) == o
    return None


def check_primitives(ck, p, t, ptxt, ttxt, mk):
    """every (pattern atom, target atom) and (pattern bond, target bond) pair: the library's == against the independent evaluation"""
    good = True
    for x, qa in p._atoms.items():
        for y, ta in t._atoms.items():
            mine = own_atom_match(qa, t, y)
            if mine is None:
                continue
            lib = bool(qa == ta)
            ck.count('search:primitive:atom')
            if lib != mine:
                good = False
                ck.counterexample(f'atom-match:{ptxt}:{x}>{ttxt}:{y}', 'pattern atom == target atom disagrees with the documented primitives evaluated '
                                  'on independently recomputed attributes (neighbours, heteroatoms, hybridisation, ring membership)',
                                  {'pattern': ptxt, 'pattern_atom': x, 'target': ttxt, 'target_atom': y}, lib, mine,
                                  'own evaluation of the query-atom primitives', replay_py=mk + f'print(p._atoms[{x}] == t._atoms[{y}])')
    seen = set()
    for x, ms in p._bonds.items():
        for x2, qb in ms.items():
            if (x2, x) in seen:
                continue
            seen.add((x, x2))
            for y, ns in t._bonds.items():
                for y2, ob in ns.items():
                    if y > y2:
                        continue
                    mine = own_bond_match(qb, t, y, y2)
                    if mine is None:
                        continue
                    lib = bool(qb == ob)
                    ck.count('search:primitive:bond')
                    if lib != mine:
                        good = False
                        ck.counterexample(f'bond-match:{ptxt}:{x}-{x2}>{ttxt}:{y}-{y2}', 'pattern bond == target bond disagrees with order / ring-membership '
                                          'evaluated independently (order from int(bond), ring membership from a cycle test on the target graph)',
                                          {'pattern': ptxt, 'pattern_bond': [x, x2], 'target': ttxt, 'target_bond': [y, y2]}, lib, mine,
                                          'own evaluation of the query-bond primitives',
                                          replay_py=mk + f'print(p._bonds[{x}][{x2}] == t._bonds[{y}][{y2}], t._bonds[{y}][{y2}].in_ring)')
    return good


def own_or_lib_atom(qa, t, n):
    r = own_atom_match(qa, t, n)
    return bool(qa == t._atoms[n]) if r is None else r


def own_or_lib_bond(qb, t, n, m):
    r = own_bond_match(qb, t, n, m)
    return bool(qb == t._bonds[n][m]) if r is None else r


PRIM_KINDS = ['A', 'C', 'N', 'O', 'C,N', 'O,S', 'C,N,O', 'F,Cl,Br', 'Cl,Br', 'Si,P']
PRIM_ATOM = ['h0', 'h1', 'h2', 'h3', 'h1,h2', 'h0,h3', 'D1', 'D2', 'D3', 'D4', 'D1,D2', 'x0', 'x1', 'x2', 'x1,x2', 'z1', 'z2', 'z3', 'z4', 'z1,z2',
             'r3', 'r5', 'r6', 'r5,r6', '!R', '+', '-', 'D2;h0', 'D1;h3', 'h0;x1', 'z2;h0', 'D3;!R']
PRIM_BOND = ['-', '=', '#', ':', '~', '-,=', '=,#', '-;@', '-;!@', '=;@', '=;!@', ':;@', '-,=;!@', '~;@', '~;!@']
PRIM_TARGETS = ['CC(C)(C)C', 'COC(=O)NC', 'CC(=O)O', 'c1ccccc1O', 'C1CC1C(=O)N', 'OCC(O)CO', 'C#CC=C', 'CC(=O)[O-].[NH4+]', 'C[N+](C)(C)C', 'c1ccncc1C', 'C1CCCCC1C',
                'CS(C)=O', 'FC(F)(F)CCl', 'C1CC2CC12', 'O=C=O', 'CC(C)=C(C)C', 'c1ccc2ccccc2c1', 'C1=CCCC1C=C', 'OC1CCOC1', 'N#CC1CCC1', 'C[O-].[Na+]', 'CN(C)C', 'COC',
                'OB(O)CCBr', 'C[Si](C)(C)CSC', 'ClCC(Br)CS']


def search_primitive_grid(ck):
    """every primitive of every kind of query atom (any-element A, element, element list) against every atom of a fixed set of targets, and
    every bond primitive against every bond: the library's == versus the independent evaluation (pure-Python comparison, no matcher)"""
    from chython import smiles, smarts
    qatoms = []
    for k in PRIM_KINDS:
        for pr in PRIM_ATOM:
            txt_ = f'[{k};{pr}]'
            try:
                qatoms.append((txt_, smarts(txt_)))
            except Exception:  # noqa
                ck.count('search:primitive-grid:smarts-rejected')
    qbonds = []
    for pr in PRIM_BOND:
        txt_ = f'[A]{pr}[A]'
        try:
            qbonds.append((txt_, smarts(txt_)))
        except Exception:  # noqa
            ck.count('search:primitive-grid:smarts-rejected')
    natom = nbond = 0
    for ttxt in PRIM_TARGETS:
        t = smiles(ttxt)
        for qtxt, q in qatoms:
            qa = q._atoms[1]
            for y, ta in t._atoms.items():
                mine = own_atom_match(qa, t, y)
                if mine is None:
                    continue
                natom += 1
                lib = bool(qa == ta)
                if lib != mine:
                    ck.counterexample(f'atom-match:{qtxt}:1>{ttxt}:{y}', 'query atom == target atom disagrees with the documented primitives evaluated on '
                                      'independently recomputed attributes', {'pattern': qtxt, 'target': ttxt, 'target_atom': y,
                                                                              'implicit_hydrogens': ta.implicit_hydrogens}, lib, mine,
                                      'own evaluation of the query-atom primitives',
                                      replay_py=f'from chython import smiles, smarts; q = smarts({qtxt!r}); t = smiles({ttxt!r}); '
                                                f'print(q._atoms[1] == t._atoms[{y}], list(q.get_mapping(t, _cython=False)))')
        for qtxt, q in qbonds:
            qb = q._bonds[1][2]
            for y, ns in t._bonds.items():
                for y2, ob in ns.items():
                    if y > y2:
                        continue
                    mine = own_bond_match(qb, t, y, y2)
                    if mine is None:
                        continue
                    nbond += 1
                    lib = bool(qb == ob)
                    if lib != mine:
                        ck.counterexample(f'bond-match:{qtxt}:1-2>{ttxt}:{y}-{y2}', 'query bond == target bond disagrees with order / ring membership evaluated '
                                          'independently', {'pattern': qtxt, 'target': ttxt, 'target_bond': [y, y2]}, lib, mine,
                                          'own evaluation of the query-bond primitives',
                                          replay_py=f'from chython import smiles, smarts; q = smarts({qtxt!r}); t = smiles({ttxt!r}); '
                                                    f'print(q._bonds[1][2] == t._bonds[{y}][{y2}])')
    ck.extra['primitive_grid'] = {'atom_pairs': natom, 'bond_pairs': nbond, 'query_atoms': len(qatoms), 'query_bonds': len(qbonds)}
    ck.case(('search-primitive-grid',), nontrivial=True)


def brute(p, t, scope=None):
    """every map the property statement allows, by exhaustive backtracking over injective assignments (independent of the
    matcher: no linear order, no closures, no component splitting).  Atom and bond match are decided by own_atom_match /
    own_bond_match (no __eq__ of the library) wherever those evaluators decide."""
    pa = list(p._atoms)
    ta = [n for n in t._atoms if scope is None or n in scope]
    pc = own_components(p._bonds)
    tcmp = own_components(t._bonds)
    out = []
    f = {}

    acache = {}

    def amatch(x, y):
        if (x, y) not in acache:
            r = own_atom_match(p._atoms[x], t, y)
            acache[(x, y)] = bool(p._atoms[x] == t._atoms[y]) if r is None else r
        return acache[(x, y)]

    def bmatch(qb, ob, y, y2):
        r = own_bond_match(qb, t, y, y2)
        return bool(qb == ob) if r is None else r

    def ok(x, y):
        if not amatch(x, y):
            return False
        for x2, y2 in f.items():
            qb = p._bonds[x].get(x2)
            ob = t._bonds[y].get(y2)
            if pc[x] == pc[x2]:
                if tcmp[y] != tcmp[y2]:   # one pattern component lies in one target component (follows from connectivity)
                    return False
                if (qb is None) != (ob is None):
                    return False
                if qb is not None and not bmatch(qb, ob, y, y2):
                    return False
            elif tcmp[y] == tcmp[y2]:
                return False
        return True

    def rec(i):
        if i == len(pa):
            out.append(dict(f))
            return
        x = pa[i]
        for y in ta:
            if y in f.values():
                continue
            if ok(x, y):
                f[x] = y
                rec(i + 1)
                del f[x]
    rec(0)
    return out


def brute_isomorphic(p, t):
    """same structure: a bijection preserving atoms and bonds in both directions"""
    if len(p) != len(t):
        return False
    pa = list(p._atoms)
    ta = list(t._atoms)
    f = {}

    def rec(i):
        if i == len(pa):
            return True
        x = pa[i]
        for y in ta:
            am = own_atom_match(p._atoms[x], t, y)
            if y in f.values() or not (bool(p._atoms[x] == t._atoms[y]) if am is None else am):
                continue
            good = True
            for x2, y2 in f.items():
                qb = p._bonds[x].get(x2)
                ob = t._bonds[y].get(y2)
                if (qb is None) != (ob is None):
                    good = False
                    break
                if qb is not None:
                    bm = own_bond_match(qb, t, y, y2)
                    if not (bool(qb == ob) if bm is None else bm):
                        good = False
                        break
            if good:
                f[x] = y
                if rec(i + 1):
                    return True
                del f[x]
        return False
    return rec(0)


def key_of(m):
    return tuple(sorted(m.items()))


def mol_mk(ptxt, ttxt, query=False):
    """replay prelude building p and t from their text"""
    return ("from chython import smiles, smarts; from chython.containers import MoleculeContainer; "
            f"p={('smarts(%r)' if query else 'smiles(%r)') % ptxt if ptxt else 'MoleculeContainer()'}; "
            f"t={'smiles(%r)' % ttxt if ttxt else 'MoleculeContainer()'}; ")


def int_mk(patt, targ):
    return (f"from checks.C07 import int_graph_class; G=int_graph_class(); p=G({patt[0]!r}, {patt[1]!r}); t=G({targ[0]!r}, {targ[1]!r}); ")


def search_pair(ck, p, t, rng, ptxt, ttxt, query=False, mk=None, scopes=None, kind=None):
    """the property on one (pattern, target) pair of the REAL code against the brute-force enumerator; returns True when it holds"""
    kw = {'_cython': False} if query else {}
    kws = ', _cython=False' if query else ''
    mk = mk or mol_mk(ptxt, ttxt, query)
    kind = kind or ('query' if query else 'molecule')
    good = check_primitives(ck, p, t, ptxt, ttxt, mk) if kind != 'int-graph' else True
    ref = brute(p, t)
    refset = {key_of(m) for m in ref}
    ck.case(('search', kind, ptxt, ttxt), nontrivial=bool(ref))
    ck.count(f'search:{kind}:embeddings={min(len(ref), 6)}' + ('+' if len(ref) >= 6 else ''))
    # (1) without the filter: exactly the embeddings, each once
    try:
        got = list(p.get_mapping(t, automorphism_filter=False, **kw))
    except Exception as e:  # noqa
        ck.counterexample('empty-pattern' if not len(p) else f'raises:{ptxt}>{ttxt}', f'get_mapping raises {type(e).__name__}',
                          {'pattern': ptxt, 'target': ttxt}, type(e).__name__, f'{len(ref)} mapping(s)', 'brute-force enumeration of injective maps',
                          replay_py=mk + f'print(list(p.get_mapping(t, automorphism_filter=False{kws})))')
        return False
    gotkeys = [key_of(m) for m in got]
    if set(gotkeys) != refset or len(gotkeys) != len(set(gotkeys)):
        good = False
        ck.counterexample(f'mappings:{ptxt}>{ttxt}', 'get_mapping(automorphism_filter=False) is not exactly the set of valid embeddings '
                          '(lost, spurious or repeated mapping)',
                          {'pattern': ptxt, 'target': ttxt}, sorted(gotkeys), sorted(refset), 'brute-force enumeration of injective maps',
                          replay_py=mk + f'print(list(p.get_mapping(t, automorphism_filter=False{kws})))')
    # (2) with the filter: one mapping per distinct set of image atoms, none lost
    got = list(p.get_mapping(t, automorphism_filter=True, **kw))
    images = [frozenset(m.values()) for m in got]
    if any(key_of(m) not in refset for m in got) or len(images) != len(set(images)) or set(images) != {frozenset(m.values()) for m in ref}:
        good = False
        ck.counterexample(f'filter:{ptxt}>{ttxt}', 'automorphism filter loses / duplicates an image set',
                          {'pattern': ptxt, 'target': ttxt}, sorted(map(sorted, images)), sorted({tuple(sorted(m.values())) for m in ref}),
                          'brute-force enumeration of injective maps',
                          replay_py=mk + f'print(list(p.get_mapping(t{kws})))')
    # (3) scope: exactly the embeddings inside it (with and without the filter)
    atoms = list(t._atoms)
    if scopes is None:
        scopes = ([x for x in atoms if rng.random() < .6], [x for x in atoms if rng.random() < .3] + [10 ** 6], [])
    for scope in scopes:
        if scope is None:
            continue
        refsc = brute(p, t, set(scope))
        refs = {key_of(m) for m in refsc}
        got = list(p.get_mapping(t, automorphism_filter=False, searching_scope=scope, **kw))
        gk = [key_of(m) for m in got]
        gotf = list(p.get_mapping(t, automorphism_filter=True, searching_scope=list(scope), **kw))
        imf = [frozenset(m.values()) for m in gotf]
        if set(gk) != refs or len(gk) != len(set(gk)) or any(key_of(m) not in refs for m in gotf) or len(imf) != len(set(imf)) \
                or set(imf) != {frozenset(m.values()) for m in refsc}:
            good = False
            ck.counterexample('scope-empty' if not scope and len(p) else f'scope:{ptxt}>{ttxt}:{scope}',
                              'searching_scope does not return exactly the embeddings inside the scope' +
                              (' (an EMPTY scope must yield no mapping for a pattern with atoms)' if not scope else ''),
                              {'pattern': ptxt, 'target': ttxt, 'scope': scope}, sorted(gk), sorted(refs),
                              'brute-force enumeration of injective maps into the scope',
                              replay_py=mk + f'print(list(p.get_mapping(t, searching_scope={scope!r}, automorphism_filter=False{kws})))')
    if query:
        return good
    # (4) operators
    sub = bool(ref)
    iso_ = brute_isomorphic(p, t)
    for name, fn, want in (('is_substructure', lambda: p.is_substructure(t), sub), ('<=', lambda: p <= t, sub),
                           ('<', lambda: p < t, sub and len(p) < len(t)), ('is_equal', lambda: p.is_equal(t), iso_),
                           ('>=', lambda: t >= p, sub), ('>', lambda: t > p, sub and len(p) < len(t))):
        try:
            v = fn()
        except Exception as e:  # noqa
            v = type(e).__name__
        if v is not want:
            good = False
            ck.counterexample(f'operator:{name}:{ptxt}>{ttxt}', f'{name} disagrees with the set of embeddings', {'pattern': ptxt, 'target': ttxt, 'op': name},
                              v, want, 'brute-force enumeration', replay_py=mk + 'print(p.is_substructure(t), p.is_equal(t), p < t, p <= t, t > p, t >= p)')
    return good


def search_int_pair(ck, G, patt, targ, rng, scopes=None):
    return search_pair(ck, G(*patt), G(*targ), rng, repr(patt), repr(targ), mk=int_mk(patt, targ), scopes=scopes, kind='int-graph')


def cut_int_pattern(rng, targ, size):
    """induced sub-graph of an integer-labelled graph on `size` random nodes, renumbered, insertion order shuffled"""
    tn = list(targ[0])
    keep = rng.sample(tn, min(size, len(tn)))
    ren = {x: 20 + k for k, x in enumerate(rng.sample(keep, len(keep)))}
    qa = {ren[x]: targ[0][x] for x in keep}
    qb = {ren[x]: {} for x in keep}
    es = [(x, y) for x in keep for y in targ[1][x] if y in ren and x < y]
    rng.shuffle(es)
    for x, y in es:
        qb[ren[x]][ren[y]] = targ[1][x][y]
        qb[ren[y]][ren[x]] = targ[1][x][y]
    return qa, qb


def search_int(ck, n):
    """dense integer-labelled graphs (many ring closures, several components): what molecules rarely exercise"""
    rng = random.Random(f'{ck.seed}:search-int')
    G = int_graph_class()
    for i in range(n):
        targ = random_graph(rng, 6, labels=(6, 7) if i % 2 else (6,), orders=(1, 2) if i % 3 else (1,))
        if rng.random() < .6:
            patt = cut_int_pattern(rng, targ, rng.randint(1, 4))
        else:
            patt = random_graph(rng, 4, labels=(6, 7) if i % 2 else (6,), orders=(1, 2) if i % 3 else (1,))
        search_int_pair(ck, G, patt, targ, rng)


def brute_automorphisms(classes, bonds, keep_components=True):
    """non-identity class- and bond-preserving bijections; keep_components: only those that map every component onto itself (what
    _get_automorphism_mapping enumerates, C07_automorphism_mapping_exact); without it: ALL automorphisms"""
    comp = own_components(bonds) if keep_components else dict.fromkeys(classes, 0)
    nodes = list(classes)
    out = []
    f = {}

    def rec(i):
        if i == len(nodes):
            if any(k != v for k, v in f.items()):
                out.append(key_of(f))
            return
        x = nodes[i]
        for y in nodes:
            if y in f.values() or classes[x] != classes[y] or comp[x] != comp[y]:
                continue
            if all((bonds[x].get(x2) is None) == (bonds[y].get(y2) is None) and
                   (bonds[x].get(x2) is None or bonds[x][x2] == bonds[y][y2]) for x2, y2 in f.items()):
                f[x] = y
                rec(i + 1)
                del f[x]
    rec(0)
    return out


def search_automorphism(ck, mols):
    """mol.get_automorphism_mapping(): every yielded mapping is a non-identity automorphism (atoms, bonds, morgan classes);
    all of them are found, each once (nothing at all when every atom has a class of its own)"""
    swaps = []
    for txt_, m in mols:
        if not len(m) or len(m) > 9:
            continue
        classes = dict(m._chiral_morgan)
        bonds = {n: {k: int(bd) for k, bd in ms.items()} for n, ms in m._bonds.items()}
        want = [] if len(set(classes.values())) == len(classes) else brute_automorphisms(classes, bonds)
        try:
            got = [key_of(x) for x in m.get_automorphism_mapping()]
        except Exception as e:  # noqa
            got = type(e).__name__
        ck.case(('search-auto', txt_), nontrivial=bool(want))
        ck.count(f'search:automorphism:{"some" if want else "none"}')
        if got == type(got).__name__ or sorted(got) != sorted(want):
            ck.counterexample(f'automorphism:{txt_}', 'get_automorphism_mapping is not exactly the set of non-identity automorphisms that keep '
                              'every component in place', {'molecule': txt_}, got, sorted(want), 'brute-force enumeration of class-preserving bijections',
                              replay_py=f'from chython import smiles; print(list(smiles({txt_!r}).get_automorphism_mapping()))')
        elif len(m) <= 7:
            # "all possible automorphism mappings" (docstring): automorphisms that exchange identical components are never produced
            # (C07_automorphism_mapping_all_refuted); one stable key, reported on the smallest input seen
            want_all = [] if len(set(classes.values())) == len(classes) else brute_automorphisms(classes, bonds, keep_components=False)
            if sorted(want_all) != sorted(want):
                swaps.append((len(m), txt_, sorted(set(want_all) - set(want))))
    if swaps:
        n, txt_, missing = min(swaps)
        ck.counterexample('automorphism-component-swap', 'get_automorphism_mapping / is_automorphic miss every automorphism that exchanges two identical '
                          'components', {'molecule': txt_}, f'{len(missing)} automorphism(s) missing, e.g. {missing[0]}', 'all class-preserving automorphisms',
                          'brute-force enumeration of ALL class- and bond-preserving bijections',
                          replay_py=f'from chython import smiles; m = smiles({txt_!r}); print(list(m.get_automorphism_mapping()), m.is_automorphic())')


def search_rdkit(ck, targets):
    """ring-mark / order / element / degree primitives through the whole matcher against RDKit's SMARTS matcher (an oracle that
    shares no code with chython), on the common sub-language only and only on targets both toolkits perceive alike"""
    from chython import smarts
    try:
        from rdkit import Chem, RDLogger
        RDLogger.DisableLog('rdApp.*')
    except Exception:  # noqa
        ck.count('search:rdkit:unavailable')
        return
    qs = []
    for s in RDKIT_SMARTS + LIST_SMARTS:
        try:
            q, rq = smarts(s), Chem.MolFromSmarts(s)
        except Exception:  # noqa
            continue
        if rq is None or len(q) != rq.GetNumAtoms() or len(q._compiled_query[0]) != 1:
            continue
        order = sorted(q._atoms)
        nonbonded = [(i, j) for i in range(len(order)) for j in range(i + 1, len(order)) if order[j] not in q._bonds[order[i]]]
        qs.append((s, q, rq, order, nonbonded))
    for ttxt, t in targets:
        rm = Chem.MolFromSmiles(ttxt) if ttxt else None
        if rm is None or rm.GetNumAtoms() != len(t) or len(t) > 30:
            ck.count('search:rdkit:target-skipped')
            continue
        nums = list(t._atoms)
        if nums != list(range(1, len(t) + 1)) or any(
                a.GetAtomicNum() != t._atoms[i + 1].atomic_number or a.GetFormalCharge() or t._atoms[i + 1].charge or a.GetIsotope()
                or t._atoms[i + 1].isotope or a.GetNumRadicalElectrons() or t._atoms[i + 1].is_radical or a.GetAtomicNum() == 1
                for i, a in enumerate(rm.GetAtoms())):
            ck.count('search:rdkit:target-skipped')
            continue
        rb = {frozenset((b_.GetBeginAtomIdx() + 1, b_.GetEndAtomIdx() + 1)): (4 if b_.GetIsAromatic() else int(b_.GetBondTypeAsDouble())) for b_ in rm.GetBonds()}
        cb = {frozenset((n, m)): _order(bd) for n, ms in t._bonds.items() for m, bd in ms.items()}
        if rb != cb:                                          # different aromaticity perception / kekule form: not comparable
            ck.count('search:rdkit:target-skipped')
            continue
        for s, q, rq, order, nonbonded in qs:
            want = set()
            for match in rm.GetSubstructMatches(rq, uniquify=False, maxMatches=100000):
                im = [i + 1 for i in match]
                if all(im[j] not in t._bonds[im[i]] for i, j in nonbonded):      # chython's embeddings are induced
                    want.add(tuple(im))
            try:
                got = [tuple(m[n] for n in order) for m in q.get_mapping(t, automorphism_filter=False, _cython=False)]
                gotf = [frozenset(m.values()) for m in q.get_mapping(t, automorphism_filter=True, _cython=False)]
            except Exception as e:  # noqa
                got, gotf = type(e).__name__, []
            ck.case(('search-rdkit', s, ttxt), nontrivial=bool(want))
            ck.count(f'search:rdkit:{"hit" if want else "miss"}')
            if got == type(got).__name__ or set(got) != want or len(got) != len(set(got)) or set(gotf) != {frozenset(w) for w in want} \
                    or len(gotf) != len(set(gotf)):
                ck.counterexample(f'rdkit:{s}>{ttxt}', 'query match differs from RDKit on the common SMARTS sub-language (atomic numbers, degree, bond '
                                  'orders, ring marks @ / !@), induced embeddings only', {'smarts': s, 'target': ttxt},
                                  sorted(got) if isinstance(got, list) else got, sorted(want), 'RDKit GetSubstructMatches(uniquify=False), re-filtered to induced matches',
                                  replay_py=f'from chython import smiles, smarts; print(list(smarts({s!r}).get_mapping(smiles({ttxt!r}), automorphism_filter=False, _cython=False)))')


def rdkit_comparable(Chem, ttxt, t):
    """the RDKit molecule of the same text when both toolkits number the atoms alike and agree on every bond order / aromatic flag,
    all atoms neutral, no isotopes, radicals or explicit hydrogens; else None"""
    rm = Chem.MolFromSmiles(ttxt) if ttxt else None
    if rm is None or rm.GetNumAtoms() != len(t) or len(t) > 30 or list(t._atoms) != list(range(1, len(t) + 1)):
        return None
    for i, a in enumerate(rm.GetAtoms()):
        ta = t._atoms[i + 1]
        if (a.GetAtomicNum() != ta.atomic_number or a.GetFormalCharge() or ta.charge or a.GetIsotope() or ta.isotope
                or a.GetNumRadicalElectrons() or ta.is_radical or a.GetAtomicNum() == 1):
            return None
    rb = {frozenset((x.GetBeginAtomIdx() + 1, x.GetEndAtomIdx() + 1)): (4 if x.GetIsAromatic() else int(x.GetBondTypeAsDouble())) for x in rm.GetBonds()}
    cb = {frozenset((n, m)): _order(bd) for n, ms in t._bonds.items() for m, bd in ms.items()}
    return rm if rb == cb else None


def search_stereo(ck):
    """stereo queries on the real code: (A) the automorphism filter must not lose image sets that the unfiltered search finds, and no
    exception may escape; (B) against RDKit's useChirality matcher on the SMARTS both read alike"""
    import re
    from chython import smiles
    qs, ts, rng = stereo_pairs(ck)
    try:
        from rdkit import Chem, RDLogger
        RDLogger.DisableLog('rdApp.*')
    except Exception:  # noqa
        Chem = None
    lost = []
    raised = []
    for ttxt, t in ts:
        rm = rdkit_comparable(Chem, ttxt, t) if Chem is not None else None
        for s_, q in (qs if len(t) <= 12 else rng.sample(qs, 6)):
            if len(q._compiled_query[0]) != 1:
                continue
            full, e1 = drain_partial(q.get_mapping(t, automorphism_filter=False, _cython=False))
            flt, e2 = drain_partial(q.get_mapping(t, automorphism_filter=True, _cython=False))
            ck.case(('search-stereo', s_, ttxt), nontrivial=bool(full))
            ck.count(f'search:stereo:{"raises" if e1 or e2 else "hit" if full else "miss"}')
            if e1 or e2:
                raised.append((len(t), len(q), s_, ttxt, e1 or e2))
                continue
            si, sf = {frozenset(m.values()) for m in full}, [frozenset(m.values()) for m in flt]
            if len(sf) != len(set(sf)) or not set(sf) <= si:
                ck.counterexample(f'stereo-filter:{s_}>{ttxt}', 'automorphism_filter=True yields a mapping / image set the unfiltered stereo search does not',
                                  {'smarts': s_, 'target': ttxt}, sorted(map(sorted, sf)), sorted(map(sorted, si)), 'the same call with automorphism_filter=False',
                                  replay_py=f'from chython import smiles, smarts; print(list(smarts({s_!r}).get_mapping(smiles({ttxt!r}), _cython=False)))')
            elif set(sf) != si:
                lost.append((len(t), len(q), s_, ttxt, sorted(map(sorted, si - set(sf)))))
            # (B) RDKit, on the comparable subset only: every labelled query atom has its four neighbours spelled out (no implicit
            # hydrogen, whose position in the neighbour order the two SMARTS dialects count differently; no allene centre, which RDKit
            # does not know) and the query has no ring closure (chython's SMARTS reader orders ring-closure neighbours differently)
            if rm is None or sum(len(v) for v in q._bonds.values()) // 2 >= len(q) or any(
                    getattr(a, 'stereo', None) is not None and len(q._bonds[n]) != 4 for n, a in q._atoms.items()):
                continue
            rs = re.sub(r'\[C(@@?);h1\]', r'[C\1H]', s_)
            rq = Chem.MolFromSmarts(rs)
            if rq is None or rq.GetNumAtoms() != len(q):
                continue
            order = sorted(q._atoms)
            nonbonded = [(i, j) for i in range(len(order)) for j in range(i + 1, len(order)) if order[j] not in q._bonds[order[i]]]
            want = set()
            for match in rm.GetSubstructMatches(rq, uniquify=False, useChirality=True, maxMatches=100000):
                im = [i + 1 for i in match]
                if all(im[j] not in t._bonds[im[i]] for i, j in nonbonded):
                    want.add(tuple(im))
            got = {tuple(m[n] for n in order) for m in full}
            ck.count(f'search:stereo:rdkit:{"hit" if want else "miss"}')
            if got != want:
                ck.counterexample(f'stereo-rdkit:{s_}>{ttxt}', 'stereo query match differs from RDKit GetSubstructMatches(useChirality=True)',
                                  {'smarts': s_, 'rdkit_smarts': rs, 'target': ttxt}, sorted(got), sorted(want), 'RDKit useChirality, re-filtered to induced matches',
                                  replay_py=f'from chython import smiles, smarts; print(list(smarts({s_!r}).get_mapping(smiles({ttxt!r}), automorphism_filter=False, _cython=False)))')
    if lost:
        _, _, s_, ttxt, missing = min(lost)
        ck.counterexample('stereo-after-automorphism-filter', 'with automorphism_filter=True (the default) a stereo query loses embeddings: the image-set filter runs '
                          'inside Isomorphism._get_mapping BEFORE the stereo check, so a mapping that fails the stereo check hides the valid one onto the same atoms',
                          {'smarts': s_, 'target': ttxt}, f'image sets lost: {missing}', 'every image set of the unfiltered search appears once',
                          'the same call with automorphism_filter=False',
                          replay_py=f'from chython import smiles, smarts; q = smarts({s_!r}); t = smiles({ttxt!r}); '
                                    'print(list(q.get_mapping(t, _cython=False)), list(q.get_mapping(t, automorphism_filter=False, _cython=False)))')
    if raised:
        _, _, s_, ttxt, e = min(raised)
        ck.counterexample('stereo-query-raises', f'get_mapping raises {e} in the stereo check instead of deciding the mapping',
                          {'smarts': s_, 'target': ttxt}, e, 'a list of mappings', 'no exception may escape the search',
                          replay_py=f'from chython import smiles, smarts; print(list(smarts({s_!r}).get_mapping(smiles({ttxt!r}), _cython=False)))')


SELF_TEXTS_CT = ['F/C=C/F', 'F/C=C(/Br)I', 'F/C(Cl)=C(/Br)I', 'Cl/C(F)=C/Br', 'F/C=C(Br)/I', 'F/C(Cl)=C(Br)/I', 'ClC(/F)=C/Br', 'C/C=C(C)/CC', 'C/C=C(/C)CC']
SELF_TEXTS = ['[C@](F)(Cl)(Br)I', 'F[C@](Cl)(Br)I', 'F[C@]1(Cl)CC1C', 'C1C(C)[C@]1(F)Cl', 'C[C@]1(F)CCCC1Cl', '[C@]12(F)CC1CCC2', 'C[C@](F)(Cl)CC',
              'F/C=C/F', 'C/C=C(/F)Cl', '[C@]1(F)(Cl)CC1C', '[C@@]1(F)(Cl)CC1C', 'C[C@@]1(F)CC1(C)C', 'F[C@@]1(Cl)CCC1C']


def search_self_text(ck):
    """a text in the common SMILES / SMARTS sub-language (element symbols, no hydrogens in brackets): the molecule it denotes matches the
    query it denotes, stereo included; RDKit (useChirality) confirms the expectation for every text before it is used"""
    import re
    from chython import smiles, smarts
    try:
        from rdkit import Chem, RDLogger
        RDLogger.DisableLog('rdApp.*')
    except Exception:  # noqa
        return
    bad = []
    for x in SELF_TEXTS + SELF_TEXTS_CT:
        rm, rq = Chem.MolFromSmiles(x), Chem.MolFromSmarts(x)
        if rm is None or rq is None or not rm.GetSubstructMatches(rq, useChirality=True):
            ck.count('search:self-text:not-confirmed-by-rdkit')
            continue
        t, q = smiles(x), smarts(x)
        if not has_stereo(t):
            continue
        got, err = drain(q.get_mapping(t, automorphism_filter=False, _cython=False))
        ck.case(('search-self-text', x), nontrivial=True)
        ck.count(f'search:self-text:{"ok" if got else "fails"}')
        if not got:
            bad.append((0 if re.search(r'\[C@@?\]\d', x) else 1 if ('/' in x or '\\' in x) else 2, len(x), x, err))
    for kind in (0, 1, 2):
        these = sorted(z for z in bad if z[0] == kind)
        if not these:
            continue
        _, _, x, err = these[0]
        ck.counterexample(('smarts-ring-closure-chirality-order', 'smarts-cis-trans-mark-order', f'self-text:{x}')[kind],
                          'a molecule does not match its own text read as a query: smarts() stores another stereo sign than smiles() for the same text ' +
                          ('(ring-closure digit written directly after the chiral atom: its bond is the FIRST neighbour for SMILES, the last for the SMARTS reader)',
                           '(a / or \\ mark on a substituent that is not the first neighbour of its end: smarts() stores the flag of the MARKED atoms, the stereo '
                           'filter and smiles() refer to the FIRST neighbours)', '')[kind],
                          {'text': x}, err or 'no mapping', 'at least the identity mapping (RDKit useChirality finds it)', 'RDKit self-match with useChirality=True',
                          replay_py=f'from chython import smiles, smarts; t = smiles({x!r}); q = smarts({x!r}); '
                                    'print([a.stereo for _, a in t.atoms()], [a.stereo for _, a in q.atoms()], list(q.get_mapping(t, _cython=False)))')


def search_accelerated(ck):
    """the public get_mapping of query patterns on its DEFAULT path (accelerated matcher, transpiled) against the brute-force enumerator:
    ring-closing queries on polycyclic, bridged, chord-rich targets (where a stale closure table or a wrong closure count shows), plus
    the operators, which use the same path"""
    from chython import smiles, smarts
    if accelerated_module(ck) is None:
        return
    rng = random.Random(f'{ck.seed}:search-accel')
    qs = [(x, smarts(x)) for x in RING_QUERIES + ['[#6]-;@[#6]', '[#6]-;!@[#6]', 'C1CC1CC', '[A;h0]1[A][A]1', 'CC', '[A][A]([A])[A]']]
    targets = [(x, smiles(x)) for x in POLY_TARGETS]
    lists = [(smarts(s), smiles(x), s, x) for s in LIST_SMARTS for x in HETERO_TARGETS]     # the bit-mask compiler reads the list's atomic numbers too
    lists += [(smarts(s), smiles(x), s, x) for s, x in BIG_RING_PAIRS]
    lists += [(smarts(s), smiles(x), s, x) for s in CHELATE_QUERIES for x in CHELATE_TARGETS]
    pool = [m for m in mol_pool(ck, 30 if ck.tier == 'quick' else 300, 24, 'c07-accel') if len(m.sssr) >= 2][:10 if ck.tier == 'quick' else 100]
    targets += [(str(m), m) for m in pool]
    pre = 'import iso_pyx; iso_pyx.inject(); from chython import smiles, smarts; '
    for ttxt0, t0 in targets + [(None, None)]:
        if ttxt0 is not None and any(a.implicit_hydrogens is None for a in t0._atoms.values()):
            continue                                        # the library itself takes the reference path for such molecules
        for s_, q, ttxt, t in ([(s_, q, ttxt0, t0) for s_, q in qs] if ttxt0 is not None else [(s, q, x, t) for q, t, s, x in lists]):
            ref = brute(q, t)
            refset = {key_of(m) for m in ref}
            ck.case(('search-accel', s_, ttxt), nontrivial=bool(ref))
            ck.count(f'search:accelerated:{"hit" if ref else "miss"}')
            got, err = drain(q.get_mapping(t, automorphism_filter=False))
            gk = None if got is None else [key_of(m) for m in got]
            if gk is None or set(gk) != refset or len(gk) != len(set(gk)):
                ck.counterexample(f'accelerated:{s_}>{ttxt}', 'get_mapping on its default (accelerated) path is not exactly the set of valid embeddings',
                                  {'smarts': s_, 'target': ttxt}, err or sorted(gk), sorted(refset), 'brute-force enumeration of injective maps',
                                  replay_py=pre + f'q = smarts({s_!r}); t = smiles({ttxt!r}); '
                                                  'print(list(q.get_mapping(t, automorphism_filter=False)), list(q.get_mapping(t, automorphism_filter=False, _cython=False)))')
                continue
            gf, err = drain(q.get_mapping(t))
            imf = None if gf is None else [frozenset(m.values()) for m in gf]
            if imf is None or len(imf) != len(set(imf)) or set(imf) != {frozenset(m.values()) for m in ref}:
                ck.counterexample(f'accelerated-filter:{s_}>{ttxt}', 'get_mapping (accelerated path, automorphism filter) loses / duplicates an image set',
                                  {'smarts': s_, 'target': ttxt}, err or sorted(map(sorted, imf)), sorted({tuple(sorted(m.values())) for m in ref}),
                                  'brute-force enumeration of injective maps', replay_py=pre + f'print(list(smarts({s_!r}).get_mapping(smiles({ttxt!r}))))')
            for name, fn in (('is_substructure', lambda: q.is_substructure(t)), ('<=', lambda: q <= t)):
                try:
                    v = fn()
                except Exception as e:  # noqa
                    v = type(e).__name__
                if v is not bool(ref):
                    ck.counterexample(f'accelerated-operator:{name}:{s_}>{ttxt}', f'{name} (accelerated path) disagrees with the set of embeddings',
                                      {'smarts': s_, 'target': ttxt}, v, bool(ref), 'brute-force enumeration',
                                      replay_py=pre + f'print(smarts({s_!r}).is_substructure(smiles({ttxt!r})))')


def search_match_stereo(ck):
    """pattern.get_mapping(target, match_stereo=True, automorphism_filter=False) against RDKit: the pattern molecule as RDKit query with
    useChirality=True (re-filtered to induced matches), on comparable pairs only (connected pattern without allene centres, every
    labelled pattern centre is really stereogenic, each found substructure keeps the hydrogens of the target)"""
    from chython import smiles
    try:
        from rdkit import Chem, RDLogger
        RDLogger.DisableLog('rdApp.*')
    except Exception:  # noqa
        return
    pats = [(x, smiles(x)) for x in MS_PATTERNS if '.' not in x and '=[C@' not in x]
    for ttxt in [x for x in STEREO_TARGETS if '[H]' not in x and '=[C@' not in x and 'C=C=C' not in x]:
        t = smiles(ttxt)
        rm = rdkit_comparable(Chem, ttxt, t)
        if rm is None:
            continue
        for ptxt, p in pats:
            if len(p) != len(t):        # same size: the matched substructure is the whole target, hydrogens included (no recalculation issue)
                continue
            rp = rdkit_comparable(Chem, ptxt, p)
            if rp is None:
                continue
            want = {tuple(i + 1 for i in m) for m in rm.GetSubstructMatches(rp, uniquify=False, useChirality=True, maxMatches=100000)}
            plain = {tuple(i + 1 for i in m) for m in rm.GetSubstructMatches(rp, uniquify=False, useChirality=False, maxMatches=100000)}
            order = sorted(p._atoms)
            nlab = lambda m: sum(a.stereo is not None for a in m._atoms.values()) + sum(bd.stereo is not None for *_, bd in m.bonds())
            if nlab(p) != nlab(t):
                # chython demands EQUAL labels on the matched part, RDKit only that the labelled query centres agree: comparable only
                # when neither side has a label the other lacks
                ck.count('search:match_stereo:not-comparable')
                continue
            if len(plain) > 1 and sum(a.stereo is not None for a in p._atoms.values()) >= 2:
                # several labelled centres exchanged by a symmetry (e.g. trans-1,4-dimethylcyclohexane): the toolkits disagree on which
                # symmetry operations keep the labels (pseudo-asymmetry); not decided here, reported as an open disagreement
                ck.count('search:match_stereo:pseudo-asymmetric-skipped')
                continue
            got, err = drain(p.get_mapping(t, automorphism_filter=False, match_stereo=True))
            ck.case(('search-match-stereo', ptxt, ttxt), nontrivial=bool(want))
            ck.count(f'search:match_stereo:{"hit" if want else "plain-only" if plain else "miss"}')
            gotset = None if got is None else {tuple(m[n] for n in order) for m in got}
            if gotset != want or (got is not None and len(got) != len(gotset)):
                ck.counterexample(f'match-stereo-rdkit:{ptxt}>{ttxt}', 'get_mapping(match_stereo=True, automorphism_filter=False) differs from RDKit '
                                  'useChirality on a same-size pair', {'pattern': ptxt, 'target': ttxt}, err or sorted(gotset), sorted(want),
                                  'RDKit GetSubstructMatches(useChirality=True, uniquify=False)',
                                  replay_py=f'from chython import smiles; print(list(smiles({ptxt!r}).get_mapping(smiles({ttxt!r}), automorphism_filter=False, match_stereo=True)))')


RDKIT_TARGETS = ['CC1CC1', 'C1CCCCC1', 'CCCC', 'c1ccccc1-c1ccccc1', 'O=C1CCC(OC)O1', 'NCCC1CCNC1', 'CCC1CCCC1', 'C=C1CCC=C1', 'CC(=O)OC1CC1', 'c1ccncc1C',
                 'C1CC2CC12', 'N#CC1CCC1', 'OC1CCOC1', 'CC(C)=O', 'c1ccc2ccccc2c1', 'C1=CCCC1C=C', 'OCC1CO1', 'CN1CCCC1=O', 'C1CC1C1CC1', 'CC=CC']


def search_lazy_product(ck, n):
    """lazy_product against itertools.product, as multisets"""
    from chython._functions import lazy_product
    rng = random.Random(f'{ck.seed}:search-lp')
    for _ in range(n):
        args = [[rng.randint(0, 3) for _ in range(rng.randint(0, 4))] for _ in range(rng.randint(0, 4))]
        want = sorted(itertools.product(*args))
        try:
            got = sorted(lazy_product(*[iter(x) for x in args]))
        except Exception as e:  # noqa
            got = type(e).__name__
        ck.case(('search-lp', repr(args)), nontrivial=bool(want))
        if got != want:
            ck.counterexample(f'lazy_product:{args}', 'lazy_product is not the cartesian product (as a multiset)', {'args': args}, got, want,
                              'itertools.product', replay_py=f'from chython._functions import lazy_product; print(list(lazy_product(*{args!r})))')


def directed(ck, failing):
    """the correspondence disagreed on these cases: run the property-level oracle (brute force) on the REAL code on and around them.
    A concrete failing input becomes a counterexample; if none is found the caller's `unchecked` stands."""
    from chython import smiles, smarts
    from chython.containers import MoleculeContainer
    rng = random.Random(f'{ck.seed}:directed')
    G = int_graph_class()
    seen = set()
    budget = 400

    def mol(x):
        return smiles(x) if x else MoleculeContainer()

    def int_around(patt, targ, scope):
        sc = [None if scope is None else list(scope), [], list(targ[0])[::2]]
        search_int_pair(ck, G, patt, targ, rng, scopes=sc)
        search_int_pair(ck, G, patt, patt, rng)
        for k in range(1, min(4, len(targ[0])) + 1):       # every size of pattern cut from the target
            search_int_pair(ck, G, cut_int_pattern(rng, targ, k), targ, rng)
        nodes = list(patt[0])
        for drop in nodes[:4]:                               # the pattern minus one atom
            keep = [x for x in nodes if x != drop]
            sub = ({x: patt[0][x] for x in keep}, {x: {y: v for y, v in patt[1][x].items() if y != drop} for x in keep})
            search_int_pair(ck, G, sub, targ, rng)

    for meta in failing:
        if budget <= 0:
            break
        key = repr(meta)[:2000]
        if key in seen:
            continue
        seen.add(key)
        budget -= 1
        kind = meta[0]
        try:
            if kind == 'Isomorphism._get_mapping':
                _, _, patt, targ, flt, scope = meta
                int_around(patt, targ, scope)
            elif kind in ('_get_mapping', '_get_mapping trace', '_get_mapping loop states'):
                _, _, patt, targ, scope = meta
                int_around(patt, targ, scope)
            elif kind == 'compile':
                _, _, atoms, bonds = meta
                if atoms and set(atoms) == set(bonds) and all(m in bonds and n != m and bonds[m].get(n) == bd for n, ms in bonds.items() for m, bd in ms.items()):
                    int_around((atoms, bonds), (atoms, bonds), None)     # a well-formed graph: as pattern on itself
            elif kind == 'MoleculeContainer.get_mapping':
                _, _, ptxt, ttxt, flt, scope = meta
                t = mol(ttxt)
                if len(t) <= 40:
                    search_pair(ck, mol(ptxt), t, rng, ptxt, ttxt, scopes=[scope, [], list(t._atoms)[::2]])
            elif kind == 'operator':
                _, _, _, ptxt, ttxt = meta
                t = mol(ttxt)
                if len(t) <= 40:
                    search_pair(ck, mol(ptxt), t, rng, ptxt, ttxt)
                    search_pair(ck, t, mol(ptxt), rng, ttxt, ptxt)
            elif kind == 'QueryContainer.get_mapping(_cython=False)':
                _, s, ttxt, flt, scope = meta
                t = mol(ttxt)
                if len(t) <= 40:
                    search_pair(ck, smarts(s), t, rng, s, ttxt, query=True, scopes=[scope, []])
            elif kind == 'lazy_product':
                search_lazy_product(ck, 300)
                budget -= 20
            elif kind in ('get_automorphism_mapping', '_get_automorphism_mapping'):
                if kind == 'get_automorphism_mapping':
                    search_automorphism(ck, [(meta[1], smiles(meta[1]))])
                else:
                    _, atoms, bonds = meta
                    want = [] if len(set(atoms.values())) == len(atoms) else brute_automorphisms(atoms, bonds)
                    from chython.algorithms.isomorphism import _get_automorphism_mapping
                    got = sorted(key_of(x) for x in _get_automorphism_mapping(atoms, bonds))
                    if got != sorted(want):
                        ck.counterexample(f'automorphism-int:{atoms}:{bonds}', '_get_automorphism_mapping is not exactly the set of non-identity '
                                          'automorphisms', {'atoms': atoms, 'bonds': bonds}, got, sorted(want), 'brute force',
                                          replay_py='from chython.algorithms.isomorphism import _get_automorphism_mapping; '
                                                    f'print(list(_get_automorphism_mapping({atoms!r}, {bonds!r})))')
        except Exception as e:  # noqa  (the oracle itself must not hide the disagreement)
            ck.count(f'directed:oracle-error:{type(e).__name__}')
    # and the general-purpose searches at a higher volume
    search_int(ck, 600)
    search_lazy_product(ck, 500)
    ck.extra['directed_cases'] = len(seen)


def search(ck):
    from chython import smiles, smarts
    from chython.containers import MoleculeContainer
    rng = random.Random(f'{ck.seed}:search')
    targets = [(x, smiles(x)) for x in SMALL_TARGETS]
    # fragments of corpus molecules, alone and in pairs (several components), at most 8 atoms
    pool = mol_pool(ck, 40 if ck.tier == 'quick' else 400, 40, 'c07-search')
    for m in pool:
        f1 = cut_pattern(rng, m, rng.randint(3, 8))
        if has_stereo(f1):
            continue
        txt = str(f1)
        if rng.random() < .3:
            f2 = cut_pattern(rng, rng.choice(pool), rng.randint(1, 8 - min(len(f1), 7)))
            if not has_stereo(f2) and len(f1) + len(f2) <= 8:
                txt = txt + '.' + str(f2)
        try:
            t = smiles(txt)
        except Exception:  # noqa
            continue
        if t is not None and 0 < len(t) <= 8:
            targets.append((txt, t))
    patterns = [(x, smiles(x)) for x in SMALL_PATTERNS if len(smiles(x)) <= 6]
    queries = {}
    for s in SMARTS:
        try:
            q = smarts(s)
        except Exception:  # noqa
            continue
        if not any(getattr(a, 'stereo', None) is not None for a in q._atoms.values()):
            queries[s] = q
    npairs = 0
    # the two repaired defects first, on minimal inputs: an empty scope, and the empty pattern (exactly one, empty, embedding);
    # and the empty target
    search_pair(ck, smiles('C'), smiles('CCO'), rng, 'C', 'CCO')
    search_pair(ck, MoleculeContainer(), smiles('CO'), rng, '', 'CO')
    search_pair(ck, smiles('C'), MoleculeContainer(), rng, 'C', '')
    search_pair(ck, MoleculeContainer(), MoleculeContainer(), rng, '', '')
    for ttxt, t in targets:
        if has_stereo(t):
            continue
        mine = rng.sample(patterns, 4 if ck.tier == 'quick' else 12)
        # patterns cut from the target itself (always a hit) and the target itself
        for _ in range(2):
            c = cut_pattern(rng, t, rng.randint(1, 5))
            mine.append((str(c), smiles(str(c))))
        mine.append((ttxt, smiles(ttxt)))
        for ptxt, p in mine:
            if has_stereo(p):
                continue
            search_pair(ck, p, t, rng, ptxt, ttxt)
            npairs += 1
        # query patterns: mostly ones that do hit this target (chosen with the brute-force enumerator, not with the matcher)
        nhit, nmiss = (2, 1) if ck.tier == 'quick' else (5, 2)
        for s in rng.sample(SMARTS, len(SMARTS)):
            if not nhit and not nmiss:
                break
            q = queries.get(s)
            if q is None:
                continue
            hit = bool(brute(q, t))
            if (hit and nhit) or (not hit and nmiss):
                nhit, nmiss = (nhit - 1, nmiss) if hit else (nhit, nmiss - 1)
                search_pair(ck, q, t, rng, s, ttxt, query=True)
                npairs += 1
    for ttxt in HETERO_TARGETS:
        for s in LIST_SMARTS:
            search_pair(ck, smarts(s), smiles(ttxt), rng, s, ttxt, query=True)
            npairs += 1
    for ttxt in CHELATE_TARGETS:
        for s in CHELATE_QUERIES:
            search_pair(ck, smarts(s), smiles(ttxt), rng, s, ttxt, query=True, scopes=[])
            npairs += 1
    search_int(ck, 250 if ck.tier == 'quick' else 4000)
    search_lazy_product(ck, 200 if ck.tier == 'quick' else 3000)
    search_automorphism(ck, [('C.C', smiles('C.C'))] + targets)
    search_primitive_grid(ck)
    search_accelerated(ck)
    search_stereo(ck)
    search_match_stereo(ck)
    search_self_text(ck)
    search_rdkit(ck, [(x, smiles(x)) for x in RDKIT_TARGETS + HETERO_TARGETS] + [(x, m) for x, m in targets if '.' not in x])
    ck.extra['search_pairs'] = npairs


def run(ck):
    ck.trusted += ['translator tools/gen_isoops.py (Python ast: operators, call directions, filter arguments, scope tests, component split, loop exits of isomorphism.py)',
                   'translator tools/gen_isomatch.py (Python ast, statement by statement: start / candidate test of _get_mapping, automorphism-filter block, neighbour loop of _compile_query)',
                   'translator tools/gen_isolazy.py (Python ast: body of the inner loop of lazy_product statement by statement, skeleton compared as text)',
                   'correspondence runner harness/checks/C07.py + harness/coqcases.py + harness/coqmol.py', 'CachedMethods shim harness/boot.py',
                   'CPython 3.12.1', 'brute-force reference enumerator and own primitive evaluators in harness/checks/C07.py (search only)',
                   'RDKit 2026.3 SMARTS matcher (search only, common sub-language)',
                   'transpiler harness/iso_pyx.py (the accelerated matcher _isomorphism.pyx run as Python; C09 owns its model, C07 only searches through it)']
    ck.assumptions += [
        'coq/model/Iso.v is a hand-written model of lazy_product, _compile_query, _get_mapping (recursive form of the explicit-stack loop), '
        'Isomorphism._get_mapping, is_substructure/is_equal/</<= and _get_automorphism_mapping; the tie is the correspondence of the whole '
        'SEQUENCE of mappings (order included) on exhaustive small graphs, generated pairs and corpus molecules',
        'coq/model/IsoStack.v models the loop of _get_mapping in its own form (explicit stack, path, mapping, reversed_mapping, lazy clean-up) with the '
        'tests translated by tools/gen_isomatch.py; C07_stack_loop_refines proves it equal to the recursive form; its states are compared with the '
        'locals of the real loop (sys.settrace) at every pop',
        'atom / bond match are parameters of the theorems (C08 supplies them); other.connected_components (set order) is an input of the model',
        'a target whose _atoms/_bonds are inconsistent makes the Python matcher raise KeyError where the model rejects the candidate: a '
        'container cannot hold such dictionaries', 'the stereo filter of QueryIsomorphism.get_mapping and the Cython path are out of scope (C09)']
    ck.extra['rule'] = ('correspondence: lazy_product on all lists of <=3 lists of <=3 elements + random; _compile_query on all graphs of <=4 nodes '
                        '(two insertion orders), sampled 5-node graphs, random graphs, malformed dicts; _get_mapping on all connected patterns '
                        '<=3 nodes x all targets <=4 nodes; the wrapper on all patterns <=3 nodes x targets <=4 nodes (quick: a sample) and random '
                        'labelled pairs with scopes and both filter values; corpus molecules with patterns cut by mol.substructure, small patterns, '
                        'two-component patterns/targets; SMARTS through truth tables; automorphism mappings.  non-trivial = at least one mapping. '
                        'search: brute force over all injective maps, targets <= 8 atoms; non-trivial = at least one embedding exists')
    proved = common.standard_proof_steps(ck, translators=['isoops', 'isomatch', 'isolazy', 'stereo'])   # control skeleton of isomorphism.py + C12's sign tables
    tied, failing = correspondence(ck)
    if not tied:
        directed(ck, failing)
    search(ck)
    ck.extra['proved'] = proved
    ck.extra['tied'] = tied
