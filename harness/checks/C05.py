"""C05 Kekule <-> aromatic conversions.

proof          : coq/props/C05.v (theorems about the specification kekule_rel / thiele_rel, the classifier of
                 Kekule.__prepare_rings and the driver model)
correspondence : (1) Kekule.__prepare_rings == Model.Kekule.prepare_rings on an exhaustive grid of atom states and on every
                 whole input molecule (skeleton dict, pyrroles, double_bonded, or InvalidAromaticRing);
                 (2) EVERY output of kekule(), every form of enumerate_kekule() and every output of thiele() on the inputs
                 of the check goes through the Coq checkers kekule_rel / thiele_rel (vm_compute);
                 (3) the driver model kekule_driver re-plays kekule() given the real search result;
                 (4) the search itself: the arguments __kekule_full passes to _kekule_component are recorded and the first
                 forms the real generator yields (with and without the pyridine buffer), or its InvalidAromaticRing, are
                 compared with Model.Kekule.kekule_component;
                 (5) thiele() with fix_tautomers False and True == Model.Thiele.thiele_model / thiele_model_t;
                 (6) the decidable hypotheses chain_hyp2 of Proofs.KekulePrep.kekule_prepare_chain (model of __prepare_rings +
                 search soundness composed with kekule_rel_core) are evaluated on every input;
                 (7) intermediate states of the search: the locals stack / path / buffer_size / buffer of the running generator
                 at the head of the iterations of `while stack:` (sys.settrace) against Proofs.KekuleTrace.ktrace.
tie            : tools/gen_kekulecls.py, tools/gen_thielecls.py regenerate the per-atom decision trees of __prepare_rings and
                 every decision of the ring loop of thiele() from the source on each run; Proofs.KekuleGenTie proves the
                 hand-written models equal to them.
search         : independent of the model, on the real code: atoms / charges / radicals / connectivity unchanged, idempotence
                 of both conversions, fixpoints of the compositions, every enumerated form aromatises to the same
                 canonical string (unsaturated four-membered rings excluded and counted), valence and hydrogen counts of
                 Kekule results, renumbering invariance, RDKit agreement.  Hydrogen / valence / form oracles are claimed
                 inside a domain decided without the model (see `domain`); outside it failures are counted only.
                 When the model and the code disagree, `directed_search` looks for a concrete failing input.
"""
import concurrent.futures as cf
import itertools
import os
import random
import time

import boot  # noqa
import common
import coqcases
import coqmol
import corpus
from coqfmt import zraw, b, lst, opt, tup

replay = common.generic_replay

PRELUDE = '''From Model Require Import Graph Kekule Thiele.
From Proofs Require Import KekuleSound KekuleLink KekulePrep KekuleTrace.
Import ListNotations.
Open Scope Z_scope.
Definition A (n num chg h : Z) : Z * atom := (n, mkAtom num None chg false (Some h) None).
Definition An (n num chg : Z) : Z * atom := (n, mkAtom num None chg false None None).
Definition Bd (m o : Z) : Z * bond := (m, mkBond o None).
Definition T (n m o : Z) : Z * Z * Z := (n, m, o).
Definition hget (hs : list (Z * option Z)) (n : Z) : option Z := match zget hs n with Some h => h | None => None end.
(* the driver model re-plays kekule(): given the form the real search found and the hydrogens calc_implicit set *)
Definition driver_ok (g : mol) (sssr : list (list Z)) (form : list (Z * Z * Z)) (hs : list (Z * option Z)) (ret : bool) (g' : mol) : bool :=
  match kekule_driver g sssr (fun _ _ _ => Ok (Some form)) (fun _ n => hget hs n) with
  | Ok (r, f) => mol_eqb r g' && Bool.eqb f ret
  | Err _ => false
  end.
Definition driver_raises (g : mol) (sssr : list (list Z)) : bool :=
  match kekule_driver g sssr (fun _ _ _ => Ok None) (fun _ _ => None) with Err OtherError => true | _ => false end.
(* atom-state grid: class of atom 1 as a code 0 = neither, 1 = double_bonded, 2 = pyrroles, 3 = both, 4 = InvalidAromaticRing *)
Definition grid_ok (g : mol) (sssr : list (list Z)) (code : Z) : bool :=
  match prepare_rings g sssr with
  | Err OtherError => code =? 4
  | Err _ => false
  | Ok p => code =? (if zmem 1 (r_pyrroles p) then 2 else 0) + (if zmem 1 (r_double p) then 1 else 0)
  end.
Definition grid_code (g : mol) (sssr : list (list Z)) : Z :=
  match prepare_rings g sssr with
  | Err OtherError => 4
  | Err _ => 5
  | Ok p => (if zmem 1 (r_pyrroles p) then 2 else 0) + (if zmem 1 (r_double p) then 1 else 0)
  end.
Definition rh8 : list (bool * option Z) :=
  [(false, None); (false, Some 0); (false, Some 1); (false, Some 2); (true, None); (true, Some 0); (true, Some 1); (true, Some 2)].
(* one row of the grid: the eight (radical, hydrogens) states of one (skeleton, element, charge) *)
Definition grid_row (sk : atom -> mol) (sssr : list (list Z)) (num chg : Z) (codes : list Z) : bool :=
  list_eqb Z.eqb (map (fun rh => grid_code (sk (mkAtom num None chg (fst rh) (snd rh) None)) sssr) rh8) codes.
Definition cls_code (num chg : Z) (rad : bool) (nb : Z) (h : option Z) (indb : bool) : Z :=
  match classify_atom num chg rad nb h indb with
  | Err OtherError => 4
  | Err _ => 5
  | Ok (p, d) => (if p then 2 else 0) + (if d then 1 else 0)
  end.
Definition cls_row (num chg nb : Z) (indb : bool) (codes : list Z) : bool :=
  list_eqb Z.eqb (map (fun rh => cls_code num chg (fst rh) nb (snd rh) indb) rh8) codes.
(* Thiele.thiele(fix_tautomers=False): result flag, bond orders of the result and - when the real code got as far as _sssr -
   the pruned skeleton (keys in dict order, sets up to order), its ring count and the freak rings *)
Definition sk_eqb (a b : adjl) : bool := forallb2 (fun x y => (fst x =? fst y) && same_keys_z (snd x) (snd y)) a b.
Definition th_ok (g : mol) (sssr rings2 : list (list Z)) (fok : list bool) (ret : bool) (g' : mol)
                 (reached : bool) (sk : adjl) (ns : Z) (freaks : list (list Z)) : bool :=
  match thiele_model g sssr rings2 fok with
  | Ok o => Bool.eqb (o_result o) ret && same_orders (o_mol o) g' && same_orders g' (o_mol o) &&
            (negb reached || (sk_eqb (o_skeleton o) sk && (o_nsssr o =? ns) && list_eqb (list_eqb Z.eqb) (o_freaks o) freaks))
  | Err _ => false
  end.
(* thiele() with the default fix_tautomers=True: additionally the hydrogen counts; ords = the iteration orders of the skeleton sets *)
Definition hs_eqb (g g' : mol) : bool := list_eqb (option_eqb Z.eqb) (map (fun x => a_h (snd x)) (m_atoms g)) (map (fun x => a_h (snd x)) (m_atoms g')).
Definition tht_ok (g : mol) (sssr : list (list Z)) (ords : adjl) (rings2 : list (list Z)) (fok : list bool) (ret : bool) (g' : mol)
                  (reached : bool) (sk : adjl) (ns : Z) (freaks : list (list Z)) : bool :=
  match thiele_model_t g sssr ords rings2 fok with
  | Ok o => Bool.eqb (o_result o) ret && same_orders (o_mol o) g' && same_orders g' (o_mol o) && hs_eqb (o_mol o) g' &&
            (negb reached || (sk_eqb (o_skeleton o) sk && (o_nsssr o =? ns) && list_eqb (list_eqb Z.eqb) (o_freaks o) freaks))
  | Err _ => false
  end.
(* the search _kekule_component: first yields, raise flag *)
Definition E (a p o : Z) : kentry := (a, p, o).
Definition kentry_eqb (x y : kentry) : bool := let '(a, p, o) := x in let '(a', p', o') := y in (a =? a') && (p =? p') && (o =? o').
Definition kc_ok (rings : adjl) (db : list Z) (dbs : Z) (pyr : list Z) (bs maxy : Z) (ys : list (list kentry)) (raised : bool) (sound : list bool) (wf : bool) : bool :=
  match kekule_component rings db dbs pyr bs (Z.to_nat maxy) (Z.to_nat 30000) with
  | Ok (ys', r, _) => list_eqb (list_eqb kentry_eqb) ys' ys && Bool.eqb r raised && list_eqb Bool.eqb (map (form_sound rings db pyr) ys') sound &&
                      Bool.eqb (rings_wf2 rings db pyr) wf
  | Err _ => false
  end.
(* intermediate states of the search: stack (top first), path, buffer_size, buffered forms at the head of the first iterations of `while stack:` *)
Definition I (a p o : Z) (c : option Z) : kitem := (a, p, o, c).
Definition ksnap_eqb (x y : ksnap) : bool :=
  let '(st, pa, bs, nb) := x in let '(st', pa', bs', nb') := y in
  list_eqb (list_eqb kitem_eqb) st st' && list_eqb kentry_eqb pa pa' && (bs =? bs') && (nb =? nb').
Definition tr_ok (rings : adjl) (db : list Z) (dbs : Z) (pyr : list Z) (bs : Z) (tr : list ksnap) : bool :=
  match kinit rings db dbs pyr bs with
  | Ok (db', start, size, s) => list_eqb ksnap_eqb (ktrace rings db' pyr start size (List.length tr) s) tr
  | Err _ => match tr with [] => true | _ => false end
  end.
(* the per-atom function alone, for the states that reach the atom loop *)
Definition cls_ok (num chg : Z) (rad : bool) (nb : Z) (h : option Z) (indb : bool) (code : Z) : bool :=
  match classify_atom num chg rad nb h indb with
  | Err OtherError => code =? 4
  | Err _ => false
  | Ok (p, d) => code =? (if p then 2 else 0) + (if d then 1 else 0)
  end.
'''


# ---------------------------------------------------------------------------------------------------
# printing

def atom_t(n, a):
    if a.isotope is None and not a.is_radical and a.stereo is None:
        if a.implicit_hydrogens is None:
            return f'An {zraw(n)} {a.atomic_number} {zraw(a.charge)}'
        return f'A {zraw(n)} {a.atomic_number} {zraw(a.charge)} {zraw(a.implicit_hydrogens)}'
    return tup(zraw(n), coqmol.atom_term(a))


def bond_t(k, bd):
    if bd.stereo is None:
        return f'Bd {zraw(k)} {int(bd)}'
    return tup(zraw(k), coqmol.bond_term(bd))


def mol_t(m, hole=None):
    """Graph.mol term; hole = atom number printed as the variable `a1` (atom-state grid skeletons)"""
    atoms = lst([f'({zraw(n)}, a1)' if n == hole else atom_t(n, a) for n, a in m._atoms.items()])
    adj = lst([tup(zraw(n), lst([bond_t(k, bd) for k, bd in nb.items()])) for n, nb in m._bonds.items()])
    return f'(mkMol {atoms} {adj})'


def sssr_t(m):
    return lst([lst(list(r), zraw) for r in m.sssr])


def snap(m):
    """pure-Python value of everything the property speaks about"""
    return (tuple((n, a.atomic_number, a.isotope, a.charge, a.is_radical, a.implicit_hydrogens) for n, a in m._atoms.items()),
            tuple((n, tuple((k, int(bd)) for k, bd in nb.items())) for n, nb in m._bonds.items()))


def has_arom(m):
    return any(int(bd) == 4 for *_, bd in m.bonds())


def unsaturated_4ring(m):
    """an SSSR ring of four atoms with a ring bond between two unsaturated (sp2 / sp / aromatic) atoms"""
    for r in m.sssr:
        if len(r) == 4:
            unsat = [any(int(bd) in (2, 3, 4) for bd in m._bonds[n].values()) for n in r]
            if any(unsat[i] and unsat[(i + 1) % 4] for i in range(4)):
                return True
    return False


# ---------------------------------------------------------------------------------------------------
# Coq case collection: groups of (definitions, cases) packed into shards of bounded text size

class NoCases:
    def add(self, defs, cases):
        pass


class Cases:
    def __init__(self, name):
        self.name = name
        self.groups = []

    def add(self, defs, cases):
        """defs: list of 'Definition ...' lines; cases: list of (expr, meta, on_fail) sharing those definitions"""
        if cases:
            self.groups.append(('\n'.join(defs), cases))

    def total(self):
        return sum(len(c) for _, c in self.groups)

    def run(self, limit=200_000, max_cases=400):
        shards = []
        cur_defs, cur_cases, size = [], [], 0
        dmap = {}
        groups = []
        for defs, cases in self.groups:      # a big group (the atom-state grid) is cut into pieces sharing its definitions
            for j in range(0, len(cases), max_cases):
                groups.append((defs, cases[j:j + max_cases]))
        for defs, cases in groups:
            for c in cases:
                dmap[id(c)] = defs
            sz = len(defs) + sum(len(c[0]) + 12 for c in cases)
            if cur_cases and (size + sz > limit or len(cur_cases) + len(cases) > max_cases):
                shards.append((cur_defs, cur_cases))
                cur_defs, cur_cases, size = [], [], 0
            cur_defs.append(defs)
            cur_cases.extend(cases)
            size += sz
        if cur_cases:
            shards.append((cur_defs, cur_cases))

        def one(k):
            defs, cases = shards[k]
            ok, failing, log = coqcases.run_cases(f'{self.name}_{k}', 'Graph Kekule Thiele', [c[0] for c in cases],
                                                  extra=PRELUDE + '\n'.join(defs), shard=10 ** 9)
            return ok, [cases[i] + (dmap[id(cases[i])],) for i in failing], log

        failed, logs, ok_all = [], [], True
        with cf.ThreadPoolExecutor(max_workers=4) as ex:
            for ok, fl, log in ex.map(one, range(len(shards))):
                ok_all = ok_all and ok
                failed.extend(fl)
                if log:
                    logs.append(log)
        return ok_all, failed, '\n'.join(logs), len(shards)


# ---------------------------------------------------------------------------------------------------
# inputs

CURATED = [
    # benzenoids
    'c1ccccc1', 'Cc1ccccc1C', 'c1ccc2ccccc2c1', 'c1ccc2cc3ccccc3cc2c1', 'c1ccc2c(c1)ccc1ccccc12', 'c1cc2ccc3cccc4ccc(c1)c2c34',
    'c1ccc2c(c1)c1cccc3cccc2c13', 'c1cc2cccc3c4cccc5cccc(c(c1)c23)c54', 'c1ccc(cc1)-c1ccccc1', 'c1ccccc1c2ccccc2', 'c1ccc2cccc2cc1',
    'c1cc2ccc3ccc4ccc5ccc6ccc1c1c6c5c4c3c12', 'c1ccc2c(c1)Cc1ccccc21', 'C1=CC=CC=C1', 'C1=CC2=CC=CC=C2C=C1',
    # five-membered heterocycles
    'c1cc[nH]c1', 'n1cccc1', 'Cn1cccc1', 'c1ccoc1', 'c1ccsc1', 'c1cc[se]c1', 'c1cc[te]c1', 'c1cc[pH]c1', 'c1ccp(C)c1', 'c1cc[bH]c1', 'c1ccb(C)c1',
    'c1cnc[nH]1', 'c1cn[nH]c1', 'c1ncn[nH]1', 'c1nnn[nH]1', 'c1cocn1', 'c1cscn1', 'c1conc1', 'c1csnc1', 'c1nnco1', 'c1nncs1', 'c1c[se]cn1',
    'c1ccc2[nH]ccc2c1', 'c1ccc2occc2c1', 'c1ccc2sccc2c1', 'c1ccc2[nH]cnc2c1', 'c1ccc2ocnc2c1', 'c1ccc2scnc2c1', 'c1ccc2[se]ccc2c1',
    'c1ccn2cccc2c1', 'c1ccn2ccnc2c1', 'c1ncc2[nH]cnc2n1', 'c1cc2sccc2s1', 'c1cc2[nH]ccc2[nH]1', 'c1ccc2c(c1)[nH]c1ccccc12', 'c1ccc2c(c1)oc1ccccc12',
    'c1ccc2c(c1)sc1ccccc12', 'c1cn2ccnc2cn1', 'c1ccc2n(c1)ccc2', 'c1cnn2cccc2c1', 'Cn1ccc2ccccc12', 'c1ccc2n[nH]cc2c1', 'c1ccc2[nH]nnc2c1',
    # six-membered heterocycles
    'c1ccncc1', 'c1cnccn1', 'c1cncnc1', 'c1ccnnc1', 'c1ncncn1', 'c1nncnn1', 'c1ccc2ncccc2c1', 'c1ccc2cnccc2c1', 'c1ccc2nccnc2c1', 'c1ccc2ncncc2c1',
    'c1ccc2nc3ccccc3cc2c1', 'c1ccc2nc3ccccc3nc2c1', 'c1cnc2ccc3ncccc3c2c1', 'c1ccpcc1', 'b1ccccc1', 'c1cc[bH-]cc1', 'c1ccc2bcccc2c1', 'c1cc[b-](C)cc1',
    # charged rings
    'c1cc[nH+]cc1', 'C[n+]1ccccc1', '[O-][n+]1ccccc1', 'c1cc[o+]cc1', 'c1cc[s+]cc1', 'c1cc[se+]cc1', 'c1cc[cH-]c1', 'C[c-]1cccc1', 'c1ccc[cH-]1', '[cH-]1cccc1',
    'c1cc[n-]c1', 'c1c[n-]cn1', 'c1ccc2[n-]ccc2c1', 'C[n+]1cc[nH]c1', 'C[n+]1ccn(C)c1', 'c1cc[n+]2ccccc2c1', 'C[n+]1cccc2ccccc12', 'c1ccc[cH+]cc1',
    'c1cc[n+]([O-])cc1', 'C[n+]1ccsc1', 'c1c[nH+]c[nH]1', 'c1ccc[c-]c1', '[c]1ccccc1', 'C[s+]1cccc1', 'c1ccc[c+]1',
    # quinoid rings
    'O=c1ccc(=O)cc1', 'O=c1cc[nH]cc1', 'O=c1ccocc1', 'O=c1ccscc1', 'O=c1cccc[nH]1', 'O=c1ccccn1C', 'O=c1ccccc1=O', 'O=c1cc[nH]c(=O)[nH]1', 'O=c1[nH]c(=O)c2[nH]cnc2[nH]1',
    'Cn1cnc2c1c(=O)n(C)c(=O)n2C', 'O=c1c2ccccc2c(=O)c2ccccc12', 'O=c1ccc2ccccc2[nH]1', 'O=c1cc(-c2ccccc2)oc2ccccc12', 'S=c1cc[nH]cc1', 'N=c1cc[nH]cc1', 'C=c1cc[nH]cc1',
    'O=c1cccccc1', 'O=c1nc[nH]cc1', 'c1ccs(=O)c1', 'c1ccs(=O)(=O)c1', 'O=n1ccccc1', 'c1ccn(=O)cc1',
    'O=c1oc2ccccc2cc1', 'O=c1ccc2ccccc2o1', 'O=c1[nH]cnc2[nH]cnc12', 'Nc1nc2[nH]cnc2c(=O)[nH]1', 'Nc1ccn(C)c(=O)n1',
    # unsaturated four-membered rings (recorded gap for the enumeration clause)
    'c1ccc2c(c1)c1ccccc21', 'c1ccc2c(c1)-c1ccccc1-2', 'C1=CC2=C(C=C1)C1=CC=CC=C21', 'C1=CC2=CC=C2C=C1', 'C1=CC=C2C(=C1)C1=CC=CC=C21', 'c1ccc2c(c1)CC2',
]

# atom states the recorded findings are about (known_findings.d/C05.json), kept so that they stay observed
FINDING_INPUTS = ['Cp1cccn1', 'C[as]1cccn1', 'C[b-]1(C)cccn1', '[cH-]1cccn1', '[c-]1ccncc1', '[nH+]1ccncc1', '[bH-]1ccncc1', 'c1cpccp1', 'b1cnncn1',
                  '[se+]1cccnc1', '[te+]1cccnc1', 'c1cnc[as]c1', 'c1cc[as]cc1', '[c+]1ccncc1', '[pH+]1ccncc1', '[asH+]1ccncc1', '[s+]1cnccn1']

# ring systems on which the pyridine-over-pyrrole buffer of _kekule_component decides the result of kekule() (found by
# comparing the search with a copy whose buffer test is off by one; on the 4200 corpus molecules the buffer never matters)
BUFFER_INPUTS = ['n1ccc2ncccc2n1', 'c1ccc2cc3ncccc3nc2c1', 'c1cnc2ccc3ncccc3c2c1', 'c1cc2nccc3ccc(n1)c23', 'n1cc2n(C)ncc2o1', 'c1cnc2nc3nnccc3nc2c1',
                 'n1cc[n+]2ncncc2n1', 'c1ccc2c(n1)ncc1c2ncc2ncccc12', 'c1cc2c(p1)c1c(p2)cccc1', 'n1ccc2nc3ccccc3nc2n1', 'c1ccc2cc3cnncc3nc2c1',
                 'n1cc2cccn3ncc(n1)n23']

MALFORMED = [
    # mis-drawn / malformed
    'c1ccc-cc1', 'c1ccc=cc1', 'c1cccc1', 'cc', 'c1ccc#cc1', 'c1ccc2c1c3ccccc3cc2', '[n]1cccc1', 'c1cc[nH+]c1', '[n+]1ccccc1', '[nH]1ccccc1', 'c1cccc1C(=O)c1cccc1',
    'c1ccccc1c1ccccc1c1ccccc1', 'C#Cc1ccccc1', 'c1cc[o]c1', 'c1cc[oH+]c1', 'c1ccc[n+]c1', 'c1cc[s-]c1',
    'c1cc[siH]c1', 'c1cc[asH]c1', 'C=c1cccc1', 'c1ccc(=c2cccc2)c1', 'O=c1cc1', 'c1cc1', 'c1ccc1', 'c1cccccc1', 'c1ccccccc1', 'Cn1(C)cccc1',
]

# boundary inputs of the ring eligibility tests of Thiele.thiele (neighbour counts incl. special bonds, charges, ring sizes)
THIELE_BOUNDARY = ['CS1C=CC=C1', 'C1=CC=CN1~[Fe]', 'C1=CC=CB1~[Na]', 'C1=CC=CP1(C)~[Fe]', 'C1=CC=C[N]1(C)C', 'C1=CC=CO1~[Li]', 'C1=CC=CC=C[BH]1', 'C1=CC=CC=CN1',
                   'C1=CC=C[N-]1', 'CC1=CC=C[S]1=O', 'C1=CC=CC=CC=CN1', 'C1=CN1', 'C1=CC=C[O+]1', 'C1=CC=CC=C[CH-]1']

# Kekule forms on which the hydrogen-moving search of thiele(fix_tautomers=True) has donors and acceptors
TAUTOMER_INPUTS = ['N1C=CC2=NC=NC2=C1', 'C1=CC2=NC=CC2=CN1', 'N1C=CC2=CC=NC2=C1', 'N1C=CC2=NC3=CC=CC=C3C2=C1', 'N1C=NC2=NC=CC2=C1', 'O=C1NC=CC2=NC=CC12',
                   'N1C=CC2=NC=CC2=N1', 'C1=CC2=NC=CC2=CN1C', 'N1C=CC2=C1C=CC1=NC=CC21', 'N1C=CC2=NC=CC2=C1.N1C=CC2=NC=CC2=C1', 'N1C=CC(=C2C=CN=C2)C=C1',
                   # the hydrogen-moving search has to back out of a branch and come back through atoms it saw there (odd rings on
                   # the way): without the reset of `seen` on backtracking the results differ
                   'C1=CC2=CNC3=C4N=NC=C4N=C3C2=C1', 'C1=CC2=NC3=C4NC=NC=C4C=C3C2=C1', 'C1=CNC2=C3C(=CC2=C1)C=C1C=NC=C13']

KEKULE_SPELLED = [
    # an all-sp2 four-membered ring with its own double bond next to a ring thiele() aromatises (only the biphenylene-type
    # four-ring, all atoms aromatic, may be reset to single bonds)
    'O=C1C(NC)=C(Nc2ccccc2)C1=O', 'C1=Cc2ccccc12', 'C1=CC=C1c1ccccc1', 'C1=CC2=CC=CC=C12', 'C1=CC=C1C1=CC=CC=C1', 'O=C1C(=O)C(C2=CC=CC=C2)=C1O', 'C1=CC(=C1)C1=CC=NC=C1',
    'C1=CC2=C1C=CN2', 'c1ccc2c(c1)C1=CC=C21',
    # two two-coordinate ring hetero atoms whose hydrogen count is KNOWN (0): no enumerated form may read them with a hydrogen
    'B1=CC=BC=C1', 'B1=CC=BC2=CC=CC=C12', 'c1c[b]cc[b]1', '[b]1ccc[b]c1', 'P1=CC=PC=C1', 'N1=CC=NC=C1', 'c1c[n]cc[n]1', 'B1=CC=NC=C1', 'B1=CN=BC=C1',
    # Kekule spellings that thiele aromatises
    'C1=CNC=C1', 'C1=COC=C1', 'C1=CSC=C1', 'C1=CC=NC=C1', 'C1=CC=C2NC=CC2=C1', 'N1C=CC2=NC=CC2=C1', 'N1C=CN2C=CC=C12', 'O=C1C=CC(=O)C=C1', 'O=C1C=CNC=C1', 'C1=C[Se]C=C1',
    'C1=CC=C[CH-]1', 'C1=CC=[NH+]C=C1', 'C1=CC=[O+]C=C1', 'C1=CBC=C1', 'C1=CC=PC=C1', 'C1=CC=C2C=CC=CC2=C1', 'C1=CC=CC=CC=C1', 'C1=CC=CC=CC1', 'C1=CC=BC=C1',
    'C=1C=CC=2C=1C=CC=2', 'C1=CC2=CC=CC2=C1', 'c1ccc2c(c1)C=CC=C2', 'C1=Cc2ccccc2C1', 'CC1=CC=CN1C', 'OC1=NC=CC=C1', 'O=C1NC=CC=C1', 'C1=CN=CN1', 'C1=NC=CN1', 'N1C=CC=N1',
]


# COMPOSITES (round 4): two ring systems in one molecule, as separate fragments and joined by a single bond between two CH
# carbons.  What one ring system does to another was never generated before: every stage of the conversions that asks a
# question about the WHOLE molecule (the SMARTS queries of __fix_rings / freak_rules, the lazy product over the components in
# enumerate_kekule, the global acceptor / donor sets of the tautomer search) has to answer it per ring system.
# rule-aromatised systems: bridgehead-N fused five-rings whose five-ring with exactly three sp2 atoms matches freak_rules
RULE_AROMATISED = ['C1=CN2C=CSC2=N1', 'N1C=CN2C=CC=C12', 'S1C=CN2C=CC=C12', 'C1=CN2C=COC2=N1', 'CN1C=CN2C=CC=C12', 'C1=CN2C(S1)=NC1=CC=CC=C21',
                   'C1=CN2C=CNC2=N1', 'C1=CN2N=CSC2=N1', 'S1C=CN2N=CC=C12', 'O1C=CN2C=CC=C12']
# partly saturated rings: unsaturated but not aromatic (sp3 ring members); five-rings with two, three (= candidates of the rule
# stage that no rule matches) and four sp2 atoms, six-rings
PARTLY_SATURATED = ['O=C1CCc2ccccc12', 'O=C1Cc2ccccc2N1', 'O=C1Cc2ccccc2O1', 'O=C1CC=CN1', 'O=C1CCC=C1', 'O=C1NCc2ccccc12', 'O=C1OCC=C1', 'O=C1CSC=N1',
                    'C=C1CC=CS1', 'C1Cc2ccccc2C1=C', 'N1C=CCC1=N', 'C1Cc2ccccc2N1', 'C1C=Cc2ccccc12', 'C1CC=NN1', 'C1C=CC=CC1', 'C1C=CCC=C1', 'O=C1CCCc2ccccc12',
                    'C1CC=CC=N1', 'O=C1C=CCC=C1', 'C1C=CNC=C1', 'C1C=COC=C1', 'O=C1NC(=O)c2ccccc12', 'O=C1C=CC(=O)N1', 'C1=CCC=C1']
COMPOSITE_AROMATIC = ['c1ccccc1', 'c1ccc2ccccc2c1', 'c1ccc2c(c1)ccc1ccccc12', 'c1cc[nH]c1', 'c1ccncc1', 'c1ccsc1', 'c1ccc2[nH]ccc2c1', 'N1C=CC2=NC=CC2=C1',
                      'c1ccc2ncccc2c1', 'O=c1cc[nH]cc1', 'c1ccc2cc3ccccc3cc2c1', 'c1cnc2[nH]ccc2c1', 'c1cc[cH-]c1', 'c1cc[o+]cc1', 'c1ccc2c(c1)c1ccccc21']


# mis-drawn aromatic rings that the SMARTS rules of __fix_rings repair before the search (N-oxides / N-imides written with a double
# bond, sulfoxide written charged, a metal bonded to an aromatic N): the repair of one ring system must not reach another
RULE_REPAIRED = ['O=n1ccccc1', 'N=n1ccccc1', '[O-][s+]1cccc1', 'O=n1ccn(=O)cc1', 'O=n1ccncc1', 'c1ccn(-[Fe])c1', 'O=n1ccc2ccccc2c1']


# several hydrogen donors of the tautomer search of thiele() in one molecule (round 5): six-ring N-H donors that have NO reachable
# acceptor (pyridones, thiopyridone, quinolones: the search for them ends without a path) together with donors the search can fix
# (N-H six-ring fused with an all-sp2 five-ring that holds a pyridine-type N); both orders, so that an unfixable donor comes
# before and after a fixable one in the SSSR order
UNFIXABLE_DONORS = ['O=C1C=CNC=C1', 'O=C1NC=CC=C1', 'S=C1C=CNC=C1', 'O=C1C=CNc2ccccc12', 'O=C1NC=Cc2ccccc12', 'CC1=CC(=O)C=CN1']
FIXABLE_DONORS = ['N1C=CC2=NC=CC2=C1', 'C1=CC2=NC=CC2=CN1', 'N1C=CC2=CC=NC2=C1', 'N1C=NC2=NC=CC2=C1', 'N1C=CC2=NC=CC2=N1']
PIPED_LABELS = set()        # composites that always go through the whole pipeline (models of thiele / kekule included)


def compose(sa, sb, rng, join):
    """the two molecules in one container (atoms of the second renumbered behind the first); join: additionally a single bond
    between a CH carbon of each.  Returned as the SMILES chython writes for it (the label every replay starts from)."""
    from chython import smiles
    A, B = smiles(sa), smiles(sb)
    M = A.union(B, remap=True)
    if join:
        ca = [n for n in A._atoms if M._atoms[n].atomic_number == 6 and not M._atoms[n].charge and (M._atoms[n].implicit_hydrogens or 0) >= 1]
        cb = [n for n in M._atoms if n not in A._atoms and M._atoms[n].atomic_number == 6 and not M._atoms[n].charge and (M._atoms[n].implicit_hydrogens or 0) >= 1]
        if not ca or not cb:
            return None
        M.add_bond(rng.choice(ca), rng.choice(cb), 1)
        return str(M)
    return f'{sa}.{sb}'


def composites(rng, n_random):
    """(label, joined) : every rule-aromatised system with every partly saturated ring (both orders alternate), plus random
    pairs over the three pools; each as two fragments and joined"""
    pairs = []
    for j, (x, y) in enumerate(itertools.product(RULE_AROMATISED, PARTLY_SATURATED)):
        pairs.append((x, y) if j % 2 else (y, x))
    for j, (x, y) in enumerate(itertools.product(RULE_REPAIRED, RULE_REPAIRED[:3] + COMPOSITE_AROMATIC[:4])):
        pairs.append((x, y) if j % 2 else (y, x))
    n_before = len(pairs)
    for x, y in itertools.product(UNFIXABLE_DONORS, FIXABLE_DONORS):
        pairs.append((x, y))
        pairs.append((y, x))
    donor_pairs = set(pairs[n_before + 6:n_before + 10])
    PIPED_LABELS.clear()
    pool = RULE_AROMATISED + PARTLY_SATURATED + COMPOSITE_AROMATIC + RULE_REPAIRED
    for _ in range(n_random):
        pairs.append((rng.choice(pool), rng.choice(pool)))
    out = []
    for x, y in pairs:
        for join in (False, True):
            try:
                lab = compose(x, y, rng, join)
            except Exception:
                lab = None
            if lab:
                out.append((lab, join))
                if (x, y) in donor_pairs:
                    PIPED_LABELS.add(lab)
    return list(dict.fromkeys(out))


def bond_orders(m):
    return {(n, k): int(bd) for n, nb in m._bonds.items() for k, bd in nb.items()}


def saturated_carbons(m):
    """neutral non-radical carbons with four single bonds (hydrogens included): no reading of the molecule makes them aromatic"""
    return {n for n, a in m._atoms.items() if a.atomic_number == 6 and not a.charge and not a.is_radical and a.implicit_hydrogens is not None
            and all(int(bd) == 1 for bd in m._bonds[n].values()) and len(m._bonds[n]) + a.implicit_hydrogens == 4}


def locality(ck, label):
    """conversions commute with the split into connected components: on a record of several fragments, kekule() / thiele() /
    enumerate_kekule() of the record, restricted to a fragment, are those of the fragment alone (atom numbers kept: split()
    does not renumber).  Independent of the model; the fragments alone are the reference."""
    from chython import smiles
    from chython.exceptions import InvalidAromaticRing
    M = smiles(label)
    if M is None or M.connected_components_count < 2:
        return
    ck.case(('locality', label), nontrivial=True)
    head = f'from chython import smiles\nm=smiles({label!r})\n'
    K = None
    for conv in ('kekule', 'thiele'):
        src = M if conv == 'kekule' else K
        if src is None:
            break
        W = src.copy()
        parts = W.split()
        pre = '' if conv == 'kekule' else 'm.kekule()\n'
        try:
            getattr(W, conv)()
        except InvalidAromaticRing:
            W = None
        part_raises = False
        for pt in parts:
            try:
                getattr(pt, conv)()
            except InvalidAromaticRing:
                part_raises = True
        if (W is None) != part_raises:
            ck.counterexample(f'fragment-locality:{conv}-raises:{label}', f'{conv}() of a record of several fragments raises InvalidAromaticRing exactly when it should not: '
                              'the record and its fragments taken alone disagree', {'input': label}, 'record raises' if W is None else 'a fragment alone raises',
                              'same outcome', 'the fragments converted alone (split())',
                              replay_py=head + pre + f'ps=m.split()\nfor p in ps:\n    try: p.{conv}(); print(p)\n    except Exception as e: print(repr(e))\nm.{conv}(); print(m)')
            return
        if W is None:
            ck.count(f'locality: {conv}() raises on the record and on a fragment')
            return
        bw, hw = bond_orders(W), {n: a.implicit_hydrogens for n, a in W._atoms.items()}
        for pt in parts:
            d = [e for e, o in bond_orders(pt).items() if bw[e] != o and e[0] < e[1]]
            dh = [n for n, a in pt._atoms.items() if hw[n] != a.implicit_hydrogens]
            if d or dh:
                ck.counterexample(f'fragment-locality:{conv}:{label}', f'{conv}() of a record of several fragments converts a fragment differently from the fragment taken alone '
                                  '(one ring system influences another)', {'input': label, 'bonds that differ': d[:8], 'hydrogens that differ': dh[:8]},
                                  {'record': str(W)}, {'fragment alone': str(pt)}, 'the fragments converted alone (split())',
                                  replay_py=head + pre + f'ps=m.split()\nfor p in ps: p.{conv}(); print(p)\nm.{conv}(); print(m)')
                return
        ck.count(f'locality: {conv}() of the record = {conv}() of its fragments')
        if conv == 'kekule':
            K = W
    # enumerate_kekule of the record = product of the forms of the fragments, and no form is handed out twice / garbled later
    W = M.copy()
    parts = W.split()
    try:
        raw = list(itertools.islice(W.enumerate_kekule(), 400))
        per = [list(itertools.islice(pt.enumerate_kekule(), 400)) for pt in parts]
    except InvalidAromaticRing:
        return
    if len(raw) >= 400 or any(len(x) >= 400 for x in per):
        ck.count('locality: too many forms to compare')
        return
    fw = {tuple(sorted(bond_orders(f).items())) for f in raw}
    prod = {tuple(sorted(sum((list(bond_orders(f).items()) for f in combo), []))) for combo in itertools.product(*per)}
    ck.count(f'locality: enumerate_kekule() of the record compared with the product over its fragments', len(prod))
    if fw != prod or len(raw) != len(fw):
        ck.counterexample(f'enumerate-kekule-not-product:{label}', 'the forms enumerate_kekule() yields for a record of several fragments are not exactly the combinations of the forms '
                          'of its fragments, each once', {'input': label}, {'forms yielded': len(raw), 'distinct': len(fw), 'not a combination of fragment forms': len(fw - prod),
                                                                              'combinations missing': len(prod - fw)}, {'combinations': len(prod)},
                          'product of enumerate_kekule() over the fragments taken alone (split())',
                          replay_py=head + 'print(len(list(m.enumerate_kekule())))\nfor f in m.enumerate_kekule(): print(f)\nfor p in m.split(): print([str(f) for f in p.enumerate_kekule()])')


def ring_smiles(tokens):
    return tokens[0] + '1' + ''.join(tokens[1:]) + '1'


def generated(rng, n_random):
    out = []
    # six-membered: every pattern of c / n
    for combo in itertools.product('cn', repeat=6):
        out.append(('six', ring_smiles(list(combo))))
    six_special = ['[nH+]', '[n+](C)', '[o+]', '[s+]', '[se+]', 'p', 'b', '[bH-]', '[c-]', '[cH-]', '[cH+]', '[n+]([O-])', 'c(=O)', 'c(=S)', 'c(C)', 'c(N)',
                   'c(O)', 'n(=O)', 'c(-c2ccccc2)', '[n+](=O)' , 's(=O)']
    for sp in six_special:
        for combo in rng.sample(list(itertools.product('cn', repeat=5)), 4):
            out.append(('six-special', ring_smiles([sp] + list(combo))))
    # quinoid pairs
    for x in ('c(=O)', 'c(=S)', 'c(=N)', 'c(=C)'):
        for y in ('[nH]', 'o', 's', 'n(C)', 'c(=O)', '[se]'):
            out.append(('quinoid', ring_smiles([x, 'c', 'c', y, 'c', 'c'])))
            out.append(('quinoid', ring_smiles([x, y, 'c', 'c', 'c', 'c'])))
    # five-membered: one pyrrole-type position, the rest c / n
    five_x = ['[nH]', 'n(C)', 'o', 's', '[se]', '[te]', '[pH]', 'p(C)', '[bH]', 'b(C)', '[cH-]', '[n-]', 'n', '[nH+]', '[o+]', '[s+](C)', '[c-](C)', '[n+](C)(C)',
              '[b-](C)(C)', 's(=O)', 'c(=O)', '[asH]']
    for x in five_x:
        combos = list(itertools.product('cn', repeat=4))
        for combo in (combos if n_random > 200 else [combos[0]] + rng.sample(combos[1:], 6)):
            out.append(('five', ring_smiles([x] + list(combo))))
    # fused templates: plain 'c' tokens may become 'n'; X = pyrrole-type atom
    templates = ['c1ccc2ccccc2c1', 'c1ccc2Xccc2c1', 'c1ccc2Xcnc2c1', 'c1ccc2cXcc2c1', 'c1ccn2cccc2c1', 'c1ccn2ccnc2c1', 'c1ncc2Xcnc2n1', 'c1ccc2cccc2cc1',
                 'c1ccc2cc3ccccc3cc2c1', 'c1ccc2c(c1)ccc1ccccc12', 'c1ccc2c(c1)Xc1ccccc12', 'c1cc2Xccc2X1', 'c1cc2ccc3cccc4ccc(c1)c2c34', 'c1ccc2c(c1)ccc1Xccc12',
                 'c1cc2cccc3ccc(c1)c23', 'O=c1ccc2ccccc2X1', 'O=c1cc(C)Xc2ccccc12', 'c1ccc2c(c1)c1ccccc21', 'c1ccc2c(c1)Cc1ccccc21',
                 'c1cc2c(X1)ccX2', 'c1ccc2c(c1)ccc1c2ccc2ccccc12', 'c1ccc2[n+](C)cccc2c1', 'c1cc[n+]2ccccc2c1', 'c1ccc2c(c1)[nH]c1ncccc12']
    xs = ['[nH]', 'o', 's', 'n(C)', '[se]', '[pH]', '[n-]']
    per = max(1, n_random // len(templates))
    for t in templates:
        for k in range(per):
            s = []
            for ch in _tokens(t):
                if ch == 'X':
                    s.append(rng.choice(xs) if k else xs[0])
                elif ch == 'c' and k and rng.random() < 0.25:
                    s.append('n')
                else:
                    s.append(ch)
            out.append(('fused', ''.join(s)))
    seen = set()
    res = []
    for kind, s in out:
        if s not in seen:
            seen.add(s)
            res.append((kind, s))
    return res


def _tokens(t):
    """split a template into characters, keeping bracket atoms and 'c' followed by ring digits / branches apart from bare 'c'"""
    out = []
    i = 0
    while i < len(t):
        ch = t[i]
        if ch == '[':
            j = t.index(']', i)
            out.append(t[i:j + 1])
            i = j + 1
        elif ch == 'c' and (i + 1 == len(t) or t[i + 1] in 'c[XnosC)('):
            # bare aromatic CH (no ring-closure digit after it, not followed by '(' opening its own branch)
            if i + 1 < len(t) and t[i + 1] == '(':
                out.append('c(')
                i += 2
            else:
                out.append('c')
                i += 1
        else:
            out.append(ch)
            i += 1
    return out


def load_inputs(ck):
    """list of (kind, label, molecule factory)"""
    from chython import smiles, SDFRead
    rng = random.Random(f'{ck.seed}:c05:inputs')
    quick = ck.tier == 'quick'
    items = [('curated', s) for s in dict.fromkeys(CURATED + KEKULE_SPELLED + TAUTOMER_INPUTS + FINDING_INPUTS + BUFFER_INPUTS)]
    items += [('malformed', s) for s in dict.fromkeys(MALFORMED + THIELE_BOUNDARY)]
    items += generated(rng, 72 if quick else 600)
    try:
        with open(os.path.join(common.REPO, 'test/heterocycles_charges.smi')) as f:
            items += [('heterocycles_charges.smi', line.split()[0]) for line in f if line.strip()]
    except OSError:
        ck.count('unreadable:heterocycles_charges.smi')
    items += [('lipophilicity', s) for s in corpus.sample(corpus.lipo(), 80 if quick else 1500, ck.seed, 'c05')]
    mols = []
    for kind, s in items:
        try:
            m = smiles(s)
        except Exception as e:
            ck.count(f'input-rejected-by-parser:{type(e).__name__}')
            continue
        if m is None:
            continue
        mols.append((kind, s, m))
    try:
        for i, m in enumerate(SDFRead(os.path.join(common.REPO, 'test/arenes.sdf'))):
            mols.append(('arenes.sdf', f'arenes.sdf#{i}:{m}', m))
    except Exception as e:
        ck.count(f'unreadable:arenes.sdf:{type(e).__name__}')
    return mols


# ---------------------------------------------------------------------------------------------------
# correspondence (1a): the atom-state grid

GRID_ELEMENTS = ['B', 'C', 'N', 'O', 'P', 'S', 'As', 'Se', 'Te', 'Si', 'F', 'Ge']


def grid_skeleton(extra, exo, fused, sym='C', charge=0, rad=False, h=None):
    """an aromatic six-ring (optionally with a second fused ring on bond 1-2); atom 1 is the probe atom with `extra` single
    bonded substituents and optionally an exocyclic double bond"""
    from chython import MoleculeContainer
    from chython.periodictable import Element
    m = MoleculeContainer()
    m.add_atom(Element.from_symbol(sym)(charge=charge, is_radical=rad), 1, _skip_calculation=True)
    for i in range(2, 7):
        m.add_atom('C', i, _skip_calculation=True)
    for i in range(1, 7):
        m.add_bond(i, i % 6 + 1, 4, _skip_calculation=True)
    k = 7
    if fused:
        for i in range(4):
            m.add_atom('C', k + i, _skip_calculation=True)
        m.add_bond(1, k, 4, _skip_calculation=True)
        for i in range(3):
            m.add_bond(k + i, k + i + 1, 4, _skip_calculation=True)
        m.add_bond(k + 3, 2, 4, _skip_calculation=True)
        k += 4
    for _ in range(extra):
        m.add_atom('C', k, _skip_calculation=True)
        m.add_bond(1, k, 1, _skip_calculation=True)
        k += 1
    if exo:
        m.add_atom('O', k, _skip_calculation=True)
        m.add_bond(1, k, 2, _skip_calculation=True)
        k += 1
    m.fix_structure()
    m._atoms[1]._implicit_hydrogens = h
    return m


def class_code(fn):
    from chython.exceptions import InvalidAromaticRing
    try:
        _, pyr, db = fn()
    except InvalidAromaticRing:
        return 4
    return (2 if 1 in pyr else 0) + (1 if 1 in db else 0)


def corr_grid(ck, cs):
    from chython.periodictable import Element
    defs = []
    sk = {}
    for extra in (0, 1, 2):
        for exo in (False, True):
            for fused in (False, True):
                m = grid_skeleton(extra, exo, fused)
                name = f'sk{extra}{int(exo)}{int(fused)}'
                sk[(extra, exo, fused)] = (name, mol_t(m, hole=1), sssr_t(m))
                defs.append(f'Definition {name} (a1 : atom) : mol := {mol_t(m, hole=1)}.\nDefinition {name}r : list (list Z) := {sssr_t(m)}.')
    cases = []
    n_acc = 0
    RH = [(rad, h) for rad in (False, True) for h in (None, 0, 1, 2)]       # order of PRELUDE.rh8
    for sym in GRID_ELEMENTS:
        num = Element.from_symbol(sym)().atomic_number
        for charge in (-2, -1, 0, 1, 2):
            for (extra, exo, fused), (name, text, rtext) in sk.items():
                codes = []
                whole = True
                for rad, h in RH:
                    m = grid_skeleton(extra, exo, fused, sym, charge, rad, h)
                    code = class_code(m._Kekule__prepare_rings)
                    codes.append(code)
                    if not (mol_t(m, hole=1) == text and sssr_t(m) == rtext):
                        # the substituents' hydrogens depend on the probe atom: print this state in full
                        whole = False
                        cases.append((f'grid_ok {mol_t(m)} {sssr_t(m)} {code}', ('grid', sym, charge, extra, exo, fused, [(rad, h)]), 'prep'))
                        ck.count('grid:printed-in-full')
                    ck.case(('grid', sym, charge, rad, h, extra, exo, fused), nontrivial=code != 4)
                    ck.count(f'grid:class={("neither", "double_bonded", "pyrroles", "both", "InvalidAromaticRing")[code]}')
                    n_acc += code != 4
                meta = ('grid', sym, charge, extra, exo, fused, RH)
                if whole:
                    cases.append((f'grid_row {name} {name}r {num} {zraw(charge)} {lst(codes, zraw)}', meta, 'prep'))
                # the per-atom function alone, when the function got as far as the atom loop (or passed it)
                nb = 2 + extra + int(fused) + int(exo)
                reached = not (exo and (fused or not quinone_allowed(num, charge)))
                if reached:
                    cases.append((f'cls_row {num} {zraw(charge)} {nb} {b(exo)} {lst(codes, zraw)}', meta, 'prep'))
    cs.add(defs, cases)
    ck.extra['grid_states'] = len(GRID_ELEMENTS) * 5 * 2 * 4 * 12
    ck.extra['grid_states_accepted'] = n_acc


def quinone_allowed(num, charge):
    """independent restatement of the `for n in double_bonded` checks (used only to decide whether the atom loop is reached)"""
    return charge == 1 if num == 7 else (num in (6, 15, 16, 33, 34, 52) and charge == 0)


# ---------------------------------------------------------------------------------------------------
# the domain of the property-level oracles: an independent reading of the input exists

_DOMAIN = {}


def domain(label):
    """(in_domain, reason, RDKit hydrogens per atom in input order).  An aromatic SMILES is inside the domain of the
    search oracles when RDKit reads and kekulizes it AND chython, given RDKit's Kekule spelling as a plain non-aromatic
    SMILES, finds no valence error and the same hydrogen count on every atom: an independent witness that a valence-clean
    Kekule form with the written hydrogens exists.  Outside the domain (strings no toolkit agrees on, environments
    chython's valence tables do not know: C04's business) only crashes, the correspondence and the checker core count."""
    if label in _DOMAIN:
        return _DOMAIN[label]
    from rdkit import Chem
    from chython import smiles
    res = (False, 'not-comparable', None)
    try:
        rd = Chem.MolFromSmiles(label)
        if rd is None:
            res = (False, 'rdkit-rejects', None)
        else:
            rk = Chem.Mol(rd)
            Chem.Kekulize(rk, clearAromaticFlags=True)
            ks = Chem.MolToSmiles(rk, canonical=False, kekuleSmiles=True)
            order = list(rk.GetPropsAsDict(True, True).get('_smilesAtomOutputOrder', []))
            hs_rd = [a.GetTotalNumHs() for a in rk.GetAtoms()]
            dbl = sum(1 for bd in rk.GetBonds() if bd.GetBondType() == Chem.BondType.DOUBLE)
            m2 = smiles(ks)
            if m2 is None or len(m2._atoms) != len(hs_rd) or len(order) != len(hs_rd):
                res = (False, 'not-comparable', None)
            elif m2.check_valence():
                res = (False, 'chython-valence-rules-reject-rdkit-kekule-form', None)
            elif [a.implicit_hydrogens for _, a in m2.atoms()] != [hs_rd[i] for i in order]:
                res = (False, 'hydrogen-counts-differ-on-rdkit-kekule-form', None)
            elif any(a.is_radical for _, a in m2.atoms()) or any(a.GetNumRadicalElectrons() for a in rk.GetAtoms()):
                res = (False, 'radical', None)
            else:
                res = (True, 'ok', (hs_rd, dbl))
    except Exception as e:
        res = (False, f'not-comparable:{type(e).__name__}', None)
    _DOMAIN[label] = res
    return res


def atom_state(a):
    return f'{a.atomic_symbol}{a.charge:+d}:radical={a.is_radical}:neighbors={a.neighbors}'


# ---------------------------------------------------------------------------------------------------
# correspondence (1b, 2, 3) and search on whole molecules

class Pipe:
    def __init__(self, ck, cs):
        self.ck = ck
        self.cs = cs
        self.i = 0
        self.forms_total = 0
        self.excluded_4ring = 0
        self.excluded_4ring_inconsistent = 0
        self.rdkit_compared = 0
        self.traced = 0

    def bad(self, dom, key, what, label, observed, expected, oracle, code, extra=None):
        """a property-level failure on the real code: reported inside the domain, counted outside"""
        if not dom:
            self.ck.count('not reported (outside the domain, or the molecule already has a recorded finding): ' + key.split(':')[0])
            return
        inp = {'input': label}
        if extra:
            inp.update(extra)
        self.ck.counterexample(key, what, inp, observed, expected, oracle,
                               replay_py=('from chython import smiles\n' + code) if code else None)

    def run(self, kind, label, m0, renumbered=False, full=True):
        from chython.exceptions import InvalidAromaticRing
        ck, cs = self.ck, self.cs
        self.i += 1
        i = self.i
        if renumbered and kind in ('six', 'six-special', 'five', 'quinoid') and ck.tier == 'quick' and (i // 2) % 2:
            cs = NoCases()      # every second renumbered generated single ring: real-code oracles only (Coq volume of the quick tier)
        tag = f'{kind}{"/renumbered" if renumbered else ""}'
        is_sdf = kind == 'arenes.sdf'
        smi = label
        load = f'm=smiles({smi!r})'
        defs, cases = [], []
        aromatic_input = has_arom(m0)
        dom, why, rdinfo = domain(str(m0) if is_sdf else label)
        if is_sdf:
            rdinfo = None        # atom order of the SDF record and of the string differ
        if not renumbered:
            ck.count(f'domain:{why}')
        ck.count(f'input:{kind}:{"aromatic" if aromatic_input else "kekule"}' + ('/renumbered' if renumbered else ''))

        def code_of(body):
            return None if is_sdf else f'{load}; {body}'

        # ---- stage 0: rule based repair of mis-drawn rings (part of kekule(); outside the relation, counted)
        pre = m0.copy()
        try:
            fixed = pre._Kekule__fix_rings()
        except Exception as e:
            self.bad(True, f'kekule-crash:{type(e).__name__}:{smi}', f'__fix_rings raises {type(e).__name__}', label, repr(e), 'no exception', 'exception class',
                     code_of('m.kekule()'))
            return None
        if fixed:
            ck.count('rule-repaired-input (relation applied after __fix_rings)')
            s0, s1 = snap(m0), snap(pre)
            if [x[:3] for x in s0[0]] != [x[:3] for x in s1[0]] or sum(x[3] for x in s0[0]) != sum(x[3] for x in s1[0]) or \
                    [(n, [k for k, _ in nb]) for n, nb in s0[1]] != [(n, [k for k, _ in nb]) for n, nb in s1[1]]:
                self.bad(True, f'fix-rings-changes-molecule:{smi}', '__fix_rings changed atoms, total charge or connectivity', label, s1, s0,
                         'atoms / total charge / neighbour sets before and after', code_of('m.kekule(); print(m)'))
        before = pre
        defs.append(f'Definition g{i} := {mol_t(before)}.\nDefinition r{i} : list (list Z) := {sssr_t(before)}.')

        # ---- stage 1: __prepare_rings correspondence on the whole molecule
        p = before.copy()
        misdrawn = False
        try:
            rings, pyr, db = p._Kekule__prepare_rings()
            rt = lst([tup(zraw(n), lst(ms, zraw)) for n, ms in rings.items()])
            cases.append((f'prep_eqb (prepare_rings g{i} r{i}) {rt} {lst(sorted(pyr), zraw)} {lst(sorted(db), zraw)}', ('prepare_rings', label, list(m0._atoms)), 'prep'))
            misdrawn = any(int(before._bonds[n][k]) != 4 for n, ms in rings.items() for k in ms)
            prep_raises = False
        except InvalidAromaticRing:
            cases.append((f'prep_raises (prepare_rings g{i} r{i})', ('prepare_rings raises', label, list(m0._atoms)), 'prep'))
            prep_raises = True
        ck.case(('prep', tag, label), nontrivial=aromatic_input and not prep_raises)
        if not prep_raises and rings and (full or kind in ('curated', 'malformed', 'arenes.sdf')):
            comps = self.component_cases(before, label, m0, cases)
            # the hypotheses of Proofs.KekulePrep.kekule_prepare_chain (simple symmetric molecule graph, every SSSR ring inside
            # the aromatic atoms has aromatic bonds only, no bond reset, the components split the skeleton, every component
            # well formed) hold exactly when the aromatic bonds of the input are the bonds of the skeleton: then "kekule()
            # output is accepted by kekule_rel_core" is the theorem, not only the per-output case below (that the molecule is
            # `drawn` as rings / double_bonded / pyrroles say is proved from the model of __prepare_rings)
            arom = {frozenset((n, k_)) for n, nb in before._bonds.items() for k_, bd in nb.items() if int(bd) == 4}
            skel = {frozenset((n, k_)) for n, ms in rings.items() for k_ in ms}
            well = arom == skel and all(component_wf(R, d_, p_) for R, d_, _, p_ in comps)
            split_bad = sorted(n for R, *_ in comps for n in R) != sorted(rings) or \
                any(R[n] != rings[n] for R, *_ in comps for n in R if n in rings) or \
                any(set(d_) != set(db) & set(R) or set(p_) != set(pyr) & set(R) for R, d_, _, p_ in comps)
            if split_bad:
                self.bad(True, f'kekule-components:{smi}', '__kekule_full does not pass every skeleton atom to exactly one _kekule_component call with its rows and the two sets restricted to it',
                         label, [(sorted(R), sorted(d_), sorted(p_)) for R, d_, _, p_ in comps], [sorted(rings), sorted(db), sorted(pyr)], 'partition of the skeleton', code_of('m.kekule()'))
            ct = lst([tup(lst([tup(zraw(n), lst(ms, zraw)) for n, ms in R.items()]), lst(sorted(d_), zraw), lst(sorted(p_), zraw)) for R, d_, _, p_ in comps])
            cases.append((f'Bool.eqb (match prepare_rings g{i} r{i} with Ok p => chain_hyp2 g{i} r{i} p {ct} | Err _ => false end) {b(well)}',
                          ('kekule_prepare_chain hypotheses', label, list(m0._atoms)), 'prep'))
            ck.case(('chain', tag, label), nontrivial=well)
            ck.count('kekule_chain: hypotheses ' + ('hold (acceptance of the kekule() output is a theorem)' if well else 'do not hold (mis-drawn input: per-output check only)'))
        if misdrawn:
            ck.count('mis-drawn ring repaired by __prepare_rings (relation applied to Model.repair of the input)')

        # ---- stage 2: kekule()
        k = m0.copy()
        warm(k)
        try:
            ret = k.kekule()
        except InvalidAromaticRing:
            ck.count(f'kekule:InvalidAromaticRing:{kind}' + (':inside-domain' if dom else ''))
            if dom and aromatic_input and kind in ('curated', 'lipophilicity', 'heterocycles_charges.smi', 'arenes.sdf'):
                # hand-picked and corpus molecules that RDKit kekulizes and whose RDKit Kekule spelling chython's own valence
                # rules accept: a refusal is a lost molecule (generated exotic rings are only counted)
                self.bad(True, f'kekule-refuses:{smi}', 'kekule() raises InvalidAromaticRing on a ring system that has a valence-clean Kekule form (RDKit\'s)', label,
                         'InvalidAromaticRing', 'a Kekule form', 'RDKit Kekulize + chython valence rules on its spelling', code_of('m.kekule()'))
            if prep_raises:
                cases.append((f'driver_raises g{i} r{i}', ('driver raises', label, list(m0._atoms)), 'prep'))
            cs.add(defs, cases)
            return None
        except Exception as e:
            self.bad(True, f'kekule-crash:{type(e).__name__}:{smi}', f'kekule() raises {type(e).__name__}', label, repr(e), 'a Kekule form or InvalidAromaticRing',
                     'exception class', code_of('m.kekule()'))
            cs.add(defs, cases)
            return None
        if prep_raises:
            self.bad(True, f'kekule-after-prepare-raise:{smi}', '__prepare_rings raises but kekule() returned', label, ret, 'InvalidAromaticRing', 'control flow',
                     code_of('print(m.kekule())'))
        ck.count(f'kekule:returned-{ret}')
        stale = stale_views(k)
        if stale:
            self.bad(True, f'kekule-stale-cache:{stale[0]}', f'after kekule() the cached view {stale[0]} is not that of the converted molecule', label, stale[1], stale[2],
                     'the same view of a fresh copy (rebuilt cache)', code_of('str(m); m.sssr; m.kekule(); print(str(m), str(m.copy()))'))
        defs.append(f'Definition k{i} := {mol_t(k)}.')
        src = f'(repair g{i} r{i})' if misdrawn else f'g{i}'
        code = code_of('h0=[a.implicit_hydrogens for _,a in m.atoms()]; m.kekule(); print(m, h0, [a.implicit_hydrogens for _,a in m.atoms()], m.check_valence())')

        # ---- search: the Kekule result is the same molecule, clean and stable (oracles independent of the model)
        s0, s1 = snap(before), snap(k)
        if [x[:5] for x in s0[0]] != [x[:5] for x in s1[0]] or [(n, [q for q, _ in nb]) for n, nb in s0[1]] != [(n, [q for q, _ in nb]) for n, nb in s1[1]]:
            self.bad(True, f'kekule-changes-molecule:{smi}', 'kekule() changed atoms, isotopes, charges, radicals or connectivity', label, s1, s0, 'snapshot comparison', code)
        for (n, nb0), (_, nb1) in zip(s0[1], s1[1]):
            for (q, o0), (_, o1) in zip(nb0, nb1):
                if o0 != o1 and not (o0 == 4 and o1 in (1, 2)) and not (misdrawn and o1 in (1, 2)):
                    self.bad(True, f'kekule-rewrites-non-aromatic-bond:{smi}', f'kekule() changed the order of bond {n}-{q} from {o0} to {o1}', label, o1, o0,
                             'bond orders before / after', code)
        orders = {o for _, nb in s1[1] for _, o in nb}
        if not orders <= {1, 2, 3, 8}:
            self.bad(True, f'kekule-orders:{smi}', 'Kekule result has a bond order outside 1,2,3 (8 = coordinate)', label, sorted(orders), '1,2,3', 'bond orders', code)
        ve_before = set(m0.check_valence()) if not aromatic_input else {n for n, a in m0._atoms.items()
                                                                       if a.implicit_hydrogens is None and not any(int(bd) == 4 for bd in m0._bonds[n].values())}
        ve = set(k.check_valence()) - ve_before
        self.report_valence(before, k, ve, ve_before, dom, label, code)
        hchg = self.h_changes('kekule', before, k, label, code, dom)
        cases.append((f'kekule_rel_x {b(bool(hchg))} {b(bool(ve))} {src} k{i}', ('kekule_rel', 'kekule()', label, list(m0._atoms)), ('kekule', label, code)))
        ck.case(('kekule', tag, label), nontrivial=aromatic_input)
        k2 = k.copy()
        try:
            r2 = k2.kekule()
        except InvalidAromaticRing as e:
            r2 = repr(e)
        if r2 or snap(k2) != snap(k):
            self.bad(True, f'kekule-twice:{smi}', 'second kekule() changes the molecule / reports a conversion', label, [r2, str(k2)], [False, str(k)],
                     'snapshot equality', code_of('m.kekule(); print(m); print(m.kekule(), m)'))
        if rdinfo is not None and aromatic_input and not renumbered and not misdrawn and not fixed and not ve and not hchg:
            self.rdkit_compare(label, before, k, rdinfo, code, fixed)

        # driver model given the real search result
        if full:
            if aromatic_input and has_arom(before):
                try:
                    form = next(before.copy()._Kekule__kekule_full(7), None)
                except InvalidAromaticRing:
                    form = None
                if form:
                    touched = list(dict.fromkeys(x for n, m_, _ in form for x in (n, m_)))
                    hs = lst([tup(zraw(n), opt(k._atoms[n].implicit_hydrogens, zraw)) for n in touched])
                    ft = lst([f'T {zraw(n)} {zraw(m_)} {o}' for n, m_, o in form])
                    cases.append((f'driver_ok g{i} r{i} {ft} {hs} {b(ret)} k{i}', ('driver', label, list(m0._atoms)), 'prep'))
            elif not has_arom(before):
                cases.append((f'driver_ok g{i} r{i} [] [] false g{i}', ('driver no-op', label, list(m0._atoms)), 'prep'))
                if snap(k) != snap(before):
                    self.bad(True, f'kekule-noop:{smi}', 'kekule() changed a molecule without aromatic bonds', label, snap(k), snap(before), 'snapshot equality', code)

        # ---- stage 3: thiele() of the Kekule form
        a = k.copy()
        warm(a)
        try:
            rt_ = a.thiele()
        except Exception as e:
            self.bad(True, f'thiele-crash:{type(e).__name__}:{smi}', f'thiele() raises {type(e).__name__}', label, repr(e), 'an aromatic form', 'exception class',
                     code_of('m.kekule(); m.thiele()'))
            cs.add(defs, cases)
            return None
        ck.count(f'thiele:returned-{rt_}')
        stale = stale_views(a)
        if stale:
            self.bad(True, f'thiele-stale-cache:{stale[0]}', f'after thiele() the cached view {stale[0]} is not that of the converted molecule', label, stale[1], stale[2],
                     'the same view of a fresh copy (rebuilt cache)', code_of('m.kekule(); str(m); m.sssr; m.thiele(); print(str(m), str(m.copy()))'))
        coq_thiele = full or kind in ('curated', 'malformed', 'arenes.sdf')     # renumbered bulk inputs: Kekule side only (Coq volume)
        if coq_thiele:
            defs.append(f'Definition a{i} := {mol_t(a)}.')
            # the algorithm-level model of thiele(fix_tautomers=False) on the same Kekule form
            try:
                tdef, tcase, tf, tret, treached, tfreaks = thiele_case(k, f'k{i}', f'tr{i}', i)
                defs.append(f'Definition tr{i} : list (list Z) := {sssr_t(k)}.')
                defs.append(tdef)
                cases.append((tcase, ('thiele model', label, list(m0._atoms)), 'prep'))
                ck.case(('thiele model', tag, label), nontrivial=tret)
                ck.count(f'thiele model: returned-{tret}' + (' (freak rings)' if tfreaks else '') + ('' if treached else ' before the ring search'))
                moved = snap(tf) != snap(a)
                if moved:
                    ck.count('thiele: fix_tautomers=True gives another result than fix_tautomers=False')
                if full or moved:
                    # the default thiele() incl. the hydrogen-moving search, on the same Kekule form
                    tdef, tcase, tt, tret, treached, _ = thiele_case(k, f'k{i}', f'tr{i}', i, taut=True)
                    if snap(tt) != snap(a):
                        self.bad(True, f'thiele-not-deterministic:{smi}', 'two runs of thiele() on copies of one molecule differ', label, str(tt), str(a), 'snapshot equality',
                                 code_of('m.kekule(); a=m.copy(); a.thiele(); m.thiele(); print(a, m)'))
                    defs.append(tdef)
                    cases.append((tcase, ('thiele model (fix_tautomers)', label, list(m0._atoms)), 'prep'))
                    ck.case(('thiele model t', tag, label), nontrivial=moved)
                    ck.count('thiele model (fix_tautomers=True): ' + ('hydrogen moved' if moved else 'nothing to move'))
            except Exception as e:
                self.bad(True, f'thiele-crash:{type(e).__name__}:{smi}', f'thiele(fix_tautomers=False) raises {type(e).__name__}', label, repr(e), 'an aromatic form',
                         'exception class', code_of('m.kekule(); m.thiele(fix_tautomers=False)'))
        tcode = code_of('m.kekule(); h0=[a.implicit_hydrogens for _,a in m.atoms()]; print(m); m.thiele(); print(m, h0, [a.implicit_hydrogens for _,a in m.atoms()])')
        s0, s1 = snap(k), snap(a)
        if [x[:5] for x in s0[0]] != [x[:5] for x in s1[0]] or [(n, [q for q, _ in nb]) for n, nb in s0[1]] != [(n, [q for q, _ in nb]) for n, nb in s1[1]]:
            self.bad(True, f'thiele-changes-molecule:{smi}', 'thiele() changed atoms, isotopes, charges, radicals or connectivity', label, s1, s0, 'snapshot comparison', tcode)
        thchg = self.h_changes('thiele', k, a, label, tcode, True)
        sat = sorted(n for n in saturated_carbons(k) if any(int(bd) == 4 for bd in a._bonds[n].values()))
        if sat:
            self.bad(True, f'thiele-aromatises-saturated-carbon:{smi}', f'thiele() writes aromatic bonds at the saturated carbon(s) {sat} (four single bonds, hydrogens included)',
                     label, str(a), str(k), 'no aromatic bond at a neutral carbon with four single bonds', tcode, {'atoms': sat})
        if not thchg:
            # bond level: thiele() only writes aromatic bonds; the one exception is the biphenylene reset (a bond of an all-sp2
            # four-membered ring between atoms that are aromatic in the result becomes single).  (With a moved hydrogen the
            # search re-writes single / double bonds along its path: that is the recorded finding.)
            arom_atoms = {n for n, nb in a._bonds.items() if any(int(bd) == 4 for bd in nb.values())}
            for n, nb in k._bonds.items():
                for q, bd in nb.items():
                    o0, o1 = int(bd), int(a._bonds[n][q])
                    if n < q and o0 != o1 and o1 != 4 and not (o0 == 2 and o1 == 1 and n in arom_atoms and q in arom_atoms):
                        self.bad(True, f'thiele-rewrites-non-aromatic-bond:{smi}', f'thiele() changed the order of bond {n}-{q} from {o0} to {o1} (not to aromatic, and not '
                                 'a bond between two aromatic atoms)', label, str(a), str(k), 'bond orders before / after', tcode)
        if coq_thiele:
            cases.append((f'{"thiele_rel_noh" if thchg else "thiele_rel"} k{i} a{i}', ('thiele_rel', 'thiele()', label, list(m0._atoms)), ('thiele', label, tcode)))
        ck.case(('thiele', tag, label), nontrivial=has_arom(a))
        a2 = a.copy()
        a2.thiele()
        if snap(a2) != snap(a):
            self.bad(True, f'thiele-twice:{smi}', 'second thiele() changes the molecule', label, str(a2), str(a), 'snapshot equality',
                     code_of('m.kekule(); m.thiele(); print(m); m.thiele(); print(m)'))
        sa = str(a)
        clean = dom and not ve and not hchg
        # rings kekule() accepts as aromatic but thiele() does not aromatise again (P(V), Se, 7-rings ...): there the
        # comparisons of aromatic forms are about Kekule structures; disagreements are reported under one key per culprit
        refused = [n for n in m0._atoms if any(int(bd) == 4 for bd in before._bonds[n].values()) and not any(int(bd) == 4 for bd in a._bonds[n].values())]
        four = unsaturated_4ring(a) or unsaturated_4ring(k)
        why_not = None
        if refused:
            # by the mechanism in Thiele.thiele: (i) an element outside its first filter (C N O S B P); (ii) a ring atom with
            # more than three neighbours; anything else is not a recorded mechanism
            foreign = sorted({before._atoms[n].atomic_number for n in refused} - {5, 6, 7, 8, 15, 16})
            crowded = sorted({before._atoms[n].atomic_symbol for n in refused if before._atoms[n].neighbors > 3})
            if foreign:
                why_not = 'not-rearomatised:' + next(at.atomic_symbol for at in before._atoms.values() if at.atomic_number == foreign[-1])
            elif crowded:
                why_not = f'not-rearomatised:more-than-three-neighbours:{crowded[-1]}'
            else:
                why_not = f'not-rearomatised:other:{label}'
        self.why_not = why_not
        # fixpoint of thiele . kekule
        x = a.copy()
        kx = None
        try:
            x.kekule()
            kx = x.copy()
            x.thiele()
            vre = {n for n in kx.check_valence() if a._atoms[n].implicit_hydrogens is not None}
            if vre and clean:
                # the second kekule() picked a form with a valence error although the first one was clean: the valence mechanism
                self.report_valence(a, kx, vre, set(), True, label, code_of('m.kekule(); m.thiele(); print(m); m.kekule(); print(m, m.check_valence())'))
                clean = False
            if snap(x) != snap(a):
                self.cmp_bad(clean, why_not, four, f'thiele-kekule-fixpoint:{smi}', 'thiele(kekule(A)) differs from the aromatic form A = thiele(kekule(m))', label, str(x), sa,
                             'snapshot equality', code_of('m.kekule(); m.thiele(); print(m); m.kekule(); m.thiele(); print(m)'))
            # fixpoint of kekule . thiele on the Kekule side
            y = kx.copy()
            y.thiele()
            y.kekule()
            if snap(y) != snap(kx):
                self.cmp_bad(clean, why_not, four, f'kekule-thiele-fixpoint:{smi}', 'kekule(thiele(K)) differs from K = kekule(thiele(kekule(m)))', label, str(y), str(kx),
                             'snapshot equality', code_of('m.kekule(); m.thiele(); m.kekule(); print(m); m.thiele(); m.kekule(); print(m)'))
        except InvalidAromaticRing as e:
            self.bad(clean, f'rekekule-raises:{smi}', 'kekule() raises on the aromatic form produced by thiele()', label, repr(e), 'a Kekule form',
                     'exception', code_of('m.kekule(); m.thiele(); print(m); m.kekule()'))
        if full and has_arom(a) and kx is not None:
            # the aromatic form made by thiele() goes back through kekule() and the checker (all hydrogens are known here)
            defs.append(f'Definition j{i} := {mol_t(kx)}.')
            hx = [n for n, at in a._atoms.items() if at.implicit_hydrogens is not None and kx._atoms[n].implicit_hydrogens != at.implicit_hydrogens]
            vx = [n for n in kx.check_valence() if a._atoms[n].implicit_hydrogens is not None]
            if clean and (hx or vx):
                self.bad(True, f'rekekule-changes-H:{smi}', 'kekule() of the aromatic form produced by thiele() changes hydrogen counts / leaves a valence error', label,
                         {'H changed': hx, 'valence errors': vx}, 'none', 'hydrogen counts before / after', code_of('m.kekule(); m.thiele(); print(m); m.kekule(); print(m)'))
            cases.append((f'kekule_rel_x {b(bool(hx))} {b(bool(vx) or bool(ve))} {self.repaired(a, f"a{i}", f"r{i}")} j{i}',
                          ('kekule_rel', 'kekule() of thiele() output', label, list(m0._atoms)),
                          ('kekule', label, code_of('m.kekule(); m.thiele(); print(m); m.kekule(); print(m)'))))

        # ---- enumerate_kekule(): every form through the checker; all aromatise to one string
        if full or renumbered:
            if has_arom(a):
                self.forms(i, 'A', a, self.repaired(a, f'a{i}', f'r{i}'), a, sa, label, clean, full, defs, cases, tag, code_of, 'm.kekule(); m.thiele(); ', k, why_not)
            if aromatic_input and full:
                self.forms(i, 'M', m0, src, before, sa, label, clean, full, defs, cases, tag, code_of, '', k, why_not)
        cs.add(defs, cases)
        return a, k, clean, why_not, four

    def component_cases(self, before, label, m0, cases, k_yields=4):
        """correspondence for the search itself: the arguments the real __kekule_full passes to _kekule_component are
        recorded, the real generator is run on them (first k_yields results, with and without the pyridine buffer) and
        compared with Model.Kekule.kekule_component"""
        import chython.algorithms.aromatics.kekule as km
        from chython.exceptions import InvalidAromaticRing
        rec = []
        orig = km._kekule_component

        def recorder(rings, db, pyr, bs):
            rec.append(({n: list(ms) for n, ms in rings.items()}, list(db), next(iter(db)) if db else 0, list(pyr)))
            return orig(rings, db, pyr, bs)
        km._kekule_component = recorder
        try:
            try:
                next(before.copy()._Kekule__kekule_full(7), None)
            except InvalidAromaticRing:
                pass
        finally:
            km._kekule_component = orig
        for rings, dbl, dbs, pyr in rec:
            size = sum(len(ms) for ms in rings.values()) // 2
            for bs in ((7, 0) if size <= 26 else (7,)):
                db2 = set(dbl)
                if dbl and next(iter(db2)) != dbs:
                    self.ck.count('search: set iteration order not reproducible (skipped)')
                    continue
                raised = False
                try:
                    ys = list(itertools.islice(orig({n: list(ms) for n, ms in rings.items()}, db2, set(pyr), bs), k_yields))
                except InvalidAromaticRing:
                    ys, raised = [], True
                except Exception as e:
                    self.bad(True, f'kekule-crash:{type(e).__name__}:{label}', f'_kekule_component raises {type(e).__name__}', label, repr(e), 'forms or InvalidAromaticRing',
                             'exception class', None)
                    continue
                verdicts = [form_unsound(rings, set(dbl), set(pyr), y) for y in ys]
                for y, v in zip(ys, verdicts):
                    if v:
                        report_unsound(self.ck, rings, dbl, pyr, bs, y, v, label)
                cases.append((kc_case(rings, dbl, dbs, pyr, bs, k_yields, ys, raised, verdicts), ('search', label, list(m0._atoms), bs), 'prep'))
                if bs == 7:
                    if self.traced % (4 if self.ck.tier == 'quick' else 2) == 0:
                        snaps = trace_component(rings, dbl, dbs, pyr, bs, k_yields, 12 if self.ck.tier == 'quick' else 24)
                        if snaps:
                            cases.append((trace_case(rings, dbl, dbs, pyr, bs, snaps), ('search trace', label, list(m0._atoms), bs), 'prep'))
                            self.ck.case(('search trace', label, tuple(m0._atoms), tuple(rings)), nontrivial=len(snaps) > 1)
                            self.ck.count('search trace: iterations of `while stack:` compared state by state', len(snaps))
                    self.traced += 1
                self.ck.case(('search', label, tuple(m0._atoms), bs, tuple(rings)), nontrivial=bool(ys))
                self.ck.count('search: component ' + ('satisfies' if component_wf(rings, dbl, pyr) else 'does not satisfy') + ' the hypotheses of kekule_component_sound')
                self.ck.count(f'search: buffer={bs}: {"InvalidAromaticRing" if raised else str(len(ys)) + " form(s) compared"}')
        return rec

    def report_valence(self, src, res, ve, ve_before, dom, label, code):
        """valence errors of a Kekule result `res` of `src`, keyed by mechanism"""
        from chython.exceptions import InvalidAromaticRing
        if not ve:
            return
        other_clean = False
        rings, pyr = {}, set()
        if dom:
            # mechanism: kekule() returns the first form of the search without consulting the valence rules; is another
            # enumerated form (same given hydrogens) valence-clean on the ring atoms?
            try:
                rings, pyr, _ = src.copy()._Kekule__prepare_rings()
                for f in itertools.islice(src.copy().enumerate_kekule(), 48):
                    if not (set(f.check_valence()) - ve_before) and all(at.implicit_hydrogens is None or f._atoms[q].implicit_hydrogens == at.implicit_hydrogens
                                                                         for q, at in src._atoms.items()):
                        other_clean = True
                        break
            except InvalidAromaticRing:
                pass
        for n in sorted(ve):
            a = src._atoms[n]
            if dom and n in pyr and any(int(bd) == 2 and q in rings.get(n, ()) for q, bd in res._bonds[n].items()):
                key = f'kekule-valence-error:pyrroles-class-atom-given-a-ring-double-bond:{a.atomic_symbol}{a.charge:+d}:neighbors={a.neighbors}'
                what = (f'__prepare_rings puts ring {a.atomic_symbol} (charge {a.charge:+d}, {a.neighbors} neighbours) into `pyrroles` (double bond or not), the search gives '
                        'it a ring double bond and the valence rules reject that: kekule() returns a form with a valence error')
            elif dom and other_clean:
                key = f'kekule-valence-error:another-enumerated-form-is-clean:{a.atomic_symbol}{a.charge:+d}'
                what = (f'kekule() returns a form that leaves ring {a.atomic_symbol} (charge {a.charge:+d}, {a.neighbors} neighbours) with a valence error although another '
                        'form of enumerate_kekule() is valence-clean (kekule() takes the first form of the search, the valence rules are not consulted)')
            else:
                key = f'kekule-valence-error:no-clean-form:{atom_state(a)}'
                what = (f'kekule() accepts a ring {a.atomic_symbol} (charge {a.charge:+d}, radical {a.is_radical}, {a.neighbors} neighbours) and leaves it with a valence '
                        'error in every enumerated form although a valence-clean Kekule form exists (RDKit\'s)')
            self.bad(dom, key, what, label, 'check_valence() lists the atom', 'no valence error', 'check_valence() of the Kekule result', code, {'atom': n})

    def repaired(self, m, name, rname):
        """the Coq term of the molecule the relation starts from: rings __prepare_rings completes (single / double bonds
        inside an aromatic skeleton, e.g. the four-membered ring of biphenylene) are written aromatic first"""
        from chython.exceptions import InvalidAromaticRing
        try:
            rings, _, _ = m.copy()._Kekule__prepare_rings()
        except InvalidAromaticRing:
            return name
        return f'(repair {name} {rname})' if any(int(m._bonds[n][q]) != 4 for n, ms in rings.items() for q in ms) else name

    def cmp_bad(self, clean, why_not, four, key, what, label, observed, expected, oracle, code, extra=None):
        """a disagreement between aromatic forms: under the key of the recorded gap it follows from, if any"""
        if four:
            key, what = 'aromatic-form-not-unique:unsaturated-4-ring-system', what + ' (ring system with an unsaturated four-membered ring, biphenylene type)'
        elif why_not:
            key, what = why_not, what + ' (kekule() accepts the ring as aromatic, thiele() does not aromatise it again: ring atom ' + why_not.split(':', 1)[1] + ')'
        self.bad(clean, key, what, label, observed, expected, oracle, code, extra)

    def forms(self, i, which, src_m, src_name, rel_src, sa, label, clean, full, defs, cases, tag, code_of, prep_code, k, why_not):
        """which = 'A': forms of the aromatic form thiele(kekule(m)) (every hydrogen count known);
           which = 'M': forms of the input as given (ring hetero atoms may have unknown hydrogen counts)"""
        from chython.exceptions import InvalidAromaticRing
        ck = self.ck
        excluded = unsaturated_4ring(src_m)
        fcode = code_of(prep_code + 'print(m)\nfor f in m.enumerate_kekule():\n    t=f.copy(); t.thiele(); print(f, t, [a.implicit_hydrogens for _,a in f.atoms()])')
        try:
            forms = list(itertools.islice(src_m.copy().enumerate_kekule(), 48))
        except InvalidAromaticRing as e:
            self.bad(clean, f'enumerate-raises:{label}', 'enumerate_kekule() raises although kekule() succeeded', label, repr(e), 'forms', 'exception', fcode)
            return
        self.forms_total += len(forms)
        if which == 'A':
            # history: the consumer converts every form IN PLACE as soon as it is yielded, while the generator is suspended; the forms
            # are independent objects, so the sequence must be the one obtained by listing first
            inter = []
            try:
                for f in itertools.islice(src_m.copy().enumerate_kekule(), 48):
                    inter.append(snap(f))
                    f.thiele()
            except Exception as e:
                inter.append(repr(e))
            if inter != [snap(f) for f in forms]:
                self.bad(True, f'enumerate-kekule-interleaved:{label}', 'enumerate_kekule() yields other forms when every yielded form is aromatised in place before the next is '
                         'requested than when the forms are listed first (the yielded molecules are not independent of the suspended generator)', label,
                         {'interleaved': len(inter), 'first difference': next((j for j, (x, y) in enumerate(zip(inter, [snap(f) for f in forms])) if x != y), min(len(inter), len(forms)))},
                         {'listed first': len(forms)}, 'the same enumeration listed before any form is touched',
                         code_of(prep_code + 'a=[str(f) for f in m.enumerate_kekule()]\nb=[]\nfor f in m.enumerate_kekule():\n    b.append(str(f)); f.thiele()\nprint(a==b, a, b)'))
            ck.count('enumerate_kekule: interleaved consumption compared')
        ck.count(f'forms-per-molecule({which})={min(len(forms), 8)}{"+" if len(forms) >= 8 else ""}')
        hk = [at.implicit_hydrogens for _, at in k.atoms()]
        seen = set()
        strs = set()
        n_cases = 0
        for f in forms:
            sf = snap(f)
            if sf in seen:
                ck.count('enumerate_kekule: duplicate form')
                continue
            seen.add(sf)
            hf = [at.implicit_hydrogens for _, at in f.atoms()]
            other_reading = which == 'M' and hf != hk
            if other_reading:
                # a ring atom whose hydrogen count the input leaves unknown is read with another count than kekule() chose
                ck.count('enumerate_kekule(input): form with other hydrogen counts than kekule()')
                for (n, at), h1, h2 in zip(src_m.atoms(), hk, hf):
                    if h1 != h2 and at.implicit_hydrogens is None:
                        self.bad(clean, f'enumerate-kekule-other-H:{at.atomic_symbol}', 'enumerate_kekule() of an aromatic ring whose hetero atom has no stated hydrogen '
                                 f'count (bare aromatic {at.atomic_symbol.lower()}) also yields forms with another hydrogen count on it than kekule() sets '
                                 '(another molecule, another formula)', label, {'form': str(f), 'H': hf}, {'kekule()': str(k), 'H': hk},
                                 'hydrogen counts of each enumerated form against those of kekule()', fcode, {'atom': n})
                    elif at.implicit_hydrogens is not None and at.implicit_hydrogens != h2 and h2 is not None:
                        self.bad(clean, f'kekule-changes-given-H:{at.atomic_symbol}{at.charge:+d}:neighbors={at.neighbors}',
                                 f'kekule() / enumerate_kekule() changes a given hydrogen count: ring {at.atomic_symbol} charge {at.charge:+d} with {at.neighbors} neighbours '
                                 f'{at.implicit_hydrogens} -> {h2} H', label,
                                 {'form': str(f), 'H': hf}, {'kekule()': str(k), 'H': hk}, 'hydrogen counts of each enumerated form', fcode, {'atom': n})
            if which == 'A':
                # every hydrogen count of the aromatic form is known: an enumerated form that changes one is another molecule
                for (n, at), h2 in zip(src_m.atoms(), hf):
                    if at.implicit_hydrogens is not None and h2 is not None and at.implicit_hydrogens != h2:
                        self.bad(clean, f'kekule-changes-given-H:{at.atomic_symbol}{at.charge:+d}:neighbors={at.neighbors}',
                                 f'kekule() / enumerate_kekule() changes a given hydrogen count: ring {at.atomic_symbol} charge {at.charge:+d} with {at.neighbors} neighbours '
                                 f'{at.implicit_hydrogens} -> {h2} H', label,
                                 {'form': str(f), 'H': hf}, {'source': str(src_m), 'H': [x.implicit_hydrogens for _, x in src_m.atoms()]},
                                 'hydrogen counts of each enumerated form against the given ones', fcode, {'atom': n})
            if n_cases < (4 if full else 1 if tag.split('/')[0] in ('curated', 'malformed', 'arenes.sdf') else 0):
                n_cases += 1
                j = f'{which}{n_cases}'
                defs.append(f'Definition f{i}_{j} := {mol_t(f)}.')
                hx = any(at.implicit_hydrogens is not None and f._atoms[n].implicit_hydrogens != at.implicit_hydrogens for n, at in rel_src._atoms.items())
                vx = any(rel_src._atoms[n].implicit_hydrogens is not None or any(int(bd) == 4 for bd in rel_src._bonds[n].values()) for n in f.check_valence())
                cases.append((f'kekule_rel_x {b(hx)} {b(vx)} {src_name} f{i}_{j}', ('kekule_rel', f'enumerate_kekule({which}) form {n_cases}', label, list(src_m._atoms)),
                              ('kekule', label, fcode)))
            if not other_reading:
                t = f.copy()
                t.thiele()
                strs.add(str(t))
        ck.case(('forms', which, tag, label), nontrivial=len(seen) > 1)
        if excluded:
            self.excluded_4ring += 1
            if not all(same_structure(x, sa) for x in strs):
                self.excluded_4ring_inconsistent += 1
        elif strs and not all(same_structure(x, sa) for x in strs):
            self.cmp_bad(clean, why_not, False, f'forms-aromatise-differently:{label}', 'the enumerated Kekule forms do not all aromatise to the aromatic form of the molecule',
                         label, sorted(strs), sa, 'canonical strings of thiele() of every enumerate_kekule() form', fcode)

    def h_changes(self, which, g0, g1, label, code, dom):
        """hydrogen counts that were given and changed are reported one by one (stable key per atom state); the rest of the
        relation is still checked by Coq.  A change this comparison misses is caught by the Coq clause kr_h / tr_h."""
        changed = [(n, a0, g1._atoms[n]) for n, a0 in g0._atoms.items()
                   if a0.implicit_hydrogens is not None and g1._atoms[n].implicit_hydrogens != a0.implicit_hydrogens]
        for n, a0, a1 in changed:
            if which == 'kekule':
                if a1.implicit_hydrogens is None:
                    continue        # that is the valence error, reported under its own key
                key = f'kekule-changes-given-H:{a0.atomic_symbol}{a0.charge:+d}:neighbors={a0.neighbors}'
                what = (f'kekule() / enumerate_kekule() changes a given hydrogen count: ring {a0.atomic_symbol} charge {a0.charge:+d} with {a0.neighbors} neighbours '
                        f'{a0.implicit_hydrogens} -> {a1.implicit_hydrogens} H')
            else:
                key = f'thiele-moves-H:{a0.atomic_symbol}{a0.charge:+d}:{a0.implicit_hydrogens}->{a1.implicit_hydrogens}'
                what = (f'thiele(fix_tautomers=True) moves a hydrogen: ring {a0.atomic_symbol} {a0.implicit_hydrogens} -> {a1.implicit_hydrogens} H '
                        '(per-atom hydrogen counts are not preserved; the total is)')
            self.ck.count(f'{which}: given hydrogen count changed')
            self.bad(dom, key, what, label, a1.implicit_hydrogens, a0.implicit_hydrogens, 'per-atom hydrogen counts before / after', code, {'atom': n})
        if which == 'thiele' and changed:
            h0 = sum(a.implicit_hydrogens or 0 for _, a in g0.atoms())
            h1 = sum(a.implicit_hydrogens or 0 for _, a in g1.atoms())
            if h0 != h1:
                self.bad(True, f'thiele-changes-total-H:{label}', 'thiele() changes the total hydrogen count', label, h1, h0, 'sum of hydrogen counts', code)
        return changed

    def rdkit_compare(self, label, before, k, rdinfo, code, fixed):
        """RDKit kekulization of the same SMILES: per-atom hydrogen count and number of double bonds (inside the domain)"""
        ck = self.ck
        hs_rd, dbl_rd = rdinfo
        if list(k._atoms) != list(range(1, len(hs_rd) + 1)):
            ck.count('rdkit:not-comparable')
            return
        hs_ch = [a.implicit_hydrogens for _, a in k.atoms()]
        dbl_ch = sum(1 for *_, bd in k.bonds() if int(bd) == 2)
        self.rdkit_compared += 1
        ck.case(('rdkit', label), nontrivial=True)
        diff = [(n, h1, h2) for (n, _), h1, h2 in zip(k.atoms(), hs_ch, hs_rd) if h1 != h2]
        for n, h1, h2 in diff:
            a = before._atoms[n]
            if h1 is None:
                continue      # the valence error, reported under its own key
            ck.counterexample(f'rdkit-kekule-H:{atom_state(a)}:{h2}->{h1}', f'the Kekule form gives ring {a.atomic_symbol} (charge {a.charge:+d}, {a.neighbors} neighbours) '
                              f'{h1} H where RDKit (and chython itself on RDKit\'s Kekule spelling) has {h2}', {'input': label, 'atom': n}, {'H': hs_ch, 'double': dbl_ch},
                              {'H': hs_rd, 'double': dbl_rd}, 'RDKit Kekulize of the same SMILES', replay_py='from chython import smiles\n' + code)
        if not diff and dbl_rd != dbl_ch and not fixed:
            ck.counterexample(f'rdkit-kekule-doubles:{label}', 'Kekule form has another number of double bonds than RDKit\'s', {'input': label}, dbl_ch, dbl_rd,
                              'RDKit Kekulize of the same SMILES', replay_py='from chython import smiles\n' + code)


def renumber(mol, rng):
    """random renumbering (new object) and the mapping old -> new"""
    nums = list(mol._atoms)
    perm = nums[:]
    rng.shuffle(perm)
    new = mol.copy()
    pi = dict(zip(nums, perm))
    new.remap(pi)
    return new, pi


_CANON = {}


def kekule_level_canon(s):
    """RDKit canonical string of a SMILES WITHOUT aromaticity perception (atoms, charges, hydrogens, bond orders as
    written): identity of two structures where chython's canonical strings differ (C01 records tie-breaking gaps)"""
    if s not in _CANON:
        from rdkit import Chem
        try:
            rd = Chem.MolFromSmiles(s, sanitize=False)
            Chem.SanitizeMol(rd, Chem.SANITIZE_ALL ^ Chem.SANITIZE_SETAROMATICITY ^ Chem.SANITIZE_KEKULIZE ^ Chem.SANITIZE_PROPERTIES)
            _CANON[s] = Chem.MolToSmiles(rd)
        except Exception:
            _CANON[s] = None
    return _CANON[s]


def same_structure(s1, s2):
    if s1 == s2:
        return True
    c1, c2 = kekule_level_canon(s1), kekule_level_canon(s2)
    return c1 is not None and c1 == c2


class FreakWrap:
    """a freak_rules query that records (ring scope, matched) of every get_mapping call"""
    def __init__(self, q, log):
        self.q, self.log = q, log

    def get_mapping(self, mol, **kw):
        res = list(itertools.islice(self.q.get_mapping(mol, **kw), 1))
        self.log.append((tuple(kw.get('searching_scope') or ()), bool(res)))
        return iter(res)


class RecSet(set):
    """a set that remembers the order in which it was iterated first (the hydrogen-moving search of thiele() walks the skeleton
    sets; their iteration order is an input of the model)"""
    __slots__ = ('first_order',)

    def __iter__(self):
        if not hasattr(self, 'first_order'):
            self.first_order = list(set.__iter__(self))
        return set.__iter__(self)


class RecDefaultDict(dict):
    """stands in for collections.defaultdict(set) inside thiele(): the sets are RecSet, every set ever created is kept"""
    made = None

    def __init__(self, factory=None):
        super().__init__()
        self.all_sets = {}
        RecDefaultDict.made = self

    def __missing__(self, key):
        v = RecSet()
        self[key] = v
        self.all_sets.setdefault(key, v)
        return v


def thiele_case(m, gname, rname, i, taut=False):
    """real thiele(fix_tautomers=taut) on a copy of the Kekule form m with the inputs of Model.Thiele.thiele_model(_t) recorded
    (what _sssr finds in the pruned skeleton, which freak rings match, the iteration orders of the skeleton sets);
    returns (definition, case, result molecule, flags)"""
    import chython.algorithms.aromatics.thiele as tm
    rec, flog = {}, []
    orig_sssr, orig_freaks, orig_dd = tm._sssr, tm.freak_rules, tm.defaultdict

    def rec_sssr(rings, n):
        rec['sk'] = [(k, sorted(v)) for k, v in rings.items()]
        rec['n'] = n
        out = orig_sssr(rings, n)
        rec['rings2'] = [list(r) for r in out]
        return out
    tm._sssr = rec_sssr
    tm.freak_rules = [FreakWrap(q, flog) for q in orig_freaks]
    if taut:
        tm.defaultdict = RecDefaultDict
        RecDefaultDict.made = None
    a = m.copy()
    try:
        ret = a.thiele(fix_tautomers=taut)
    finally:
        tm._sssr, tm.freak_rules, tm.defaultdict = orig_sssr, orig_freaks, orig_dd
    freaks, fok = [], []
    for scope, ok in flog:
        if scope not in freaks:
            freaks.append(scope)
            fok.append(ok)
        elif ok:
            fok[freaks.index(scope)] = True
    reached = 'sk' in rec
    sk = lst([tup(zraw(k), lst(v, zraw)) for k, v in rec.get('sk', [])])
    r2 = lst([lst(r, zraw) for r in rec.get('rings2', [])])
    fr = lst([lst(list(r), zraw) for r in freaks])
    if taut:
        made = RecDefaultDict.made
        ords = lst([tup(zraw(k), lst(getattr(v, 'first_order', sorted(v)), zraw)) for k, v in (made.all_sets.items() if made is not None else [])])
        case = f'tht_ok {gname} {rname} {ords} {r2} {lst(fok, b)} {b(ret)} tt{i} {b(reached)} {sk} {rec.get("n", 0)} {fr}'
        return f'Definition tt{i} := {mol_t(a)}.', case, a, ret, reached, bool(freaks)
    case = f'th_ok {gname} {rname} {r2} {lst(fok, b)} {b(ret)} tf{i} {b(reached)} {sk} {rec.get("n", 0)} {fr}'
    return f'Definition tf{i} := {mol_t(a)}.', case, a, ret, reached, bool(freaks)


_TRACE_LINE = []


def trace_component(rings, dbl, dbs, pyr, bs, k_yields, k_snaps):
    """the real generator, advanced as kc_case advances it, with the locals (stack, path, buffer_size, buffer) recorded every
    time `while stack:` enters its body (first k_snaps iterations); None when the set order is not reproducible"""
    import inspect
    import sys
    import chython.algorithms.aromatics.kekule as km
    from chython.exceptions import InvalidAromaticRing
    fn = km._kekule_component
    if not _TRACE_LINE:
        src, first = inspect.getsourcelines(fn)
        hits = [i for i, line in enumerate(src) if line.strip() == 'atom, prev_atom, bond, _ = stack[-1].pop()']
        if len(hits) != 1:
            raise RuntimeError('first statement of the `while stack:` body of _kekule_component not found')
        _TRACE_LINE.append(first + hits[0])
    code = fn.__code__
    snaps = []

    def local(frame, event, arg):
        if event == 'line' and frame.f_lineno == _TRACE_LINE[0] and len(snaps) < k_snaps:
            loc = frame.f_locals
            snaps.append(([list(x) for x in loc['stack']], list(loc['path']), loc['buffer_size'], len(loc['buffer'])))
        return local

    def tracer(frame, event, arg):
        return local if frame.f_code is code else None
    db2 = set(dbl)
    if dbl and next(iter(db2)) != dbs:
        return None
    old = sys.gettrace()
    sys.settrace(tracer)
    try:
        try:
            list(itertools.islice(fn({n: list(ms) for n, ms in rings.items()}, db2, set(pyr), bs), k_yields))
        except InvalidAromaticRing:
            pass
    finally:
        sys.settrace(old)
    return snaps


def trace_case(rings, dbl, dbs, pyr, bs, snaps):
    rt = lst([tup(zraw(n), lst(ms, zraw)) for n, ms in rings.items()])

    def item(x):
        a, p_, o, c = x
        return f'I {zraw(a)} {zraw(p_)} {o} {"None" if c is None else f"(Some {zraw(c)})"}'
    st = lst([tup(lst([lst([item(x) for x in level]) for level in reversed(stack)]), lst([f'E {zraw(a)} {zraw(p_)} {o}' for a, p_, o in path]), zraw(bsz), zraw(nbuf))
              for stack, path, bsz, nbuf in snaps])
    return f'tr_ok {rt} {lst(dbl, zraw)} {zraw(dbs)} {lst(pyr, zraw)} {bs} {st}'


def kc_case(rings, dbl, dbs, pyr, bs, k_yields, ys, raised, verdicts):
    rt = lst([tup(zraw(n), lst(ms, zraw)) for n, ms in rings.items()])
    yt = lst([lst([f'E {zraw(a)} {zraw(p_)} {o}' for a, p_, o in y]) for y in ys])
    return (f'kc_ok {rt} {lst(dbl, zraw)} {zraw(dbs)} {lst(pyr, zraw)} {bs} {k_yields} {yt} {b(raised)} {lst([b(not v) for v in verdicts])} '
            f'{b(component_wf(rings, dbl, pyr))}')


def component_wf(rings, db, pyr):
    """independent statement of Proofs.KekuleSound.rings_wf2, the hypotheses of kekule_component_sound: simple symmetric
    connected skeleton, two or three neighbours per atom, positive numbers, the two sets disjoint subsets of it"""
    if not rings or any(n <= 0 for n in rings):
        return False
    for n, ms in rings.items():
        if len(set(ms)) != len(ms) or n in ms or len(ms) not in (2, 3) or any(m not in rings or n not in rings[m] for m in ms):
            return False
    seen, todo = set(), [next(iter(rings))]
    while todo:
        x = todo.pop()
        if x not in seen:
            seen.add(x)
            todo.extend(rings[x])
    if seen != set(rings):
        return False
    if len(set(db)) != len(db) or len(set(pyr)) != len(pyr) or not set(db) <= set(rings) or not set(pyr) <= set(rings) or set(db) & set(pyr):
        return False
    return True


def form_unsound(rings, db, pyr, path):
    """independent statement of Model.Kekule.form_sound: None when `path` places every skeleton bond exactly once with order
    1 or 2 and gives double_bonded atoms no, plain atoms exactly one, pyrrole-type atoms at most one double bond"""
    import collections
    bonds = {frozenset((n, m)) for n, ms in rings.items() for m in ms}
    seen = collections.Counter(frozenset((a, p_)) for a, p_, _ in path)
    if set(seen) != bonds or any(v != 1 for v in seen.values()):
        return 'a skeleton bond is placed twice / left out'
    if any(o not in (1, 2) for *_, o in path):
        return 'bond order outside 1, 2'
    d = collections.Counter()
    for a, p_, o in path:
        if o == 2:
            d[a] += 1
            d[p_] += 1
    for n in rings:
        if n in db:
            if d[n]:
                return f'double_bonded atom {n} got a ring double bond'
        elif n in pyr:
            if d[n] > 1:
                return f'pyrrole-type atom {n} got {d[n]} double bonds'
        elif d[n] != 1:
            return f'plain ring atom {n} got {d[n]} double bonds'
    return None


def report_unsound(ck, rings, dbl, pyr, bs, y, why, label):
    """an unsound form of the real search.  Recorded finding: a pyrrole-type atom with three skeleton neighbours"""
    call = f'_kekule_component({rings!r}, {set(dbl)!r}, {set(pyr)!r}, {bs})'
    if any(len(rings[n]) == 3 for n in pyr):
        key = 'search-unsound:pyrrole-type-atom-with-three-ring-neighbours'
    else:
        key = f'search-unsound:{call}'[:200]
    ck.counterexample(key, f'_kekule_component yields a form that is no perfect matching of the atoms that need a double bond ({why})',
                      {'input': label, 'call': call}, {'form': y}, 'every skeleton bond once; one double bond per plain ring atom', 'independent matching checker',
                      replay_py=f'from itertools import islice\nfrom chython.algorithms.aromatics.kekule import _kekule_component\nprint(list(islice({call}, 8)))')


def random_ring_graph(rng, n):
    """connected simple graph with two or three neighbours per node: a cycle plus chords; random insertion orders"""
    order = list(range(1, n + 1))
    rng.shuffle(order)
    adj = {v: [] for v in order}
    for i in range(n):
        a, c = order[i], order[(i + 1) % n]
        adj[a].append(c)
        adj[c].append(a)
    for _ in range(rng.randint(0, n // 2)):
        a, c = rng.sample(order, 2)
        if c not in adj[a] and len(adj[a]) < 3 and len(adj[c]) < 3:
            adj[a].append(c)
            adj[c].append(a)
    return shuffled(rng, adj)


def fused_ring_graph(rng, k):
    """ring system made by fusing k more 5-, 6- or 7-membered rings onto a first one (no small rings)"""
    adj = {}

    def add(a, c):
        adj.setdefault(a, [])
        adj.setdefault(c, [])
        if c not in adj[a]:
            adj[a].append(c)
            adj[c].append(a)
    size = rng.choice([5, 6, 6, 7])
    nxt = size + 1
    edges = [(i, i % size + 1) for i in range(1, size + 1)]
    for a, c in edges:
        add(a, c)
    for _ in range(k):
        cand = [(a, c) for a, c in edges if len(adj[a]) == 2 and len(adj[c]) == 2]
        if not cand:
            break
        a, c = rng.choice(cand)
        size = rng.choice([5, 6, 6, 7])
        chain = [a] + list(range(nxt, nxt + size - 2)) + [c]
        nxt += size - 2
        for x, y in zip(chain, chain[1:]):
            add(x, y)
            edges.append((x, y))
    return shuffled(rng, adj)


def shuffled(rng, adj):
    keys = list(adj)
    rng.shuffle(keys)
    out = {}
    for k in keys:
        ms = adj[k][:]
        rng.shuffle(ms)
        out[k] = ms
    return out


WITNESS = ({4: [2, 3, 7], 1: [7, 3], 5: [2, 6], 6: [2, 3, 5], 7: [4, 1], 2: [4, 5, 6], 3: [6, 4, 1]}, [6], [1, 3, 5, 7])   # KekuleExt.unsound_rings


def search_fuzz(ck, cs, n_graphs, n_coq):
    """the search on arbitrary well-formed components (not only those of molecules): real _kekule_component against the
    independent matching checker, and (a sample) against the Coq model.  The witness of kekule_component_sound_refuted first."""
    from chython.algorithms.aromatics.kekule import _kekule_component
    from chython.exceptions import InvalidAromaticRing
    rng = random.Random(f'{ck.seed}:c05:fuzz')
    todo = [WITNESS]
    for j in range(n_graphs):
        rings = fused_ring_graph(rng, rng.randint(0, 3)) if j % 2 else random_ring_graph(rng, rng.randint(3, 12))
        atoms = list(rings)
        db = [a for a in atoms if rng.random() < 0.15]
        pyr = [a for a in atoms if a not in db and rng.random() < 0.22]
        todo.append((rings, db, pyr))
    cases = []
    for j, (rings, dbl, pyr) in enumerate(todo):
        for bs in (7, 0):
            db2 = set(dbl)
            dbs = next(iter(db2)) if db2 else 0
            raised = False
            try:
                ys = list(itertools.islice(_kekule_component({n: list(ms) for n, ms in rings.items()}, db2, set(pyr), bs), 4))
            except InvalidAromaticRing:
                ys, raised = [], True
            except Exception as e:
                ck.counterexample(f'search-crash:{type(e).__name__}', f'_kekule_component raises {type(e).__name__} on a well-formed component',
                                  {'rings': rings, 'double_bonded': dbl, 'pyrroles': pyr, 'buffer_size': bs}, repr(e), 'forms or InvalidAromaticRing', 'exception class')
                continue
            verdicts = [form_unsound(rings, set(dbl), set(pyr), y) for y in ys]
            for y, v in zip(ys, verdicts):
                if v:
                    report_unsound(ck, rings, dbl, pyr, bs, y, v, 'generated component' if j else 'witness of kekule_component_sound_refuted')
            three = any(len(rings[n]) == 3 for n in pyr)
            ck.case(('fuzz', j, bs), nontrivial=bool(ys))
            ck.count(f'search fuzz: {"InvalidAromaticRing" if raised else "forms"}' + (' (3-neighbour pyrrole atom present)' if three else ''))
            if any(verdicts):
                ck.count('search fuzz: unsound form')
            if j < n_coq:
                cases.append((kc_case(rings, dbl, dbs, pyr, bs, 4, ys, raised, verdicts), ('search', f'generated component {j}', [], bs), 'prep'))
                if bs == 7 and j % (3 if ck.tier == 'quick' else 2) == 0:
                    snaps = trace_component(rings, dbl, dbs, pyr, bs, 4, 12 if ck.tier == 'quick' else 24)
                    if snaps:
                        cases.append((trace_case(rings, dbl, dbs, pyr, bs, snaps), ('search trace', f'generated component {j}', [], bs), 'prep'))
                        ck.case(('fuzz trace', j), nontrivial=len(snaps) > 1)
                        ck.count('search trace: iterations of `while stack:` compared state by state', len(snaps))
    if todo and not any(form_unsound(WITNESS[0], set(WITNESS[1]), set(WITNESS[2]), y)
                        for y in itertools.islice(_kekule_component({n: list(ms) for n, ms in WITNESS[0].items()}, set(WITNESS[1]), set(WITNESS[2]), 7), 4)):
        ck.count('witness of kekule_component_sound_refuted is sound on the real code now: the model has to follow the code')
    cs.add([], cases)


def _plain_ring(n):
    return {i: [(i - 2) % n + 1, i % n + 1] for i in range(1, n + 1)}


def _fused_pair(a, b_):
    adj = _plain_ring(a)
    k, prev = a, 1
    for _ in range(b_ - 2):
        k += 1
        adj[k] = []
        adj[prev].append(k)
        adj[k].append(prev)
        prev = k
    adj[prev].append(2)
    adj[2].append(prev)
    return adj


def matching_exists(rings, db, pyr):
    """brute force over all subsets of the skeleton bonds: is there an assignment of double bonds that gives double_bonded
    atoms none, pyrrole-type atoms at most one and plain atoms exactly one (independent of the search and of the model)"""
    bonds = sorted({tuple(sorted((n, m))) for n, ms in rings.items() for m in ms})
    for mask in range(1 << len(bonds)):
        d = dict.fromkeys(rings, 0)
        for i, (a, c_) in enumerate(bonds):
            if mask >> i & 1:
                d[a] += 1
                d[c_] += 1
        if all((d[n] == 0) if n in db else (d[n] <= 1) if n in pyr else d[n] == 1 for n in rings):
            return True
    return False


def exhaustive_small(ck, cs):
    """EVERY assignment plain / double_bonded / pyrroles of the atoms of small skeletons (single rings of 4-6 atoms; thorough:
    also 7 and the fused pairs 5-5, 5-6, 6-6; double_bonded atoms never condensed, as __prepare_rings guarantees): the real
    search is sound (every form is a matching) AND complete (it raises exactly when no matching exists: brute force over all
    subsets of bonds); thorough: the single rings also against the Coq model"""
    from chython.algorithms.aromatics.kekule import _kekule_component
    from chython.exceptions import InvalidAromaticRing
    spaces = [('ring4', _plain_ring(4)), ('ring5', _plain_ring(5)), ('ring6', _plain_ring(6))]
    if ck.tier != 'quick':
        spaces += [('ring7', _plain_ring(7)), ('fused5-5', _fused_pair(5, 5)), ('fused5-6', _fused_pair(5, 6)), ('fused6-6', _fused_pair(6, 6))]
    cases = []
    for name, rings in spaces:
        atoms = list(rings)
        for cls in itertools.product((0, 1, 2), repeat=len(atoms)):
            dbl = [a for a, k in zip(atoms, cls) if k == 1]
            pyr = [a for a, k in zip(atoms, cls) if k == 2]
            if any(len(rings[a]) == 3 for a in dbl):
                continue
            ex = matching_exists(rings, set(dbl), set(pyr))
            for bs in (7, 0):
                db2 = set(dbl)
                dbs = next(iter(db2)) if db2 else 0
                raised = False
                try:
                    ys = list(itertools.islice(_kekule_component({n: list(ms) for n, ms in rings.items()}, db2, set(pyr), bs), 6))
                except InvalidAromaticRing:
                    ys, raised = [], True
                verdicts = [form_unsound(rings, set(dbl), set(pyr), y) for y in ys]
                for y, v in zip(ys, verdicts):
                    if v:
                        report_unsound(ck, rings, dbl, pyr, bs, y, v, f'exhaustive {name}')
                if ex == raised:
                    ck.counterexample(f'search-incomplete:{name}' if ex else f'search-form-without-matching:{name}',
                                      '_kekule_component raises InvalidAromaticRing although a Kekule form exists' if ex else
                                      '_kekule_component yields a form although no assignment of double bonds satisfies the atom classes',
                                      {'rings': rings, 'double_bonded': dbl, 'pyrroles': pyr, 'buffer_size': bs}, 'InvalidAromaticRing' if raised else ys,
                                      'a form' if ex else 'InvalidAromaticRing', 'brute force over all subsets of the skeleton bonds')
                ck.case(('exhaustive', name, cls, bs), nontrivial=bool(ys))
                ck.count(f'search exhaustive {name}: ' + ('no matching exists, InvalidAromaticRing' if raised else 'forms (sound; a matching exists)'))
                if ck.tier != 'quick' and bs == 7 and name.startswith('ring') and len(atoms) <= 6:
                    cases.append((kc_case(rings, dbl, dbs, pyr, bs, 6, ys, raised, verdicts), ('search', f'exhaustive {name} {cls}', [], bs), 'prep'))
    cs.add([], cases)


VIEWS = (('str', str), ('aromatic_rings', lambda m: sorted(map(tuple, m.aromatic_rings))), ('brutto', lambda m: sorted(m.brutto.items())),
         ('hybridization', lambda m: [a.hybridization for _, a in m.atoms()]), ('rings_count', lambda m: m.rings_count))


def hybridization_of(nb):
    """1 = sp3, 2 = sp2, 3 = sp, 4 = aromatic, from the orders of the bonds of one atom (order 8 does not count)"""
    orders = [int(bd) for bd in nb.values() if int(bd) != 8]
    if 4 in orders:
        return 4
    if 3 in orders or orders.count(2) >= 2:
        return 3
    return 2 if 2 in orders else 1


def warm(m):
    """fill the caches a conversion has to flush"""
    for _, f in VIEWS:
        try:
            f(m)
        except Exception:
            pass


def stale_views(m):
    """a cached view of the converted molecule that differs from the view of a fresh copy (whose cache is empty)"""
    fresh = m.copy()
    hyb = [hybridization_of(nb) for nb in m._bonds.values()]       # the label, recomputed from the bond orders as they are now
    got = [a.hybridization for _, a in m.atoms()]
    if hyb != got:
        return 'hybridization label', repr(got)[:200], repr(hyb)[:200]
    for name, f in VIEWS:
        try:
            v1, v2 = f(m), f(fresh)
        except Exception:
            continue
        if v1 != v2:
            return name, repr(v1)[:200], repr(v2)[:200]
    return None


def smiles_of(label):
    from chython import smiles
    return smiles(label)


def rules_need_aromatic_atom(ck):
    """kekule_noop speaks about the driver after __fix_rings; every repair rule must need an aromatic atom, so that
    __fix_rings cannot touch a molecule without aromatic bonds"""
    from chython.algorithms.aromatics._rules import rules
    ok = True
    n = 0
    for q, *_ in rules:
        n += 1
        if not any(4 in (a.hybridization or ()) and len(a.hybridization) == 1 for _, a in q.atoms()):
            ok = False
    ck.oblige(f'tie: each of the {n} __fix_rings rules requires an aromatic atom (so kekule() of a molecule without aromatic bonds is the driver model alone)',
              ok and n > 0, 'correspondence')
    if not (ok and n > 0):
        ck.unchecked('a __fix_rings rule can match a molecule without aromatic atoms', 'kekule_noop does not cover __fix_rings any more')


# ---------------------------------------------------------------------------------------------------
# directed search when the model and the implementation disagree

def domain_free_oracles(m, what):
    """property-level facts that hold for EVERY input kekule() accepts, whatever its chemistry; returns a list of failures"""
    from chython.exceptions import InvalidAromaticRing
    out = []
    k = m.copy()
    try:
        k.kekule()
    except InvalidAromaticRing:
        return ['raises']
    except Exception as e:
        return [f'{what}: kekule() raises {type(e).__name__}: {e}']
    s0, s1 = snap(m), snap(k)
    pre = m.copy()
    pre._Kekule__fix_rings()
    sp = snap(pre)
    if [x[:3] for x in s0[0]] != [x[:3] for x in s1[0]] or [x[:5] for x in sp[0]] != [x[:5] for x in s1[0]]:
        out.append(f'{what}: atoms / charges / radicals changed')
    if [(n, [q for q, _ in nb]) for n, nb in s0[1]] != [(n, [q for q, _ in nb]) for n, nb in s1[1]]:
        out.append(f'{what}: connectivity changed')
    if any(o == 4 for _, nb in s1[1] for _, o in nb):
        out.append(f'{what}: aromatic bond left in the Kekule result')
    for (n, nb0), (_, nb1) in zip(sp[1], s1[1]):
        nd = sum(1 for (_, o0), (_, o1) in zip(nb0, nb1) if o0 == 4 and o1 == 2)
        if nd > 1:
            out.append(f'{what}: atom {n} got {nd} double bonds inside the ring system')
        if any(o0 in (2, 3) and o1 != o0 for (_, o0), (_, o1) in zip(nb0, nb1)):
            out.append(f'{what}: a double / triple bond of atom {n} was rewritten')
    k2 = k.copy()
    try:
        if k2.kekule() or snap(k2) != s1:
            out.append(f'{what}: second kekule() changes the result')
    except Exception as e:
        out.append(f'{what}: second kekule() raises {type(e).__name__}')
    return out


def grid_pair(sym, charge, rad, h):
    """an aromatic six-ring with the probe atom state twice (positions 1 and 4)"""
    from chython import MoleculeContainer
    from chython.periodictable import Element
    m = MoleculeContainer()
    for i in range(1, 7):
        if i in (1, 4):
            m.add_atom(Element.from_symbol(sym)(charge=charge, is_radical=rad), i, _skip_calculation=True)
        else:
            m.add_atom('C', i, _skip_calculation=True)
    for i in range(1, 7):
        m.add_bond(i, i % 6 + 1, 4, _skip_calculation=True)
    m.fix_structure()
    m._atoms[1]._implicit_hydrogens = h
    m._atoms[4]._implicit_hydrogens = h
    return m


def given_h_oracle(m, what):
    """a given hydrogen count that kekule() keeps stays as it is in every enumerated form"""
    from chython.exceptions import InvalidAromaticRing
    given = {n: a.implicit_hydrogens for n, a in m._atoms.items() if a.implicit_hydrogens is not None}
    out = []
    try:
        k = m.copy()
        k.kekule()
        forms = [('kekule()', k)] + [(f'enumerate_kekule() form {j}', f) for j, f in enumerate(itertools.islice(m.copy().enumerate_kekule(), 16), 1)]
    except InvalidAromaticRing:
        return out
    except Exception as e:
        return [f'{what}: raises {type(e).__name__}']
    if any(k._atoms[n].implicit_hydrogens != h for n, h in given.items()):
        return out      # a given count the valence rules do not accept (kekule() recalculates it): reported by the main search, not here
    for name, f in forms:
        ch = {n: (h, f._atoms[n].implicit_hydrogens) for n, h in given.items() if f._atoms[n].implicit_hydrogens not in (h, None)}
        if ch:
            out.append(f'{what}: {name} = {f} changes given hydrogen counts {{atom: (given, result)}} {ch}')
    return out


def directed_search(ck, failed, budget=24):
    """the disagreeing inputs and random renumberings of them go through the domain-free oracles and the acceptance
    must not depend on the numbering; returns the number of concrete failures reported"""
    rng = random.Random(f'{ck.seed}:c05:directed')
    found = 0
    todo = []
    for c in failed[:budget]:
        meta = c[1]
        if meta[0] == 'grid':
            for rad, h in meta[6]:
                todo.append((repr(meta[:6] + (rad, h)), lambda meta=meta, rad=rad, h=h: grid_skeleton(meta[3], meta[4], meta[5], meta[1], meta[2], rad, h)))
                if not meta[3] and not meta[4] and not meta[5] and h is not None:
                    # the failing atom state twice in one ring: given hydrogens against kekule() and every enumerated form
                    try:
                        mp = grid_pair(meta[1], meta[2], rad, h)
                    except Exception:
                        continue
                    for msg in given_h_oracle(mp, f'{mp} (atoms 1 and 4: {meta[1]} charge {meta[2]:+d} radical {rad} H {h})'):
                        found += 1
                        ck.counterexample(f'directed:given-H:{meta[1]}{meta[2]:+d}:H={h}:radical={rad}', msg,
                                          {'input': str(mp), 'build': f'aromatic six-ring, atoms 1 and 4 = {meta[1]} charge {meta[2]} is_radical {rad} implicit_hydrogens {h}'},
                                          msg, 'given hydrogen counts unchanged', 'hydrogen counts before / after (directed search)')
        else:
            label = meta[2] if meta[0] in ('kekule_rel', 'thiele_rel') else meta[1]
            if not label.startswith('arenes.sdf'):
                todo.append((label, lambda label=label: smiles_of(label)))
    for label, mk in dict(todo).items():
        try:
            m = mk()
        except Exception:
            continue
        outcomes = []
        for r in range(6):
            mr = renumber(m, rng)[0] if r else m
            res = domain_free_oracles(mr, label)
            outcomes.append(res == ['raises'])
            for msg in res:
                if msg != 'raises':
                    found += 1
                    ck.counterexample(f'directed:{msg[:120]}', msg, {'input': label, 'numbering': list(mr._atoms)}, msg, 'property holds', 'domain-free oracles (directed search)')
        if len(set(outcomes)) > 1:
            found += 1
            ck.counterexample(f'directed:acceptance-depends-on-numbering:{label[:100]}', 'kekule() raises under one numbering and succeeds under another',
                              {'input': label}, outcomes, 'same outcome', 'random renumberings (directed search)')
    return found


def light_oracles(ck, pipe, label, m):
    """the model-independent part of the pipeline for bulk composites: kekule -> thiele -> kekule -> thiele on the real code;
    atoms / connectivity / hydrogens kept, no aromatic bond at a saturated carbon, the round trip is a fixpoint"""
    from chython.exceptions import InvalidAromaticRing
    k = m.copy()
    try:
        k.kekule()
    except InvalidAromaticRing:
        ck.count('composite: kekule() raises InvalidAromaticRing')
        return
    a = k.copy()
    a.thiele()
    ck.case(('composite', label), nontrivial=has_arom(a))
    code = f'from chython import smiles\nm=smiles({label!r}); m.kekule(); print(m); m.thiele(); print(m, [a.implicit_hydrogens for _,a in m.atoms()]); m.kekule(); print(m)'
    s0, s1 = snap(k), snap(a)
    if [x[:5] for x in s0[0]] != [x[:5] for x in s1[0]] or [(n, [q for q, _ in nb]) for n, nb in s0[1]] != [(n, [q for q, _ in nb]) for n, nb in s1[1]]:
        ck.counterexample(f'thiele-changes-molecule:{label}', 'thiele() changed atoms, isotopes, charges, radicals or connectivity', {'input': label}, s1, s0, 'snapshot comparison', replay_py=code)
    sat = sorted(n for n in saturated_carbons(k) if any(int(bd) == 4 for bd in a._bonds[n].values()))
    if sat:
        ck.counterexample(f'thiele-aromatises-saturated-carbon:{label}', f'thiele() writes aromatic bonds at the saturated carbon(s) {sat} (four single bonds, hydrogens included)',
                          {'input': label, 'atoms': sat}, str(a), str(k), 'no aromatic bond at a neutral carbon with four single bonds', replay_py=code)
    moved = [n for n, at in k._atoms.items() if at.implicit_hydrogens != a._atoms[n].implicit_hydrogens]
    if sum(at.implicit_hydrogens or 0 for at in k._atoms.values()) != sum(at.implicit_hydrogens or 0 for at in a._atoms.values()):
        ck.counterexample(f'thiele-changes-total-H:{label}', 'thiele() changes the total hydrogen count', {'input': label}, str(a), str(k), 'sum of hydrogen counts', replay_py=code)
    x = a.copy()
    try:
        x.kekule()
    except InvalidAromaticRing as e:
        if not moved:
            ck.counterexample(f'rekekule-raises:{label}', 'kekule() raises on the aromatic form produced by thiele()', {'input': label}, repr(e), 'a Kekule form', 'exception', replay_py=code)
        return
    if not moved and [at.implicit_hydrogens for at in x._atoms.values()] != [at.implicit_hydrogens for at in k._atoms.values()] and not x.check_valence() and not k.check_valence():
        ck.counterexample(f'rekekule-changes-H:{label}', 'kekule() of the aromatic form produced by thiele() changes hydrogen counts', {'input': label},
                          [at.implicit_hydrogens for at in x._atoms.values()], [at.implicit_hydrogens for at in k._atoms.values()], 'hydrogen counts before / after', replay_py=code)


def run(ck):
    from rdkit import RDLogger
    RDLogger.DisableLog('rdApp.*')
    ck.trusted += ['correspondence runner harness/checks/C05.py + harness/coqcases.py + harness/coqmol.py (molecule printer)',
                   'CachedMethods shim harness/boot.py', 'CPython 3.12.1', 'RDKit 2026.3 (search only: domain of the oracles, hydrogen counts)',
                   "chython's canonical SMILES (search: comparison of aromatic forms)"]
    ck.assumptions += ['kekule_rel / thiele_rel are specifications: the theorems say what every ACCEPTED output satisfies; that the real outputs are accepted is '
                       'checked output by output (vm_compute), not proved for the search _kekule_component / the ring selection of thiele()',
                       '_kekule_component is hand-modelled statement by statement (set iteration order of double_bonded is an input); tie = first forms / raise of '
                       'the real generator on every component of every input, with buffer 7 and 0; only the order-1-or-2 / length invariant is proved about it',
                       '__prepare_rings is hand-modelled (SSSR is an input of the model); tie = exhaustive atom-state grid + every whole input molecule',
                       'thiele(fix_tautomers=False / True) is modelled (inputs of the model: SSSR, the second ring search _sssr, the freak SMARTS queries, set iteration orders); '
                       'tie = every decision regenerated from the source (gen_thielecls, gen_thielepost: skeleton with holes, fail closed) and proved equal to the model, '
                       'plus pruned skeleton, ring count, freak rings and final bond orders on every Kekule form of the inputs',
                       'the carbon hydrogen theorem is over the generated valence tables (translator elements) and C04\'s calc_implicit model',
                       'the SMARTS rule engine behind __fix_rings / freak_rules is not modelled: the relation is applied to the molecule after __fix_rings',
                       'calc_implicit (hydrogen recalculation) is an oracle of the driver model; it is modelled by C04',
                       'hydrogen / valence oracles are claimed inside the domain where RDKit and chython\'s own valence rules accept a Kekule spelling of the input']
    ck.extra['rule'] = ('inputs: curated benzenoids / 5- and 6-membered heterocycles (N O S P B Se Te) / charged / quinoid / fused / 4-ring / malformed aromatic SMILES, '
                        'all c/n six-rings, pyrrole-type X + c/n five-rings, fused templates with random aza substitution, test/arenes.sdf, '
                        'test/heterocycles_charges.smi, a lipophilicity.csv sample; each also under one random renumbering; composites = pairs of ring systems (rule-aromatised / partly saturated / aromatic) as two fragments and joined by a single bond. non-trivial = the molecule has '
                        'aromatic bonds and the conversion produced a form (not InvalidAromaticRing); grid: the state is accepted; search: the generator yielded')
    t00 = time.time()
    proved = common.standard_proof_steps(ck, translators=['elements', 'kekulecls', 'thielecls', 'thielepost', 'kekulecomp'], extra_targets=['model/Thiele.vo'])
    t_proof = time.time()
    rules_need_aromatic_atom(ck)
    cs = Cases('c05')
    corr_grid(ck, cs)
    search_fuzz(ck, cs, 1200 if ck.tier == 'quick' else 20000, 300 if ck.tier == 'quick' else 1500)
    exhaustive_small(ck, cs)
    t_grid = time.time()
    pipe = Pipe(ck, cs)
    rng = random.Random(f'{ck.seed}:c05:renumber')
    mols = load_inputs(ck)
    def guarded(kind, label, m, **kw):
        try:
            return pipe.run(kind, label, m, **kw)
        except Exception as e:      # an exception no stage expects: the real code broke in the middle of a conversion sequence
            ck.counterexample(f'conversion-crash:{type(e).__name__}:{label}', f'a conversion sequence kekule() / thiele() / enumerate_kekule() raises {type(e).__name__}: {e}',
                              {'input': label, 'numbering': list(m._atoms)}, repr(e), 'no exception', 'exception class',
                              replay_py=None if kind == 'arenes.sdf' else f'from chython import smiles\nm=smiles({label!r}); m.kekule(); m.kekule(); m.thiele(); m.thiele(); print(m, list(m.enumerate_kekule()))')
            return None

    for kind, label, m0 in mols:
        res = guarded(kind, label, m0)
        mr, pi = renumber(m0, rng)
        res_r = guarded(kind, label, mr, renumbered=True, full=False)
        dom = domain(str(m0) if kind == 'arenes.sdf' else label)[0]
        if (res is None) != (res_r is None):
            pipe.bad(True, f'renumbering-acceptance:{label}', 'kekule() succeeds under one numbering and raises under another', label,
                     'raises' if res_r is None else 'succeeds', 'same outcome', 'random renumbering', None, {'numbering': list(mr._atoms)})
        elif res is not None:
            # the conversion commutes with the renumbering: bond for bond, atom for atom (no canonical string involved)
            a0, ar = res[0], res_r[0]
            diff = [(n, q) for n, nb in a0._bonds.items() for q, bd in nb.items() if n < q and int(bd) != int(ar._bonds[pi[n]][pi[q]])]
            diff_h = [n for n, at in a0._atoms.items() if at.implicit_hydrogens != ar._atoms[pi[n]].implicit_hydrogens]
            ck.case(('renumbering', label), nontrivial=has_arom(a0))
            if (diff or diff_h) and not same_structure(str(a0), str(ar)):
                pipe.cmp_bad(dom and res[2] and res_r[2], res[3] or res_r[3], res[4] or res_r[4], f'renumbering-result:{label}',
                             'the aromatic form after kekule()+thiele() depends on the atom numbering', label, {'bonds that differ': diff[:10], 'H that differ': diff_h[:10], 'form': str(ar)},
                             str(a0), 'bond orders and hydrogen counts compared through the renumbering', None, {'numbering': list(mr._atoms)})
    # composites: two ring systems in one molecule.  All through the model-independent oracles (saturated carbons, locality of the
    # conversions on multi-fragment records); a sample through the whole pipeline (relations, models of thiele / kekule)
    crng = random.Random(f'{ck.seed}:c05:composites')
    comp = composites(crng, 40 if ck.tier == 'quick' else 300)
    piped = set(crng.sample(range(len(comp)), min(len(comp), 24 if ck.tier == 'quick' else 120)))
    for j, (label, joined) in enumerate(comp):
        try:
            mc = smiles_of(label)
        except Exception as e:
            ck.count(f'input-rejected-by-parser:{type(e).__name__}')
            continue
        ck.count(f'composite:{"joined by a single bond" if joined else "two fragments"}')
        if j in piped or label in PIPED_LABELS:
            guarded('composite', label, mc)
        else:
            light_oracles(ck, pipe, label, mc)
        if not joined:
            try:
                locality(ck, label)
            except Exception as e:
                ck.counterexample(f'conversion-crash:{type(e).__name__}:{label}', f'a conversion of a multi-fragment record raises {type(e).__name__}: {e}', {'input': label}, repr(e),
                                  'no exception', 'exception class')
    t_py = time.time()
    ok, failed, log, nshards = cs.run()
    ck.extra['seconds'] = {'proof steps': round(t_proof - t00, 1), 'grid': round(t_grid - t_proof, 1), 'real code + oracles': round(t_py - t_grid, 1), 'coq cases': round(time.time() - t_py, 1)}
    prep_failed = [c for c in failed if c[2] == 'prep']
    rel_failed = [c for c in failed if c[2] != 'prep']
    ck.oblige('correspondence: Kekule.__prepare_rings == Model.Kekule.prepare_rings (atom-state grid + whole molecules), kekule() == kekule_driver given the search result, _kekule_component == kekule_component (molecules + generated components; yields and, state by state, stack / path / buffer at the head of the first iterations of `while stack:`), thiele(fix_tautomers=False / True) == Model.Thiele.thiele_model / thiele_model_t, hypotheses of kekule_prepare_chain (chain_hyp2) hold exactly on the inputs whose aromatic bonds are the skeleton bonds',
              ok and not prep_failed, 'correspondence', log[-1500:] or str([c[1] for c in prep_failed[:5]]))
    ck.oblige('every kekule() / enumerate_kekule() / thiele() output is accepted by the Coq checkers kekule_rel / thiele_rel', ok and not rel_failed,
              'correspondence', str([c[1] for c in rel_failed[:5]]))
    if not ok:
        ck.unchecked('correspondence cases did not evaluate', log[-1500:])
    if prep_failed or rel_failed:
        try:
            ck.extra['directed_search_failures'] = directed_search(ck, prep_failed + rel_failed)
        except Exception as e:
            ck.extra['directed_search_failures'] = f'stopped: {type(e).__name__}: {e}'
    if prep_failed:
        ck.unchecked('correspondence Model.Kekule (prepare_rings / kekule_driver / kekule_component) and Model.Thiele.thiele_model vs chython/algorithms/aromatics/kekule.py, thiele.py', 'model and implementation disagree',
                     [repr(c[1]) for c in prep_failed[:20]])
    if rel_failed:
        clauses = diagnose(rel_failed)
        for c, cl in zip(rel_failed, clauses):
            which, label, code = c[2]
            ck.counterexample(f'{which}-rel-rejects:{label}', f'{c[1][1]} output is not an acceptable {"Kekule" if which == "kekule" else "aromatic"} form of its input '
                              f'(failed clauses of the Coq checker: {", ".join(cl) or "?"})', {'input': label, 'numbering': c[1][3], 'case': c[0]}, 'rejected', 'accepted',
                              f'Coq checker {which}_rel (coq/model/Kekule.v)', replay_py=('from chython import smiles\n' + code) if code else None)
    ck.extra.update({'correspondence_cases': cs.total(), 'coq_shards': nshards, 'molecules': len(mols), 'enumerated_forms': pipe.forms_total,
                     'excluded_unsaturated_4ring_systems': pipe.excluded_4ring,
                     'excluded_unsaturated_4ring_systems_whose_forms_disagree': pipe.excluded_4ring_inconsistent,
                     'rdkit_compared': pipe.rdkit_compared, 'proved': proved})
    for g in cs.groups[1:4]:
        ck.sample({'model_call': g[1][-1][0], 'meta': repr(g[1][-1][1])})


def diagnose(rel_failed):
    """which clause of the relation rejects (a second, small Coq run on the failing cases only)"""
    cs = Cases('c05d')
    by_defs = {}
    for c in rel_failed:
        rel, g, g2 = split_rel(c[0])
        names = ['kr_atoms', 'kr_bonds', 'kr_classes', 'kr_valence', 'kr_h'] if rel.startswith('kekule') else ['tr_atoms', 'tr_bonds', 'tr_doubles', 'tr_quinone', 'tr_h']
        by_defs.setdefault(c[3], []).extend((f'{nm} {g} {g2}', (id(c), nm), 'diag') for nm in names)
    for d, cases in by_defs.items():
        cs.add([d], cases)
    ok, failed, log, _ = cs.run()
    bad = {}
    for f in failed:
        bad.setdefault(f[1][0], []).append(f[1][1])
    return [bad.get(id(c), []) if ok else ['?'] for c in rel_failed]


def split_rel(expr):
    """'rel [flags] g g2' -> (rel, g, g2); g may be a parenthesised term"""
    parts = expr.split(' ')
    rel = parts[0]
    rest = parts[1:]
    while rest and rest[0] in ('true', 'false'):
        rest = rest[1:]
    rest = ' '.join(rest)
    if rest.startswith('('):
        depth = 0
        for j, ch in enumerate(rest):
            depth += ch == '('
            depth -= ch == ')'
            if depth == 0:
                return rel, rest[:j + 1], rest[j + 2:]
    g, g2 = rest.split(' ', 1)
    return rel, g, g2
