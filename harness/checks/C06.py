"""C06 ring perception: the SSSR selection of chython/algorithms/rings.py is a heuristic, so the check is
  (S) every `sssr` output of the inputs is run through the VERIFIED (sound and complete) checker `is_cycle_basis`,
      evaluated inside Coq; its verdicts must coincide with those of an independent Python GF(2) oracle;
  (A) the deterministic pieces (_connected_components, _skin_graph, rings_count, not_special_connectivity,
      _canonic_ring, _ring_scissors, _ring_adjacency, atoms_rings, atoms_rings_sizes, aromatic_rings, ring marks of
      calc_labels) are compared with the Coq model on the same inputs (incl. malformed ones for the helpers);
  search: independent pure-Python oracles (own Horton minimum cycle basis, bridge finder, components, 2-core) for validity,
      minimum total size, invariance of the ring-size multiset under renumbering / insertion order, the marks, canonical
      spelling, aromatic rings, and coherence of the cached ring views after edits (rebuild from scratch); every ring
      perception runs under a wall-clock deadline (a perception that does not return is a counterexample).
The two recorded gap families of the property text (molecules containing a bicyclic core whose three bridges all
have >= 3 bonds; dense cages) are OUTSIDE the claimed domain: they are recognised structurally on the input graph,
counted in the evidence, and no deviation on them is reported."""
import concurrent.futures as cf
import itertools
import os
import random
from collections import Counter, deque

import boot  # noqa
import common
import coqcases
import corpus
from coqfmt import zraw, b, lst, tup

replay = common.generic_replay

EXN = {'KeyError': 'KeyError', 'ValueError': 'ValueError', 'IndexError': 'IndexError', 'TypeError': 'TypeError',
       'StopIteration': 'StopIteration', 'AttributeError': 'AttributeError'}


class Deadline(BaseException):
    """ring perception did not return in time (BaseException: not swallowed by `except Exception` in library code)"""


class deadline:
    """with deadline(seconds): ...  raises Deadline in the main thread when the block runs longer (SIGALRM based).
    The slowest ring perception of the unchanged code on any input of this check takes about half a second."""

    def __init__(self, seconds=60):
        self.seconds = seconds

    def _fire(self, *a):
        raise Deadline()

    def __enter__(self):
        import signal
        import threading
        self.active = threading.current_thread() is threading.main_thread()
        if self.active:
            self.old = signal.signal(signal.SIGALRM, self._fire)
            signal.setitimer(signal.ITIMER_REAL, self.seconds)
        return self

    def __exit__(self, *a):
        if self.active:
            import signal
            signal.setitimer(signal.ITIMER_REAL, 0)
            signal.signal(signal.SIGALRM, self.old)
        return False


JOBS = max(1, int(os.environ.get('VERIF_JOBS', min(8, os.cpu_count() or 4))))   # parallel coqc / worker processes
SLOW = 60   # seconds after which one ring perception counts as "does not return"


# =====================================================================================================
# pure-Python reference side (never imports the model; used by the search and to classify inputs)

def edges_of(adj):
    return sorted({(min(a, c), max(a, c)) for a in adj for c in adj[a]})


def ref_components(adj):
    seen = set()
    out = []
    for s in adj:
        if s in seen:
            continue
        comp = {s}
        q = deque([s])
        while q:
            c = q.popleft()
            for n in adj[c]:
                if n not in comp:
                    comp.add(n)
                    q.append(n)
        seen |= comp
        out.append(comp)
    return out


def horton_sizes(adj):
    """sorted ring sizes of a minimum cycle basis: Horton candidates + greedy GF(2) elimination on bit masks"""
    E = edges_of(adj)
    eidx = {e: i for i, e in enumerate(E)}
    nu = len(E) - len(adj) + len(ref_components(adj))
    cands = set()
    for v in sorted(adj):
        par = {v: None}
        q = deque([v])
        while q:
            c = q.popleft()
            for n in sorted(adj[c]):
                if n not in par:
                    par[n] = c
                    q.append(n)

        def path(x):
            p = []
            while x is not None:
                p.append(x)
                x = par[x]
            return p
        for (x, y) in E:
            if x not in par or par[x] == y or par[y] == x:
                continue
            px, py = path(x), path(y)
            if set(px) & set(py) != {v}:
                continue
            cyc = px[::-1] + py[:-1]
            mask = 0
            for a, c in zip(cyc, cyc[1:] + cyc[:1]):
                mask |= 1 << eidx[(min(a, c), max(a, c))]
            cands.add((len(cyc), mask))
    basis = []
    sizes = []
    for ln, mask in sorted(cands):
        m = mask
        for p, r in basis:
            if m >> p & 1:
                m ^= r
        if m:
            basis.append((m.bit_length() - 1, m))
            sizes.append(ln)
            if len(basis) == nu:
                break
    if len(basis) != nu:
        raise RuntimeError('reference basis incomplete')
    return sorted(sizes)


def basis_defect(adj, rings):
    """None when `rings` is a cycle basis of adj, else the name of the first defect"""
    E = edges_of(adj)
    eidx = {e: i for i, e in enumerate(E)}
    nu = len(E) - len(adj) + len(ref_components(adj))
    if len(rings) != nu:
        return 'count'
    basis = []
    for r in rings:
        if len(r) < 3 or len(set(r)) != len(r):
            return 'not-simple'
        m = 0
        for a, c in zip(r, tuple(r[1:]) + tuple(r[:1])):
            e = (min(a, c), max(a, c))
            if e not in eidx:
                return 'not-a-bond'
            m |= 1 << eidx[e]
        for p, r2 in basis:
            if m >> p & 1:
                m ^= r2
        if not m:
            return 'dependent'
        basis.append((m.bit_length() - 1, m))
    return None


def blocks(adj):
    """biconnected components as edge lists (iterative Tarjan)"""
    idx, low, out, st = {}, {}, [], []
    cnt = 0
    for root in adj:
        if root in idx:
            continue
        idx[root] = low[root] = cnt
        cnt += 1
        stack = [(root, None, iter(sorted(adj[root])))]
        while stack:
            v, p, it = stack[-1]
            adv = False
            for w in it:
                if w == p:
                    continue
                if w not in idx:
                    st.append((v, w))
                    idx[w] = low[w] = cnt
                    cnt += 1
                    stack.append((w, v, iter(sorted(adj[w]))))
                    adv = True
                    break
                elif idx[w] < idx[v]:
                    st.append((v, w))
                    low[v] = min(low[v], idx[w])
            if adv:
                continue
            stack.pop()
            if stack:
                u = stack[-1][0]
                low[u] = min(low[u], low[v])
                if low[v] >= idx[u]:
                    comp = []
                    while True:
                        e = st.pop()
                        comp.append(e)
                        if e == (u, v):
                            break
                    out.append(comp)
    return out


def simple_cycles_of_block(comp, cap=4096):
    """every simple cycle of a biconnected block (edge list), as edge bit masks, by sweeping the cycle space;
    None when the block has more than log2(cap) independent rings"""
    badj = {}
    for a, c in comp:
        badj.setdefault(a, set()).add(c)
        badj.setdefault(c, set()).add(a)
    E = sorted((min(a, c), max(a, c)) for a, c in comp)
    eidx = {e: i for i, e in enumerate(E)}
    nu = len(E) - len(badj) + 1
    if 2 ** nu > cap:
        return None
    root = next(iter(badj))
    par = {root: None}
    q = deque([root])
    while q:
        c = q.popleft()
        for n in sorted(badj[c]):
            if n not in par:
                par[n] = c
                q.append(n)
    tree = {(min(k, v), max(k, v)) for k, v in par.items() if v is not None}

    def pathmask(x):
        m = 0
        while par[x] is not None:
            m |= 1 << eidx[(min(x, par[x]), max(x, par[x]))]
            x = par[x]
        return m
    fund = [pathmask(e[0]) ^ pathmask(e[1]) ^ (1 << eidx[e]) for e in E if e not in tree]
    cycles = []
    for k in range(1, 2 ** nu):
        m = 0
        for i in range(nu):
            if k >> i & 1:
                m ^= fund[i]
        es = [E[i] for i in range(len(E)) if m >> i & 1]
        deg = Counter()
        for a, c in es:
            deg[a] += 1
            deg[c] += 1
        if any(d != 2 for d in deg.values()):
            continue
        cadj = {}
        for a, c in es:
            cadj.setdefault(a, []).append(c)
            cadj.setdefault(c, []).append(a)
        s = es[0][0]
        seen = {s}
        stk = [s]
        while stk:
            x = stk.pop()
            for y in cadj[x]:
                if y not in seen:
                    seen.add(y)
                    stk.append(y)
        if len(seen) == len(deg):
            cycles.append(m)
    return cycles


def gap_families(adj):
    """the two recorded gap families of the property text, recognised structurally on the not-special graph:
      'long-bridged-bicycle': some block contains a bicyclic core (two cycles sharing exactly one path) whose three
                              bridges all have >= 3 bonds;
      'dense-cage': some block has >= 6 independent rings and average degree >= 3 (e.g. 7 atoms / 12 bonds);
      'unclassified-large': a block with more than 12 independent rings, too large for the exact bicycle test."""
    fam = set()
    for comp in blocks(adj):
        if len(comp) < 3:
            continue
        verts = {v for e in comp for v in e}
        V, E = len(verts), len(comp)
        nu = E - V + 1
        if nu >= 6 and 2 * E >= 3 * V:
            fam.add('dense-cage')
        if nu < 2 or E < 9:
            continue
        cycles = simple_cycles_of_block(comp)
        if cycles is None:
            fam.add('unclassified-large')
            continue
        cs = set(cycles)
        pc = {c: bin(c).count('1') for c in cycles}
        E = sorted((min(a, c), max(a, c)) for a, c in comp)

        def single_path(mask):
            deg = Counter()
            for i, (a, c) in enumerate(E):
                if mask >> i & 1:
                    deg[a] += 1
                    deg[c] += 1
            return sum(1 for d in deg.values() if d == 1) == 2 and all(d <= 2 for d in deg.values())
        found = False
        for i, ci in enumerate(cycles):
            for cj in cycles[i + 1:]:
                common = ci & cj
                if not common:
                    continue
                nc = bin(common).count('1')
                if nc >= 3 and pc[ci] - nc >= 3 and pc[cj] - nc >= 3 and (ci ^ cj) in cs and single_path(common):
                    found = True
                    break
            if found:
                break
        if found:
            fam.add('long-bridged-bicycle')
    return fam


def ref_bridges(adj):
    """set of bridge edges (n<m), brute force: remove the edge and test connectivity of its ends"""
    out = set()
    for (a, c) in edges_of(adj):
        seen = {a}
        q = deque([a])
        while q:
            x = q.popleft()
            for y in adj[x]:
                if (x == a and y == c) or (x == c and y == a):
                    continue
                if y not in seen:
                    seen.add(y)
                    q.append(y)
        if c not in seen:
            out.add((a, c))
    return out


def ref_two_core(adj):
    """the 2-core by definition: the largest subgraph in which every atom has >= 2 neighbours (repeatedly recompute degrees)"""
    keep = set(adj)
    while True:
        drop = {v for v in keep if sum(1 for w in adj[v] if w in keep) < 2}
        if not drop:
            return {v: {w for w in adj[v] if w in keep} for v in keep}
        keep -= drop


def ref_canonic(ring):
    """canonical spelling by definition: of all rotations and reflections the lexicographically smallest"""
    n = len(ring)
    best = None
    for r in (tuple(ring), tuple(ring[::-1])):
        for k in range(n):
            c = r[k:] + r[:k]
            if best is None or c < best:
                best = c
    return best


# =====================================================================================================
# input generators

def connected_graphs(n, maxdeg=4, maxrings=99):
    """every labelled connected graph on 1..n with degree <= maxdeg and at most maxrings independent rings"""
    pairs = list(itertools.combinations(range(1, n + 1), 2))
    for k in range(n - 1, min(len(pairs), n - 1 + maxrings) + 1):
        for es in itertools.combinations(pairs, k):
            deg = [0] * (n + 1)
            ok = True
            for a, c in es:
                deg[a] += 1
                deg[c] += 1
                if deg[a] > maxdeg or deg[c] > maxdeg:
                    ok = False
                    break
            if not ok:
                continue
            adj = {i: set() for i in range(1, n + 1)}
            for a, c in es:
                adj[a].add(c)
                adj[c].add(a)
            if n > 1 and len(ref_components(adj)) != 1:
                continue
            yield es, adj


def graph_signature(adj):
    """isomorphism-invariant signature good enough to pick one labelled representative per class of small graphs
    (degree sequence refined three times + sorted ring sizes); only used to thin out what is sent to Coq"""
    col = {v: len(adj[v]) for v in adj}
    for _ in range(3):
        col = {v: hash((col[v], tuple(sorted(col[w] for w in adj[v])))) for v in adj}
    return (len(adj), len(edges_of(adj)), tuple(sorted(col.values())))


def assemble(rng, max_atoms=36):
    """random fused / spiro / bridged / linked assembly of 3-8 membered rings (degree <= 4)"""
    adj = {}

    def new():
        n = len(adj) + 1
        adj[n] = set()
        return n

    def bond(a, c):
        adj[a].add(c)
        adj[c].add(a)

    def ring(k, through=None):
        atoms = [through if through else new()]
        for _ in range(k - 1):
            atoms.append(new())
        for a, c in zip(atoms, atoms[1:] + atoms[:1]):
            bond(a, c)
        return atoms

    def path(a, c, j):
        prev = a
        for _ in range(j):
            n = new()
            bond(prev, n)
            prev = n
        bond(prev, c)
    ring(rng.choice([3, 4, 5, 5, 6, 6, 6, 7, 8]))
    for _ in range(rng.randint(1, 6)):
        if len(adj) > max_atoms:
            break
        op = rng.choice(['fuse', 'fuse', 'spiro', 'bridge', 'bridge', 'link', 'chain'])
        if op == 'fuse':
            es = [(a, c) for a in adj for c in adj[a] if a < c and len(adj[a]) < 4 and len(adj[c]) < 4]
            if es:
                a, c = rng.choice(es)
                path(a, c, rng.choice([1, 2, 3, 3, 4, 4, 5, 6]))
        elif op == 'spiro':
            cand = [a for a in adj if len(adj[a]) <= 2]
            if cand:
                ring(rng.choice([3, 4, 5, 6, 6, 7]), rng.choice(cand))
        elif op == 'bridge':
            cand = [a for a in adj if len(adj[a]) < 4]
            if len(cand) >= 2:
                a, c = rng.sample(cand, 2)
                if c not in adj[a]:
                    path(a, c, rng.choice([0, 0, 1, 1, 2, 3, 4]))
        elif op == 'link':
            cand = [a for a in adj if len(adj[a]) < 4]
            if cand:
                prev = rng.choice(cand)
                for _ in range(rng.choice([0, 1, 2])):
                    n = new()
                    bond(prev, n)
                    prev = n
                r = ring(rng.choice([3, 5, 6, 6, 7]))
                bond(prev, r[0])
        else:
            cand = [a for a in adj if len(adj[a]) < 4]
            if cand:
                prev = rng.choice(cand)
                for _ in range(rng.randint(1, 3)):
                    n = new()
                    bond(prev, n)
                    prev = n
    return adj


def macrocycle(rng):
    """a 12-24 membered ring carrying a few fused / bridging small rings"""
    adj = {}
    k = rng.randint(12, 24)
    for i in range(1, k + 1):
        adj[i] = set()
    for i in range(1, k + 1):
        j = i % k + 1
        adj[i].add(j)
        adj[j].add(i)
    for _ in range(rng.randint(0, 3)):
        a = rng.randint(1, k)
        span = rng.choice([1, 1, 2, 3])
        c = (a - 1 + span) % k + 1
        if len(adj[a]) >= 4 or len(adj[c]) >= 4:
            continue
        extra = rng.choice([1, 2, 3, 4]) if span == 1 else rng.choice([0, 1, 2])
        if extra == 0 and c in adj[a]:
            continue
        prev = a
        for _ in range(extra):
            n = len(adj) + 1
            adj[n] = set()
            adj[prev].add(n)
            adj[n].add(prev)
            prev = n
        if c != prev and c not in adj[prev]:
            adj[prev].add(c)
            adj[c].add(prev)
    return adj


def theta(a, c, d):
    """bicycle with bridges of a, c, d bonds between atoms 1 and 2"""
    adj = {1: set(), 2: set()}
    for L in (a, c, d):
        prev = 1
        for _ in range(L - 1):
            n = len(adj) + 1
            adj[n] = set()
            adj[prev].add(n)
            adj[n].add(prev)
            prev = n
        adj[prev].add(2)
        adj[2].add(prev)
    return adj


def mol_from_graph(adj, order=None, special=(), natural=False):
    """carbon skeleton through the public add_atom / add_bond; `special` = bonds given order 8"""
    from chython import MoleculeContainer
    m = MoleculeContainer()
    for n in (order or list(adj)):
        m.add_atom('C', n, _skip_calculation=not natural)
    sp = {(min(a, c), max(a, c)) for a, c in special}
    for (a, c) in edges_of(adj):
        m.add_bond(a, c, 8 if (a, c) in sp else 1, _skip_calculation=not natural)
    m.fix_structure()
    return m


def rebuild(m, rng, spread=False):
    """the same molecule under a random renumbering AND a random insertion order of atoms and bonds, built from scratch"""
    from chython import MoleculeContainer
    nums = list(m._atoms)
    pool = list(range(1, (2 if spread else 1) * len(nums) + 1))
    new = rng.sample(pool, len(nums))
    mp = dict(zip(nums, new))
    r = MoleculeContainer()
    order = nums[:]
    rng.shuffle(order)
    for n in order:
        r.add_atom(m._atoms[n].copy(), mp[n], _skip_calculation=True)
    bonds = [(n, k, int(bd)) for n, k, bd in m.bonds()]
    rng.shuffle(bonds)
    for n, k, o in bonds:
        if rng.random() < 0.5:
            n, k = k, n
        r.add_bond(mp[n], mp[k], o, _skip_calculation=True)
    r.calc_labels()
    return r, mp


def plain_adj(m, special=False):
    """adjacency rebuilt from the bond iterator (independent of not_special_connectivity)"""
    adj = {n: set() for n in m._atoms}
    for n, k, bd in m.bonds():
        if special or int(bd) != 8:
            adj[n].add(k)
            adj[k].add(n)
    return adj


# =====================================================================================================
# Coq side

def mol_term(m):
    """compact literal: mkm [(atom, atomic number)] [(atom, [(neighbour, order)])] in the insertion order of _atoms / _bonds"""
    atoms = lst([tup(zraw(n), zraw(a.atomic_number)) for n, a in m._atoms.items()])
    adj = lst([tup(zraw(n), lst([tup(zraw(k), zraw(int(bd))) for k, bd in nb.items()])) for n, nb in m._bonds.items()])
    return f'(mkm {atoms} {adj})'


def zl(xs):
    return lst(list(xs), zraw)


def zll(xss):
    return lst([zl(x) for x in xss])


def graph_term(adj, sort=True):
    return lst([tup(zraw(n), zl(sorted(ms) if sort else ms)) for n, ms in adj.items()])


def res_term(fn, fmt):
    try:
        return 'Ok ' + fmt(fn())
    except Exception as e:
        return 'Err ' + EXN.get(type(e).__name__, 'OtherError')


class CoqBatch:
    """cases grouped in files of their own definitions; every case carries a label and a kind:
    'corr' (model vs implementation), 'checker' (verified checker on an implementation output),
    'oracle' (reference construction inside Coq)"""

    def __init__(self, max_bytes=110000, max_cases=160):
        # the case index is a unary nat literal in the generated file: elaboration time is quadratic in the number of
        # cases of one file (1200 cases: 32 s, 6 x 200 cases: 6 x 1.6 s), so files are kept short
        self.files = [[]]
        self.sizes = [0]
        self.counts = [0]
        self.max_bytes = max_bytes
        self.max_cases = max_cases
        self.times = []
        self.workers = JOBS

    def add(self, defs, cases):
        """defs: Coq vernacular text; cases: list of (kind, label, payload, boolexpr)"""
        size = len(defs) + sum(len(c[3]) + 12 for c in cases)
        if self.sizes[-1] and (self.sizes[-1] + size > self.max_bytes or self.counts[-1] + len(cases) > self.max_cases):
            self.files.append([])
            self.sizes.append(0)
            self.counts.append(0)
        self.files[-1].append((defs, cases))
        self.sizes[-1] += size
        self.counts[-1] += len(cases)

    def run(self, name):
        """returns (ok, failing:list of (kind,label,payload), log, n_cases)"""
        jobs = [f for f in self.files if f]

        def one(k):
            items = jobs[k]
            defs = 'Import ListNotations.\nOpen Scope Z_scope.\n' + '\n'.join(d for d, _ in items)
            flat = [c for _, cs in items for c in cs]
            import time
            t0 = time.time()
            ok, failing, log = coqcases.run_cases(f'{name}_{k}', 'Graph Rings RingsFilter RingsGen RingsGenSpec', [c[3] for c in flat], extra=defs,
                                                  shard=max(1, len(flat)), timeout=900)
            self.times.append((round(time.time() - t0, 1), len(flat), flat[0][1][:40]))
            return ok, [flat[i][:3] for i in failing], log, len(flat)
        ok_all, failing, logs, n = True, [], [], 0
        with cf.ThreadPoolExecutor(max_workers=self.workers) as ex:
            for ok, fl, log, k in ex.map(one, range(len(jobs))):
                ok_all &= ok
                failing += fl
                n += k
                if log:
                    logs.append(log)
        return ok_all, failing, '\n'.join(logs), n


_uid = itertools.count()


def mol_cases(m, tag, fam, with_ref=True, max_ref_atoms=70, max_ref_rings=12):
    """Coq definitions + cases for one live molecule (every case is one helper application, see the end of model/Rings.v)"""
    i = next(_uid)
    sssr = list(m.sssr)
    nsc = m.not_special_connectivity
    from chython.algorithms.rings import _skin_graph
    sk_b = graph_term(_skin_graph(m._bonds))
    sk_n = graph_term(_skin_graph(nsc))
    defs = (f'(* {tag.replace("*", "?").replace("(", "<").replace(")", ">")} *)\n'
            f'Definition m{i} : mol := {mol_term(m)}.\n'
            f'Definition g{i} : graph := graph_of_not_special m{i}.\n'
            f'Definition rs{i} : list ring := {zll(sssr)}.\n'
            f'Definition sk{i} : pyres graph := Ok {sk_n}.')
    cases = [('checker', tag, {'sssr': sssr}, f'is_cycle_basis g{i} rs{i}'),
             ('corr', tag, 'not_special_connectivity', f'c_nsc m{i} {graph_term(nsc)}'),
             ('corr', tag, 'connected_components', f'c_cc (graph_of m{i}) (Ok {zll(sorted(c) for c in m.connected_components)})'),
             ('corr', tag, 'rings_count', f'c_rc g{i} (Ok {zraw(m.rings_count)})'),
             ('corr', tag, 'skin_graph(_bonds)', f'c_skin (graph_of m{i}) ' + (f'sk{i}' if sk_b == sk_n else f'(Ok {sk_b})')),
             ('corr', tag, 'skin_graph(not_special)', f'c_skin g{i} sk{i}')]
    ar = m.atoms_rings
    try:
        pos = {tuple(r): k for k, r in enumerate(sssr)}
        cases.append(('corr', tag, 'atoms_rings', f'c_ar rs{i} ' + lst([tup(zraw(n), lst([f'{pos[tuple(r)]}%nat' for r in rs])) for n, rs in ar.items()])))
    except KeyError:   # a ring that is not one of sssr: spelled out
        cases.append(('corr', tag, 'atoms_rings', f'c_ar_full rs{i} ' + lst([tup(zraw(n), zll(rs)) for n, rs in ar.items()])))
    cases.append(('corr', tag, 'atoms_rings_sizes', f'c_ars rs{i} {graph_term(m.atoms_rings_sizes)}'))
    try:
        arom = 'Ok ' + lst([f'{pos[tuple(r)]}%nat' for r in m.aromatic_rings])
    except KeyError:   # an aromatic ring that is not one of sssr (reported by the search): an index that selects nothing equal
        arom = 'Ok ' + lst([f'{len(sssr)}%nat'])
    except Exception as e:
        arom = 'Err ' + EXN.get(type(e).__name__, 'OtherError')
    cases.append(('corr', tag, 'aromatic_rings', f'c_arom m{i} rs{i} ({arom})'))
    m.calc_labels()
    atoms_l = lst([tup(zraw(n), tup(b(m._atoms[n].in_ring), zl(sorted(m._atoms[n].ring_sizes)))) for n in m._bonds])
    bonds_l = lst([b(bd.in_ring) for nb in m._bonds.values() for bd in nb.values()])
    cases.append(('corr', tag, 'calc_labels ring marks', f'c_lab m{i} rs{i} {atoms_l} {bonds_l}'))
    if with_ref and len(m) <= max_ref_atoms and m.rings_count <= max_ref_rings:
        if fam:
            cases.append(('oracle', tag, 'mcb_ref is a basis', f'is_cycle_basis g{i} (mcb_ref g{i})'))
        else:
            cases.append(('oracle', tag, {'sssr': sssr, 'what': 'total size vs mcb_ref'}, f'c_ref g{i} rs{i}'))
    return defs, cases


def bfs_oracle(R, bonds):
    import inspect
    import sys
    """run the REAL _bfs under sys.settrace and record, in the order of the calls, what every atoms.pop() returned and in
    which order every iteration over a set of atoms went; returns (paths, oracle)"""
    src, first = inspect.getsourcelines(R._bfs)
    text = {first + k: l.strip() for k, l in enumerate(src)}
    pops = [ln for ln, t in text.items() if t == 'tail = atoms.pop()']
    comps = [ln for ln, t in text.items() if t.startswith('next_stack = {x: [tail, x] for x in bonds[tail]')]
    fors = [ln for ln, t in text.items() if t == 'for n in neighbors:']
    if len(pops) != 2 or len(comps) != 2 or len(fors) != 1:
        raise RuntimeError('_bfs has an unexpected shape')
    body = fors[0] + 1           # first line of the loop body: n has just been bound
    if text[body] != 'if n in found_odd:':
        raise RuntimeError('_bfs has an unexpected shape')
    start = fors[0] - 2          # "if len(path) != 1:" of the branching case
    if text[start] != 'if len(path) != 1:' or text[fors[0] - 3] != 'elif neighbors:':
        raise RuntimeError('_bfs has an unexpected shape')
    events = []
    state = {'prev': None}
    code = R._bfs.__code__
    def tracer(frame, event, arg):
        if frame.f_code is not code:
            return None
        if event in ('line', 'return'):
            prev = state['prev']
            loc = frame.f_locals
            if event == 'line' and frame.f_lineno == prev:
                return tracer          # the inlined comprehension reports its own line once per element
            if prev in pops:
                events.append(('pop', [loc['tail']]))
            elif prev in comps:
                if loc['next_stack']:
                    events.append(('comp', list(loc['next_stack'])))
            if event == 'line':
                ln = frame.f_lineno
                if ln == start:
                    events.append(('for', []))
                elif ln == body:
                    events[-1][1].append(loc['n']) if events and events[-1][0] == 'for' else events.append(('for', [loc['n']]))
                state['prev'] = ln
        return tracer
    old = sys.gettrace()
    sys.settrace(tracer)
    try:
        paths = R._bfs(bonds)
    finally:
        sys.settrace(old)
    return paths, [e[1] for e in events]


def pid_rounds(R, paths):
    """run the REAL _make_pid under sys.settrace and snapshot both path tables every time control reaches `for k in pid1:`
    (after the first loop, after every round of the main loop, and at the end); returns (result, [(pid1 term, pid2 term)])"""
    import inspect
    import sys
    src, first = inspect.getsourcelines(R._make_pid)
    lines = [first + k for k, l in enumerate(src) if l.strip() == 'for k in pid1:']
    if len(lines) != 1:
        raise RuntimeError('_make_pid has an unexpected shape')
    code = R._make_pid.__code__
    snaps = []

    def tracer(frame, event, arg):
        if frame.f_code is not code:
            return None
        if event == 'line' and frame.f_lineno == lines[0]:
            loc = frame.f_locals
            snaps.append((d1_term(loc['pid1']), d1_term(loc['pid2'])))
        return tracer
    old = sys.gettrace()
    sys.settrace(tracer)
    try:
        res = R._make_pid(paths)
    finally:
        sys.settrace(old)
    return res, snaps


def d1_term(p):
    """pid1 / pid2 as nested association lists in insertion order"""
    return lst([tup(zraw(i), lst([tup(zraw(j), lst([tup(tup(zraw(k[0]), zraw(k[1])), zl(c)) for k, c in cell.items()])) for j, cell in row.items()]))
                for i, row in p.items()])


def gen_cases(ck, m, tag, stats, fam=(), tables=True):
    """the candidate generation and the whole perception: _bfs (set orders recorded from the real run by sys.settrace and handed
    to the model as its oracle), _make_pid (both path tables in insertion order and the distances), _c_set, and
    sssr_model == _rings_filter(_c_set(_make_pid(_bfs(_skin_graph(g)))), rings_count)"""
    from chython.algorithms import rings as R
    nu = m.rings_count
    nsc = m.not_special_connectivity
    if nu < 1 or len(nsc) > 60:
        return '', []
    sk = R._skin_graph(nsc)
    try:
        paths, orc = bfs_oracle(R, sk)
    except RuntimeError as e:
        ck.unchecked('the set orders of _bfs can no longer be recorded', str(e))
        return '', []
    paths = [tuple(p) for p in paths]
    rounds = None
    if tables and len(sk) <= 7 and ROUNDS_BUDGET[0] > 0:
        try:
            (pid1, pid2, dist), rounds = pid_rounds(R, paths)
            ROUNDS_BUDGET[0] -= 1
        except RuntimeError as e:
            ck.unchecked('the rounds of _make_pid can no longer be recorded', str(e))
            return '', []
    else:
        pid1, pid2, dist = R._make_pid(paths)
    small = tables and len(sk) <= 9
    if small:
        t1, t2 = d1_term(pid1), d1_term(pid2)
        tri = lst([tup(zraw(i), zraw(j), zraw(int(v))) for i, row in dist.items() for j, v in row.items()])
    cands = [tuple(c) for c in R._c_set(pid1, pid2, dist)]
    try:
        res = 'Ok ' + zll(R._rings_filter(iter(cands), nu))
        direct = None
        try:
            direct = 'Ok ' + zll(m.sssr)
        except Exception:
            pass
        if direct is not None and direct != res:
            stats['sssr differs between two runs of the same molecule'] += 1
            ck.unchecked('sssr recomputed step by step differs from mol.sssr', repr((tag, direct, res))[:600])
    except Exception as e:
        res = 'Err ' + EXN.get(type(e).__name__, 'OtherError')
    i = next(_uid)
    orc_t = zll(orc)
    defs = (f'Definition gg{i} : graph := {graph_term(nsc)}.\nDefinition sk{i}g : graph := {graph_term(sk)}.\n'
            f'Definition or{i} : oracle := {orc_t}.\nDefinition pa{i} : list path := {zll(paths)}.')
    cases = [('corr', tag, '_bfs with the recorded set orders', f'c_bfs sk{i}g or{i} (Ok pa{i})')]
    if small:
        cases += [('corr', tag, '_make_pid: pid1', f'c_pid1 pa{i} {t1}'), ('corr', tag, '_make_pid: pid2', f'c_pid2 pa{i} {t2}'),
                  ('corr', tag, '_make_pid: distances', f'c_dist pa{i} {tri}')]
        ck.count('candidate generation: path tables compared')
    if rounds is not None:
        # intermediate states of the most intricate function: both tables after the first loop and after every round
        for r, (a1, a2) in enumerate(rounds):
            cases.append(('corr', tag, f'_make_pid: tables after {r} rounds', f'c_pid_round pa{i} {r}%nat {a1} {a2}'))
        ck.count('candidate generation: molecules with every round of _make_pid compared')
        ck.count('candidate generation: rounds of _make_pid compared', len(rounds))
    if len(cands) <= 200:
        cases.append(('corr', tag, '_c_set(_make_pid(paths))', f'c_cset pa{i} (Ok {zll(cands)})'))
    cases.append(('corr', tag, 'sssr_model == the whole perception', f'c_sssr gg{i} or{i} ({res})'))
    if not fam:
        # hypothesis of the theorems on _c_set (every candidate a simple cycle, stream sorted by size), evaluated on the model's tables
        cases.append(('corr', tag, 'pid_ok: the path tables of _make_pid are well formed', f'c_pidok gg{i} pa{i}'))
    ck.count('candidate generation: molecules')
    return defs, cases


def filter_cases(ck, m, tag, cap=24):
    """the selection phase on the REAL candidate stream of this molecule: _rings_filter as a whole, and every call of
    _connected_rings / _is_condensed_ring / _get_unique_chord it makes (recorded by wrapping the module functions)"""
    from chython.algorithms import rings as R
    nu = m.rings_count
    if nu < 1:
        return '', [], False
    bonds = R._skin_graph(m.not_special_connectivity)
    cands = [tuple(c) for c in R._c_set(*R._make_pid(R._bfs(bonds)))]
    log = []
    orig = (R._connected_rings, R._is_condensed_ring, R._get_unique_chord)

    def wrap(kind, fn, arg_of):
        def inner(*a):
            arg = arg_of(*a)
            try:
                out = fn(*a)
            except Exception as e:
                log.append((kind, arg, 'Err ' + EXN.get(type(e).__name__, 'OtherError')))
                raise
            log.append((kind, arg, [tuple(r) for r in out] if kind == 'cr' else out))   # the caller mutates the returned list
            return out
        return inner
    R._connected_rings = wrap('cr', orig[0], lambda rings, seen: [tuple(r) for r in rings])
    R._is_condensed_ring = wrap('icr', orig[1], lambda c, sssr, seen: (tuple(c), [tuple(r) for r in sssr]))
    R._get_unique_chord = wrap('guc', orig[2], lambda ring, common: (tuple(ring), sorted(common)))
    try:
        try:
            res = 'Ok ' + zll(R._rings_filter(iter(cands), nu))
        except Exception as e:
            res = 'Err ' + EXN.get(type(e).__name__, 'OtherError')
    finally:
        R._connected_rings, R._is_condensed_ring, R._get_unique_chord = orig
    i = next(_uid)
    defs = f'Definition cs{i} : list ring := {zll(cands)}.'
    cases = [('corr', tag, '_rings_filter on the real candidate stream', f'c_rf cs{i} {nu}%nat ({res})')]
    ck.count('selection phase: ' + ('first phase only' if not log else 'condensed-ring phase reached'))
    seen = set()
    for kind, arg, out in log:
        key = repr((kind, arg))
        if key in seen or len(cases) > cap:
            continue
        seen.add(key)
        ck.count('selection phase call: ' + kind)
        if kind == 'cr':
            e = out if isinstance(out, str) else 'Ok ' + zll(out)
            cases.append(('corr', tag, '_connected_rings' + repr(arg)[:200], f'c_cr {zll(arg)} ({e})'))
        elif kind == 'icr':
            e = out if isinstance(out, str) else 'Ok ' + b(out)
            cases.append(('corr', tag, '_is_condensed_ring' + repr(arg)[:200], f'c_icr {zl(arg[0])} {zll(arg[1])} ({e})'))
        else:
            if isinstance(out, str):
                continue
            e = 'None' if out is None else f'(Some {zl(out)})'
            cases.append(('corr', tag, '_get_unique_chord' + repr(arg)[:200], f'c_guc {zl(arg[0])} {zl(arg[1])} {e}'))
    return defs, cases, bool(log)


def helper_cases(ck, rng, rings_pool):
    """the private helpers on well-formed and malformed arguments"""
    from chython.algorithms import rings as R
    cases = []

    def add(label, payload, expr):
        cases.append(('corr', label, payload, expr))
    # _canonic_ring / _ring_scissors / _ring_adjacency: all rotations and reflections of real rings + malformed tuples
    pool = []
    for r in rings_pool:
        n = len(r)
        for k in range(n):
            pool.append(tuple(r[k:] + r[:k]))
            pool.append(tuple((r[k:] + r[:k])[::-1]))
    pool = sorted(set(pool))
    rng.shuffle(pool)
    pool = pool[:400]
    bad = [(), (5,), (5, 3), (3, 5), (2, 2), (1, 1, 1), (4, 1, 4, 1), (3, 1, 2, 1), (1, 2, 3, 1), (7, 7, 2), (2, 7, 7), (9, 8, 7, 6, 5, 9),
           (1, 2), (2, 1), (1, 2, 3), (3, 2, 1), (2, 1, 3), (2, 3, 1), (-1, 5, -3), (0, 0)]
    for t in range(60):
        n = rng.randint(1, 7)
        bad.append(tuple(rng.randint(1, 5) for _ in range(n)))
    for r in pool + bad:
        got = res_term(lambda: R._canonic_ring(r), zl)
        add('_canonic_ring', repr(r), f'c_canon {zl(r)} ({got})')
        ck.case(('canon', r), nontrivial=got.startswith('Ok'))
        ck.count('helper:_canonic_ring:' + got.split()[0])
        got = res_term(lambda: [(k, v) for k, v in R._ring_adjacency(r).items()], lambda d: lst([tup(zraw(k), zl(v)) for k, v in d]))
        add('_ring_adjacency', repr(r), f'c_radj {zl(r)} ({got})')
        ck.case(('radj', r), nontrivial=got.startswith('Ok'))
        ck.count('helper:_ring_adjacency:' + got.split()[0])
        members = sorted(set(r))[:6] + [99]
        pairs = [(x, y) for x in members for y in members]
        rng.shuffle(pairs)
        for x, y in pairs[:6]:
            got = res_term(lambda: R._ring_scissors(r, x, y), zl)
            add('_ring_scissors', repr((r, x, y)), f'c_sciss {zl(r)} {zraw(x)} {zraw(y)} ({got})')
            ck.case(('scis', r, x, y), nontrivial=got.startswith('Ok'))
            ck.count('helper:_ring_scissors:' + got.split()[0])
    # _connected_components / _skin_graph on raw dicts: symmetric ones, and malformed ones (dangling neighbour -> KeyError;
    # asymmetric for _skin_graph only, whose result does not depend on set order)
    for t in range(220):
        n = rng.randint(0, 7)
        keys = rng.sample(range(1, 12), n)
        adj = {k: set() for k in keys}
        for a, c in itertools.combinations(keys, 2):
            if rng.random() < 0.3:
                adj[a].add(c)
                adj[c].add(a)
        kind = rng.choice(['sym', 'sym', 'dangling', 'asym', 'loop']) if n else 'sym'
        if kind == 'dangling':
            adj[rng.choice(keys)].add(77)
        elif kind == 'asym' and n > 1:
            a, c = rng.sample(keys, 2)
            adj[a].add(c)
            adj[c].discard(a)
        elif kind == 'loop':
            a = rng.choice(keys)
            adj[a].add(a)
        gt = graph_term(adj)
        if kind != 'asym':
            got = res_term(lambda: R._connected_components(adj), lambda cs: zll(sorted(c) for c in cs))
            add('_connected_components', repr(adj), f'c_cc {gt} ({got})')
            ck.case(('cc-raw', t), nontrivial=True)
            ck.count(f'helper:_connected_components:{kind}:' + got.split()[0])
        got = res_term(lambda: R._skin_graph(adj), graph_term)
        add('_skin_graph', repr(adj), f'c_skin {gt} ({got})')
        ck.case(('skin-raw', t), nontrivial=True)
        ck.count(f'helper:_skin_graph:{kind}:' + got.split()[0])
    return cases


# =====================================================================================================
# the property-level search on one molecule (pure Python oracles)

def graph_key(adj):
    E = edges_of(adj)
    return f'{len(adj)}-{len(E)}:' + '.'.join(f'{a}-{c}' for a, c in E)


def replay_code(m):
    atoms = [(n, a.atomic_symbol) for n, a in m._atoms.items()]
    bonds = [(n, k, int(bd)) for n, k, bd in m.bonds()]
    return (f"from chython import MoleculeContainer\nm=MoleculeContainer()\n"
            f"for n,s in {atoms!r}: m.add_atom(s,n,_skip_calculation=True)\n"
            f"for a,c,o in {bonds!r}: m.add_bond(a,c,o,_skip_calculation=True)\n"
            f"m.calc_labels()\nprint('sssr',m.sssr)\nprint('rings_count',m.rings_count)\n"
            f"print('atoms',[(n,a.in_ring,sorted(a.ring_sizes)) for n,a in m.atoms()])\n"
            f"print('bonds',[(n,k,int(bd),bd.in_ring) for n,k,bd in m.bonds()])\nprint('components',m.connected_components)\nprint('skin_graph',m.skin_graph)\nprint('aromatic_rings',m.aromatic_rings)")


CE_CLASS = Counter()   # counterexamples reported per failure class
CE_CAP = 12            # replay files per failure class (all further ones are only counted)


def report(ck, key, *a, **kw):
    """ck.counterexample with at most CE_CAP replay files per failure class (the part of the key before the first colon)"""
    cls = key.split(':')[0]
    CE_CLASS[cls] += 1
    if CE_CLASS[cls] <= CE_CAP or ck.match_known(key) is not None:
        return ck.counterexample(key, *a, **kw)
    return True


ROUNDS_BUDGET = [0]    # molecules whose _make_pid is compared round by round (set per run)
INVALID = set()   # tags of inputs whose sssr the Python validity oracle rejected (or that raised)
GAP_TAGS = set()  # tags of inputs that belong to a recorded gap family (outside the claimed domain)


def family_key(fam):
    return '+'.join(sorted(fam)) if fam else 'claimed-domain'


def search_one(ck, m, tag, fam, ref_sizes=None, stats=None):
    """all Python oracles on one live molecule; returns the sorted ring sizes (or None)"""
    adj = plain_adj(m)
    full = plain_adj(m, special=True)
    inp = {'tag': tag, 'atoms': list(m._atoms), 'bonds': [(n, k, int(bd)) for n, k, bd in m.bonds()]}
    rp = replay_code(m)
    gk = graph_key(adj)
    stats = stats if stats is not None else Counter()
    if fam:
        GAP_TAGS.add(tag)
    try:
        with deadline(SLOW):
            sssr = list(m.sssr)
    except Deadline:
        INVALID.add(tag)
        stats['sssr does not return'] += 1
        if not fam:
            report(ck, f'sssr-timeout:{gk}', f'sssr did not return within {SLOW} s (the unchanged code needs < 1 s on every input of this check)', inp,
                   'no result', 'a ring list', 'wall-clock deadline', replay_py=rp)
        return None
    except Exception as e:
        INVALID.add(tag)
        if fam:     # outside the claimed domain of the property (recorded heuristic gaps): counted, not reported
            stats[f'gap-family input ({family_key(fam)}): sssr raises {type(e).__name__}'] += 1
            return None
        stats['sssr raises'] += 1
        report(ck, f'sssr-raises:{gk}', f'sssr raises {type(e).__name__}', inp,
                          type(e).__name__, 'a ring list', 'every molecule has a cycle basis', replay_py=rp)
        return None
    # (1) validity: count, simple cycles of existing not-special bonds, independence
    d = basis_defect(adj, sssr)
    if d:
        INVALID.add(tag)
        if fam:     # outside the claimed domain (e.g. the dense 7-atom / 12-bond cage gives a dependent set): counted only
            stats[f'gap-family input ({family_key(fam)}): sssr is not a cycle basis ({d})'] += 1
        else:
            stats['invalid basis'] += 1
            report(ck, f'sssr-{d}:{gk}',
                              f'sssr is not a cycle basis ({d}) [{len(adj)} atoms / {len(edges_of(adj))} bonds]', inp, sssr,
                              'bonds-atoms+components linearly independent simple cycles', 'GF(2) elimination on edge sets (Python)', replay_py=rp)
    sizes = sorted(len(r) for r in sssr)
    # (2) minimum total size: the size vector of a minimum cycle basis is unique, compare with the reference
    if not d:
        if ref_sizes is None:
            ref_sizes = horton_sizes(adj)
        if sizes != ref_sizes:
            if fam:
                stats['gap-family input with a non-minimum / numbering dependent ring set'] += 1
            else:
                report(ck, f'sssr-not-minimum:{gk}', 'sssr is a basis but not a minimum one (or its size multiset depends on numbering)',
                                  inp, sizes, ref_sizes, 'Horton candidates + greedy GF(2) elimination (Python)', replay_py=rp)
        elif fam:
            stats['gap-family input that nevertheless agrees with the reference'] += 1
    # (3) every ring is spelled canonically
    for r in sssr:
        if len(set(r)) == len(r) and len(r) >= 3 and tuple(r) != ref_canonic(tuple(r)):
            report(ck, f'ring-not-canonical:{gk}', 'an sssr ring is not in canonical spelling (min first, smaller neighbour second)', inp,
                              r, ref_canonic(tuple(r)), 'lexicographic minimum over rotations and reflections', replay_py=rp)
            break
    # (4) counts and components
    comps = ref_components(adj)
    nu = len(edges_of(adj)) - len(adj) + len(comps)
    if m.rings_count != nu:
        report(ck, f'rings_count:{gk}', 'rings_count is not bonds - atoms + components (special bonds ignored)', inp, m.rings_count, nu,
                          'own component count', replay_py=rp)
    got = sorted(sorted(c) for c in m.connected_components)
    exp = sorted(sorted(c) for c in ref_components(full))
    if got != exp:
        report(ck, f'components:{gk}', 'connected_components differ from a breadth-first reference', inp, got, exp, 'own BFS', replay_py=rp)
    # (4b) pruning of acyclic parts: skin_graph is the 2-core of the full graph (every cycle kept, no terminal atom left)
    sk = {n: set(ms) for n, ms in m.skin_graph.items()}
    core = ref_two_core(full)
    if sk != core:
        report(ck, f'skin_graph:{graph_key(full)}', 'skin_graph is not the graph without (recursively) terminal atoms', inp,
                          {n: sorted(v) for n, v in sorted(sk.items())}, {n: sorted(v) for n, v in sorted(core.items())}, 'own 2-core', replay_py=rp)
    if m.connected_components_count != len(exp):
        report(ck, f'components_count:{gk}', 'connected_components_count wrong', inp, m.connected_components_count, len(exp), 'own BFS', replay_py=rp)
    # (5) marks
    if not d:
        m.calc_labels()
        br = ref_bridges(adj)
        on_cycle = {v for (a, c) in edges_of(adj) if (a, c) not in br for v in (a, c)}
        for n, a in m._atoms.items():
            exp_sizes = {len(r) for r in sssr if n in r}
            if a.in_ring != (n in on_cycle) or set(a.ring_sizes) != exp_sizes:
                report(ck, f'atom-marks:{gk}', 'atom in_ring / ring_sizes disagree with the ring set', inp,
                                  [n, a.in_ring, sorted(a.ring_sizes)], [n, n in on_cycle, sorted(exp_sizes)],
                                  'atom lies on a cycle (bridge finder); sizes of the sssr rings through it', replay_py=rp)
                break
        ring_bonds = {(min(x, y), max(x, y)) for r in sssr for x, y in zip(r, tuple(r[1:]) + tuple(r[:1]))}
        for n, k, bd in m.bonds():
            e = (min(n, k), max(n, k))
            if int(bd) == 8:
                stats['special bonds'] += 1
                if bd.in_ring:
                    stats['special bond marked in_ring'] += 1
                    report(ck, 'bond-mark:special-chord', 'a special (order 8) bond whose ends lie in one ring is marked in_ring although rings '
                                      'ignore special bonds', inp, [n, k, True], [n, k, False], 'the bond is in no ring of the set', replay_py=rp)
                continue
            exp_in = e not in br
            if bd.in_ring != exp_in or (e in ring_bonds) != exp_in:
                report(ck, f'bond-marks:{gk}', 'bond in_ring disagrees with the ring set', inp, [n, k, bd.in_ring, e in ring_bonds], [n, k, exp_in],
                                  'bond is not a bridge of the not-special graph <-> it is a bond of some basis ring', replay_py=rp)
                break
        ar = m.atoms_rings
        if {n: [tuple(r) for r in rs] for n, rs in ar.items()} != {n: [tuple(r) for r in sssr if n in r] for n in on_cycle}:
            report(ck, f'atoms_rings:{gk}', 'atoms_rings is not {atom: rings containing it}', inp, dict(ar), 'rings per atom', 'recomputed', replay_py=rp)
        arom = [tuple(r) for r in m.aromatic_rings]
        order = {(n, k): int(bd) for n, k, bd in m.bonds()}
        order.update({(k, n): o for (n, k), o in list(order.items())})
        exp_arom = [tuple(r) for r in sssr if all(order.get((x, y)) == 4 for x, y in zip(r, tuple(r[1:]) + tuple(r[:1])))]
        if arom != exp_arom:
            report(ck, f'aromatic_rings:{gk}', 'aromatic_rings is not the list of sssr rings all of whose bonds are aromatic', inp, arom, exp_arom,
                              'recomputed from the bond iterator', replay_py=rp)
    return None if d else sizes


def ring_views(m):
    """what the property observes, as comparable values (labels are read as stored, NOT recomputed)"""
    return {'sssr': sorted(tuple(r) for r in m.sssr), 'rings_count': m.rings_count,
            'components': sorted(sorted(c) for c in m.connected_components),
            'atoms_rings_sizes': {n: sorted(v) for n, v in sorted(m.atoms_rings_sizes.items())},
            'atom marks': [(n, a.in_ring, sorted(a.ring_sizes)) for n, a in sorted(m._atoms.items())],
            'bond marks': sorted((min(n, k), max(n, k), bd.in_ring) for n, k, bd in m.bonds())}


class _Abort(Exception):
    """leaves a `with mol:` block so that the transaction is rolled back"""


def transaction(m, rng, commit):
    """a transaction `with m:` that edits the bond graph, READS the ring / component views inside the block (after the edit), and
    is then committed or left by an exception (rolled back).  returns a description, or None when nothing could be edited"""
    atoms = list(m._atoms)
    bonds = [(n, k) for n, k, _ in m.bonds()]
    free = [(a, c) for a, c in itertools.combinations(atoms, 2) if c not in m._bonds[a]]
    kinds = (['delete_bond'] * 2 if bonds else []) + (['add_bond'] if free else []) + (['delete_atom'] if len(atoms) > 2 else [])
    if not kinds:
        return None
    kind = rng.choice(kinds)
    what = []
    try:
        with m:
            if kind == 'delete_bond':
                a, c = rng.choice(bonds)
                m.delete_bond(a, c)
                what.append(f'delete_bond({a}, {c})')
            elif kind == 'add_bond':
                a, c = rng.choice(free)
                m.add_bond(a, c, 1)
                what.append(f'add_bond({a}, {c}, 1)')
            else:
                a = rng.choice(atoms)
                m.delete_atom(a)
                what.append(f'delete_atom({a})')
            # the views are read INSIDE the block: they describe the edited structure and are cached on the molecule
            m.sssr, m.rings_count, m.atoms_rings, m.atoms_rings_sizes, m.connected_components, m.connected_components_count
            what.append('read sssr / rings_count / atoms_rings / atoms_rings_sizes / connected_components inside the block')
            if not commit:
                raise _Abort()
    except _Abort:
        what.append('raise -> rolled back')
    else:
        what.append('committed')
    return 'with mol: ' + '; '.join(what)


def edit_search(ck, m0, tag, rng, stats):
    """the cached ring views after an edit through the public API == those of the same molecule built from scratch
    (state clause of the property: sssr / atoms_rings / rings_count / components are cached and must not survive an edit
    of the bonds); also copy(keep_sssr=True, keep_components=True)"""
    from chython import MoleculeContainer
    m = m0.copy()
    try:
        ring_views(m)       # fill the cache
    except Exception:
        return
    atoms = list(m._atoms)
    bonds = [(n, k) for n, k, _ in m.bonds()]
    free = [(a, c) for a, c in itertools.combinations(atoms, 2) if c not in m._bonds[a]]
    ops = []
    if bonds:
        ops += ['delete_bond', 'delete_bond']
    if free:
        ops += ['add_bond', 'add_bond', 'add_special']
    if len(atoms) > 1:
        ops += ['delete_atom']
    ops += ['add_atom+bonds', 'remap', 'copy-keep', 'tx-rollback', 'tx-rollback', 'tx-commit']
    op = rng.choice(ops)
    stats['edit:' + op] += 1
    what = op
    try:
        if op == 'delete_bond':
            a, c = rng.choice(bonds)
            m.delete_bond(a, c)
            what = f'delete_bond({a}, {c})'
        elif op in ('add_bond', 'add_special'):
            a, c = rng.choice(free)
            m.add_bond(a, c, 8 if op == 'add_special' else 1)
            what = f'add_bond({a}, {c}, {8 if op == "add_special" else 1})'
        elif op == 'delete_atom':
            a = rng.choice(atoms)
            m.delete_atom(a)
            what = f'delete_atom({a})'
        elif op in ('tx-rollback', 'tx-commit'):
            what = transaction(m, rng, commit=(op == 'tx-commit'))
            if what is None:
                return
        elif op == 'add_atom+bonds':
            n = m.add_atom('C')
            nb = rng.sample(atoms, min(len(atoms), rng.choice([1, 2, 2, 3])))
            for k in nb:
                m.add_bond(n, k, 1)
            what = f'add_atom C as {n} bonded to {nb}'
        elif op == 'remap':
            new = rng.sample(range(1, 2 * len(atoms) + 1), len(atoms))
            mp = dict(zip(atoms, new))
            m.remap(mp)
            what = f'remap({mp})'
        else:
            m = m.copy(keep_sssr=True, keep_components=True)
            what = 'copy(keep_sssr=True, keep_components=True)'
    except Exception as e:     # valence errors etc. are not this property's business
        stats[f'edit raised {type(e).__name__}'] += 1
        return
    fresh = MoleculeContainer()
    for n, a in m._atoms.items():
        fresh.add_atom(a.copy(), n, _skip_calculation=True)
    for n, k, bd in m.bonds():
        fresh.add_bond(n, k, int(bd), _skip_calculation=True)
    fresh.calc_labels()
    ck.case(('edit', tag, what), nontrivial=True)
    try:
        got, exp = ring_views(m), ring_views(fresh)
    except Exception as e:
        stats[f'edit views raised {type(e).__name__}'] += 1
        return
    fam = gap_families(plain_adj(fresh)) or gap_families(plain_adj(m0))
    for key in got:
        if got[key] != exp[key]:
            if fam and key not in ('rings_count', 'components'):
                # recorded gap family (before or after the edit): what the heuristic selects there depends on dict / set order
                stats['edit: gap-family input, ring selection differs after rebuild (not reported)'] += 1
                continue
            if key in ('sssr', 'atoms_rings_sizes', 'atom marks') and sorted(map(len, got['sssr'])) == sorted(map(len, exp['sssr'])) \
                    and basis_defect(plain_adj(m), [tuple(r) for r in m.sssr]) is None:
                # another equally valid basis (the selection depends on dict / set order): not a stale cache
                stats['edit: different but valid basis of the same sizes'] += 1
                continue
            inp = {'tag': tag, 'start atoms': list(m0._atoms), 'start bonds': [(n, k, int(bd)) for n, k, bd in m0.bonds()], 'edit': what}
            report(ck, f'stale-after-edit:{op}:{key}', f'after {op} the cached / stored ring view `{key}` differs from the molecule rebuilt from scratch',
                              inp, got[key], exp[key], 'rebuild from scratch with the same atoms and bonds')
            return


# =====================================================================================================
# histories through the standardisation API: every public method that changes the structure and calls
# flush_cache(keep_sssr=..., keep_components=...) with a PART of the cache kept

def fresh_copy(m):
    """the same atoms and bonds built from scratch through add_atom / add_bond (nothing cached, labels recomputed)"""
    from chython import MoleculeContainer
    fresh = MoleculeContainer()
    for n, a in m._atoms.items():
        fresh.add_atom(a.copy(), n, _skip_calculation=True)
    for n, k, bd in m.bonds():
        fresh.add_bond(n, k, int(bd), _skip_calculation=True)
    fresh.calc_labels()
    return fresh


def all_views(m):
    """ring_views + the connectivity without coordinate bonds they are computed from + the component count"""
    v = ring_views(m)
    v['connected_components_count'] = m.connected_components_count
    v['not_special_connectivity'] = {n: sorted(ms) for n, ms in sorted(m.not_special_connectivity.items())}
    return v


COUNTER_IONS = ('Na', 'K', 'Li', 'Ca', 'Mg', 'N')
HISTORY_OPS = ('remove_metals', 'remove_metals', 'explicify_hydrogens', 'explicify_hydrogens', 'implicify_hydrogens', 'implicify_hydrogens',
               'remove_coordinate_bonds', 'remove_coordinate_bonds', 'kekule', 'thiele', 'standardize', 'neutralize', 'canonicalize',
               'clean_isotopes', 'clean_stereo', 'fix_resonance', 'remove_acids', 'split_metal_salts')


def history(m, op, rng):
    """prepares m for `op` (so that the method has something to do), fills EVERY cached view, then runs the public method.
    returns (description, value returned by the method)"""
    pre = []
    atoms = list(m._atoms)
    if op == 'remove_metals':           # counter-ions / ammonia next to the molecule
        for _ in range(rng.choice([1, 1, 2])):
            s = rng.choice(COUNTER_IONS)
            n = m.add_atom(s)
            pre.append(f'add_atom({s!r}) as {n}')
    elif op == 'implicify_hydrogens':   # hydrogens made explicit first
        pre.append(f'explicify_hydrogens() -> {m.explicify_hydrogens()}')
    elif op == 'remove_coordinate_bonds':
        k = rng.choice([1, 1, 2])
        free = [(a, c) for a, c in itertools.combinations(atoms, 2) if c not in m._bonds[a]]
        if rng.random() < 0.5 or not free:      # a metal centre coordinated by the molecule
            n = m.add_atom(rng.choice(['Fe', 'Cu', 'Na', 'Pt']))
            pre.append(f'add_atom(metal) as {n}')
            for a in rng.sample(atoms, min(k, len(atoms))):
                m.add_bond(n, a, 8)
                pre.append(f'add_bond({n}, {a}, 8)')
        else:
            for a, c in rng.sample(free, min(k, len(free))):
                m.add_bond(a, c, 8)
                pre.append(f'add_bond({a}, {c}, 8)')
    elif op == 'thiele':                # aromatic rings written as alternating bonds first
        pre.append(f'kekule() -> {m.kekule()}')
    elif op == 'clean_isotopes':
        a = rng.choice(atoms)
        m._atoms[a]._isotope = m._atoms[a].mdl_isotope + 1
        m.flush_cache()
        pre.append(f'isotope mark on atom {a}')
    all_views(m)        # the history: every view has been read once (cached) before the method runs
    m.skin_graph
    pre.append('read sssr / rings_count / atoms_rings(_sizes) / connected_components(_count) / not_special_connectivity / skin_graph')
    ret = getattr(m, op)()
    pre.append(f'{op}() -> {ret!r}'[:200])
    return '; '.join(pre), ret


def compare_with_fresh(ck, m, m0, tag, cls, op, what, stats, views=ring_views):
    """the cached / stored views of m == those of the same atoms and bonds built from scratch; returns the views that differ"""
    fresh = fresh_copy(m)
    ck.case((cls, tag, what), nontrivial=True)
    try:
        got, exp = views(m), views(fresh)
    except Exception as e:
        stats[f'{cls} views raised {type(e).__name__}'] += 1
        return []
    fam = gap_families(plain_adj(fresh)) or gap_families(plain_adj(m0))
    bad = []
    for key in got:
        if got[key] != exp[key]:
            if fam and key not in ('rings_count', 'components', 'connected_components_count', 'not_special_connectivity'):
                # recorded gap family (before or after the edit): what the heuristic selects there depends on dict / set order
                stats[f'{cls}: gap-family input, ring selection differs after rebuild (not reported)'] += 1
                continue
            if key in ('sssr', 'atoms_rings_sizes', 'atom marks') and sorted(map(len, got['sssr'])) == sorted(map(len, exp['sssr'])) \
                    and basis_defect(plain_adj(m), [tuple(r) for r in m.sssr]) is None:
                # another equally valid basis (the selection depends on dict / set order): not a stale cache
                stats[f'{cls}: different but valid basis of the same sizes'] += 1
                continue
            inp = {'tag': tag, 'start atoms': [(n, a.atomic_symbol) for n, a in m0._atoms.items()],
                   'start bonds': [(n, k, int(bd)) for n, k, bd in m0.bonds()], cls: what}
            rp = (f"from chython import MoleculeContainer\nm=MoleculeContainer()\n"
                  f"for n,s in {inp['start atoms']!r}: m.add_atom(s,n,_skip_calculation=True)\n"
                  f"for a,c,o in {inp['start bonds']!r}: m.add_bond(a,c,o,_skip_calculation=True)\n"
                  f"m.fix_structure()\n# then: {what}\n")
            report(ck, f'stale-after-{cls}:{op}:{key}', f'after {op} the cached / stored ring view `{key}` differs from the molecule rebuilt from scratch',
                   inp, got[key], exp[key], 'rebuild from scratch with the same atoms and bonds', replay_py=rp)
            bad.append(key)
    return bad


def history_search(ck, m0, tag, rng, stats, batch=None, budget=None):
    """state clause of the property for the standardisation API: a molecule whose ring / component views have all been read, after a
    public method that changes atoms / bond orders / coordinate bonds and keeps PART of the cache (flush_cache(keep_sssr=, keep_components=)),
    has the views of the same structure built from scratch; the object also goes through all search oracles and (budget) through Coq"""
    m = m0.copy()
    op = rng.choice(HISTORY_OPS)
    try:
        what, ret = history(m, op, rng)
    except Exception as e:     # valence errors, methods that refuse the structure: not this property's business
        stats[f'history:{op} raised {type(e).__name__}'] += 1
        return
    stats['history:' + op] += 1
    if ret in (False, 0, None, []) or (isinstance(ret, tuple) and not ret[0]):
        stats[f'history:{op} changed nothing'] += 1
    for key in compare_with_fresh(ck, m, m0, tag, 'history', op, what, stats, views=all_views):
        if ck.match_known(f'stale-after-history:{op}:{key}') is not None and key in m.__dict__:
            # a recorded finding (stale cached attribute): dropped here so that the remaining oracles and the correspondence look at the
            # REST of the object's state instead of reporting the same recorded defect again
            del m.__dict__[key]
            stats[f'history:{op}: recorded stale `{key}` dropped before the further checks'] += 1
    htag = f'{tag} | {what}'
    fam = gap_families(plain_adj(m))
    ck.count('standardisation histories (search)')
    # the SAME object through the independent oracles (own BFS components, cyclomatic number, marks ...): as stored, before any recomputation
    search_one(ck, m, htag, fam, stats=stats)
    if batch is not None and budget and budget[0] > 0 and len(m) <= 45 and not fam and op in HISTORY_COQ_OPS:
        budget[0] -= 1
        try:
            batch.add(*mol_cases(m, htag, fam, with_ref=False))
            ck.count('standardisation histories through Coq')
            return htag
        except Exception as e:
            stats[f'history copy not sent to Coq ({type(e).__name__})'] += 1


HISTORY_COQ_OPS = ('remove_metals', 'explicify_hydrogens', 'implicify_hydrogens', 'remove_coordinate_bonds', 'standardize', 'split_metal_salts',
                   'remove_acids')


# =====================================================================================================

def input_stream(ck):
    """yields (tag, thunk building the molecule or None); deterministic for a fixed seed.  The molecule is built by the consumer
    (under a deadline: building one runs ring perception)"""
    rng = random.Random(f'{ck.seed}:c06:inputs')
    quick = ck.tier == 'quick'
    # hand-made: every ring-system type, the recorded gap witnesses, special bonds
    named = {
        'cyclopropane': {1: {2, 3}, 2: {1, 3}, 3: {1, 2}},
        'spiro[2.2]': {1: {2, 3, 4, 5}, 2: {1, 3}, 3: {1, 2}, 4: {1, 5}, 5: {1, 4}},
        'bicyclo[1.1.0]': {1: {2, 3, 4}, 2: {1, 3}, 3: {1, 2, 4}, 4: {1, 3}},
        'K4': {1: {2, 3, 4}, 2: {1, 3, 4}, 3: {1, 2, 4}, 4: {1, 2, 3}},
        'cubane': {1: {2, 4, 5}, 2: {1, 3, 6}, 3: {2, 4, 7}, 4: {1, 3, 8}, 5: {1, 6, 8}, 6: {2, 5, 7}, 7: {3, 6, 8}, 8: {4, 5, 7}},
        'dense-cage-7-12': {1: {2, 3, 4}, 2: {1, 3, 5, 6}, 3: {1, 2, 5, 7}, 4: {1, 5, 6}, 5: {2, 3, 4, 7}, 6: {2, 4, 7}, 7: {3, 5, 6}},
    }
    for nm, adj in named.items():
        yield nm, lambda: mol_from_graph(adj, natural=True)
    for br in ((1, 2, 2), (2, 2, 2), (2, 2, 3), (2, 3, 3), (3, 3, 3), (3, 4, 5), (3, 5, 5), (4, 6, 7), (1, 4, 4), (2, 4, 6)):
        yield f'theta{br}', lambda: mol_from_graph(theta(*br))
    # special bonds: a chord, a ring closed only by a special bond, a special bond between two components
    sq = {1: {2, 4}, 2: {1, 3}, 3: {2, 4}, 4: {1, 3}}
    yield 'square+special-chord', lambda: mol_from_graph({1: {2, 4, 3}, 2: {1, 3}, 3: {2, 4, 1}, 4: {1, 3}}, special=[(1, 3)])
    yield 'chain-closed-by-special', lambda: mol_from_graph(sq, special=[(1, 4)])
    yield 'two-rings-joined-by-special', lambda: mol_from_graph({1: {2, 3, 4}, 2: {1, 3}, 3: {1, 2}, 4: {1, 5, 6}, 5: {4, 6}, 6: {4, 5}}, special=[(1, 4)])
    yield 'all-special-triangle', lambda: mol_from_graph({1: {2, 3}, 2: {1, 3}, 3: {1, 2}}, special=[(1, 2), (2, 3), (1, 3)])
    from chython import MoleculeContainer
    yield 'empty', lambda: MoleculeContainer()
    yield 'single-atom', lambda: mol_from_graph({1: set()})
    yield 'two-components', lambda: mol_from_graph({1: {2, 3}, 2: {1, 3}, 3: {1, 2}, 7: {8}, 8: {7}, 9: set()}, order=[9, 3, 8, 1, 7, 2])
    # random special decorations of small graphs
    for t in range(40 if quick else 300):
        n = rng.randint(3, 7)
        adj = {i: set() for i in range(1, n + 1)}
        for a, c in itertools.combinations(range(1, n + 1), 2):
            if rng.random() < 0.45 and len(adj[a]) < 4 and len(adj[c]) < 4:
                adj[a].add(c)
                adj[c].add(a)
        es = edges_of(adj)
        sp = [e for e in es if rng.random() < 0.3]
        order = list(adj)
        rng.shuffle(order)
        yield f'special-random-{t}', lambda: mol_from_graph(adj, order=order, special=sp)
    # assemblies and macrocycles
    for t in range(120 if quick else 3000):
        yield f'assembly-{t}', lambda: mol_from_graph(assemble(rng))
    for t in range(25 if quick else 400):
        yield f'macrocycle-{t}', lambda: mol_from_graph(macrocycle(rng))
    # corpus
    from chython import smiles
    for smi in corpus.sample(corpus.lipo(), 300 if quick else 4200, ck.seed, 'c06'):
        def read(smi=smi):
            try:
                return smiles(smi)
            except Exception:
                ck.count('corpus: unreadable')
                return None
        yield 'lipo:' + smi, read
    # the repository's ring test set, record by record
    from chython import SDFRead
    import warnings
    path = os.path.join(common.REPO, 'test/cycle.sdf')
    try:
        expected = open(path).read().count('$$$$')
    except OSError:
        expected = -1
    got = 0
    try:
        with warnings.catch_warnings():
            warnings.simplefilter('ignore')
            with SDFRead(path) as f:
                it = iter(f)
                for k in range(max(expected, 0)):
                    box = []

                    def read():
                        try:
                            box.append(next(it))
                        except StopIteration:
                            return None
                        return box[0]
                    yield f'cycle.sdf#{k}', read
                    if not box:
                        break
                    got += 1
    except Exception as e:
        ck.count(f'cycle.sdf reader raised {type(e).__name__}')
    ck.count('cycle.sdf records', got)
    if got != expected:
        ck.unchecked('the ring test set test/cycle.sdf is no longer read completely', f'{got} of {expected} records became molecules')


def exhaustive_chunk(args):
    """worker of the exhaustive search: (n, maxrings, k_edges, first_pair_index) -> counters + findings;
    the implementation is called on the adjacency (the molecule API is exercised on the <= 6 atom part in run())"""
    n, k, first, second = args          # second: index of the second bond as well (None: all), to balance the big chunks
    import boot  # noqa
    from chython.algorithms.rings import _sssr, _connected_components
    pairs = list(itertools.combinations(range(1, n + 1), 2))
    out = Counter()
    finds = []
    if second is None:
        head, rest = (pairs[first],), pairs[first + 1:]
    else:
        head, rest = (pairs[first], pairs[second]), pairs[second + 1:]
    for tail in itertools.combinations(rest, k - len(head)):
        es = head + tail
        deg = [0] * (n + 1)
        ok = True
        for a, c in es:
            deg[a] += 1
            deg[c] += 1
            if deg[a] > 4 or deg[c] > 4:
                ok = False
                break
        if not ok or 0 in deg[1:]:
            continue
        adj = {i: set() for i in range(1, n + 1)}
        for a, c in es:
            adj[a].add(c)
            adj[c].add(a)
        if len(ref_components(adj)) != 1:
            continue
        out['graphs'] += 1
        nu = k - n + 1
        out[f'rings={nu}'] += 1
        if len(_connected_components(adj)) != 1:
            finds.append(('components', es, None, None))
        if nu == 0:
            continue
        try:
            with deadline(SLOW):
                rs = _sssr(adj, nu)
        except Deadline:
            finds.append(('timeout', es, None, None))
            continue
        except Exception as e:
            if gap_families(adj):
                out['recorded gap family (outside the claimed domain), exception not reported'] += 1
            else:
                finds.append(('raises:' + type(e).__name__, es, None, None))
            continue
        d = basis_defect(adj, rs)
        ref = None if d else horton_sizes(adj)
        if d or sorted(map(len, rs)) != ref:
            fam = gap_families(adj)      # only 8-atom graphs can contain a bicycle whose three bridges all have >= 3 bonds
            if fam:
                out['recorded gap family (outside the claimed domain), deviation not reported: ' + family_key(fam)] += 1
            else:
                finds.append((d or 'not-minimum', es, rs, ref))
    return out, finds


def run(ck):
    ck.level = 'proof'
    ck.trusted += ['correspondence runner harness/checks/C06.py + harness/coqcases.py (cases evaluated by vm_compute inside Coq)',
                   'CachedMethods shim harness/boot.py', 'CPython 3.12.1',
                   'search only: own pure-Python Horton minimum-cycle-basis, bridge finder, block finder (validated once against networkx 3.6.1)']
    ck.assumptions += [
        'the SSSR selection (_bfs, _make_pid, _c_set, _rings_filter, _is_condensed_ring, _connected_rings) is NOT modelled; every sssr output of the '
        'inputs is run through the verified checker is_cycle_basis instead (theorems C06_basis_checker_sound / _complete)',
        'minimum total size of sssr is certified PER MOLECULE: is_cycle_basis g sssr && total_size sssr = total_size (mcb_ref g) is evaluated inside Coq '
        'on molecules <= 70 atoms / 12 rings (theorem C06_minimum_certificate: then sssr is a minimum cycle basis); on larger molecules and for '
        'numbering independence it is a search result (pure-Python Horton size vector on every input, rebuilds under renumbering)',
        'set iteration order (set.pop in _connected_components) is an explicit input of the model and the theorem holds for every order; '
        'set-valued results are compared after sorting',
        'gap families of the property text are recognised structurally (a block containing two cycles that share exactly one path, all three '
        'bridges >= 3 bonds -- embedded cores included; a block with >= 6 rings and average degree >= 3); they are outside the claimed domain '
        'of the property: what sssr does on them is counted in search_stats and never reported',
        'a ring perception that does not return within 60 s is reported as a counterexample (the unchanged code needs < 1 s on every input)']
    ck.extra['rule'] = ('inputs: hand-made ring systems + special-bond decorations + random fused/spiro/bridged/linked assemblies of 3-8 membered rings + '
                        'macrocycles + lipophilicity.csv sample + test/cycle.sdf, each also rebuilt from scratch under a random renumbering and insertion '
                        'order; exhaustive connected labelled graphs (quick: <= 6 atoms, thorough: <= 7 atoms/5 rings and 8 atoms/3 rings, degree <= 4). '
                        'non-trivial = the molecule has at least one ring (or, for helper calls, the call returned a value)')
    import time
    t0 = time.time()
    timing = ck.extra.setdefault('timing_s', {})
    proved = common.standard_proof_steps(ck, translators=['rings', 'ringspid', 'ringscache', 'ringscanon', 'ringstop'], extra_targets=['model/RingsGenSpec.vo'])   # tools/gen_rings.py -> gen/RingsConsts.v, tools/gen_ringspid.py -> gen/RingsPidBody.v, tools/gen_ringscache.py -> gen/RingsCacheKeys.v
    timing['proof build + audit'] = round(time.time() - t0, 1)
    t0 = time.time()
    quick = ck.tier == 'quick'
    rng = random.Random(f'{ck.seed}:c06')
    batch = CoqBatch()
    if not quick and 'VERIF_JOBS' not in os.environ:
        batch.workers = max(JOBS, min(12, os.cpu_count() or 4))     # thorough: ~1500 case files
    INVALID.clear()
    ROUNDS_BUDGET[0] = 80 if ck.tier == 'quick' else 1000
    CE_CLASS.clear()
    GAP_TAGS.clear()
    sent = set()
    stats = Counter()
    rings_pool = []
    n_coq = 0
    seen_sig = set()

    def handle(tag, m, to_coq=True, renumber=1):
        nonlocal n_coq
        adj = plain_adj(m)
        fam = gap_families(adj)
        nu = len(edges_of(adj)) - len(adj) + len(ref_components(adj))
        ck.count('input:' + tag.split('-')[0].split(':')[0].split('#')[0].split('(')[0])
        ck.count(f'rings={min(nu, 10)}{"+" if nu >= 10 else ""}')
        ck.count(f'atoms<={(len(adj) // 10 + 1) * 10}')
        for f in fam:
            ck.count('gap-family:' + f)
        if not fam:
            ck.count('claimed-domain inputs')
        ck.case(('mol', tag), nontrivial=nu > 0)
        sizes = search_one(ck, m, tag, fam, stats=stats)
        if sizes is not None and len(rings_pool) < 400:
            rings_pool.extend(tuple(r) for r in m.sssr if len(r) <= 9)
        if to_coq and len(m) <= 110:
            try:
                batch.add(*mol_cases(m, tag, fam))
                sent.add(tag)
                n_coq += 1
                if nu > 0 and len(m) <= 45 and tx_budget[0] > 0 and not fam:
                    # the SAME object after a rolled-back transaction that edited the bonds and read the ring views inside the
                    # block goes through the verified checker and the correspondence (its caches must describe the restored graph)
                    tx_budget[0] -= 1
                    try:
                        mt = m.copy()
                        ring_views(mt)
                        w = transaction(mt, trng, commit=False)
                        if w is not None:
                            batch.add(*mol_cases(mt, tag + ' | ' + w, fam, with_ref=False))
                            sent.add(tag + ' | ' + w)
                            ck.count('rolled-back transactions through Coq')
                    except Exception as e:
                        stats[f'transaction copy not sent to Coq ({type(e).__name__})'] += 1
                if len(m) <= 70:
                    batch.add(*gen_cases(ck, m, tag, stats, fam))
                    fd, fc, reached = filter_cases(ck, m, tag)
                    batch.add(fd, fc)
                    if reached:
                        # the model iterates sets of atom numbers in sorted order, CPython in hash order: the same molecule
                        # under renumberings that spread the numbers (so that the two orders differ) must still agree
                        for t in range(3):
                            r2 = corpus.renumber(m, rng) if False else rebuild(m, rng, spread=True)[0]
                            fd, fc, _ = filter_cases(ck, r2, tag + f' selection-renumbered#{t}')
                            batch.add(fd, fc)
                            ck.count('selection phase: renumbered copies')
            except Exception as e:  # sssr raising is already reported by the search
                stats[f'not sent to Coq ({type(e).__name__})'] += 1
        for t in range(renumber):
            try:
                with deadline(SLOW):
                    r, mp = rebuild(m, rng, spread=bool(t % 2))
            except Deadline:
                stats['building a renumbered copy does not return'] += 1
                if not fam:
                    report(ck, f'sssr-timeout:renumbered:{tag[:200]}', f'ring perception on a renumbered copy did not return within {SLOW} s', {'tag': tag},
                           'no result', 'a molecule', 'wall-clock deadline')
                break
            ck.case(('mol-renumbered', tag, t), nontrivial=nu > 0)
            ck.count('renumbered copies')
            rtag = tag + f' renumbered#{t}'
            s2 = search_one(ck, r, rtag, fam, ref_sizes=sizes if (sizes is not None and not fam) else None, stats=stats)
            if sizes is not None and s2 is not None and s2 != sizes:
                if fam:
                    stats['gap-family input whose ring sizes change under renumbering'] += 1
                # for claimed-domain inputs search_one has already raised the counterexample (ref_sizes = sizes of the original)
            if to_coq and len(m) <= 40 and t == 0:
                try:
                    batch.add(*mol_cases(r, rtag, fam))   # the renumbered, re-inserted copy gets its own minimality certificate
                    batch.add(*gen_cases(ck, r, rtag, stats, fam))
                    sent.add(rtag)
                    n_coq += 1
                except Exception as e:
                    stats[f'not sent to Coq ({type(e).__name__})'] += 1

    six = [0]
    erng = random.Random(f'{ck.seed}:c06:edits')
    trng = random.Random(f'{ck.seed}:c06:transactions')
    tx_budget = [150 if quick else 1500]
    hrng = random.Random(f'{ck.seed}:c06:histories')
    hist_budget = [120 if quick else 1500]

    # ---- exhaustive small graphs through the public API (add_atom / add_bond)
    for n in range(1, 7 if quick else 7):
        for es, adj in connected_graphs(n):
            sig = graph_signature(adj)
            first = sig not in seen_sig
            seen_sig.add(sig)
            # Coq gets every labelled graph up to 4 atoms (quick) / 5 atoms (thorough) and one labelled representative per class of larger ones
            try:
                with deadline(SLOW):
                    m = mol_from_graph(adj, natural=(n <= 4))
            except Deadline:
                report(ck, f'sssr-timeout:graph{n}:{es}', f'building this graph through add_atom / add_bond did not return within {SLOW} s', {'edges': es},
                       'no result', 'a molecule', 'wall-clock deadline')
                continue
            ck.count(f'exhaustive graphs n={n}')
            adjc = plain_adj(m)
            nu = len(es) - n + 1
            ck.case(('exh', n, es), nontrivial=nu > 0)
            fam = set() if n <= 6 else gap_families(adjc)   # none of the families has fewer than 7 atoms
            sizes = search_one(ck, m, f'graph{n}:{es}', fam, stats=stats)
            if n <= (4 if quick else 5) or first:
                batch.add(*mol_cases(m, f'graph{n}:{es}', fam))
                batch.add(*filter_cases(ck, m, f'graph{n}:{es}')[:2])
                batch.add(*gen_cases(ck, m, f'graph{n}:{es}', stats, fam))
                sent.add(f'graph{n}:{es}')
                n_coq += 1
                if first and n >= 4:
                    try:
                        with deadline(SLOW):
                            r, _ = rebuild(m, rng)
                    except Deadline:
                        report(ck, f'sssr-timeout:graph{n}:{es}:renumbered', f'ring perception on a renumbered copy did not return within {SLOW} s',
                               {'edges': es}, 'no result', 'a molecule', 'wall-clock deadline')
                        continue
                    ck.case(('exh-renum', n, es), nontrivial=nu > 0)
                    search_one(ck, r, f'graph{n}:{es} renumbered', fam, ref_sizes=sizes, stats=stats)
                    batch.add(*mol_cases(r, f'graph{n}:{es} renumbered', fam))
                    sent.add(f'graph{n}:{es} renumbered')
                    n_coq += 1
            elif not quick and n == 6 and nu >= 2:
                # thorough: a larger exhaustive space for the end-to-end model: every fourth labelled 6-atom graph with at least two rings
                six[0] += 1
                if six[0] % 4 == 0:
                    batch.add(*gen_cases(ck, m, f'graph{n}:{es}', stats, fam, tables=False))
                    ck.count('exhaustive 6-atom graphs through the end-to-end model (thorough)')
    timing['exhaustive small graphs (python)'] = round(time.time() - t0, 1)
    t0 = time.time()
    # ---- generated / corpus / test-set molecules
    n_lipo = 0
    for tag, thunk in input_stream(ck):
        try:
            with deadline(SLOW):
                m = thunk()
        except Deadline:
            stats['building the input does not return'] += 1
            report(ck, f'sssr-timeout:{tag[:200]}', f'building this input (which runs ring perception) did not return within {SLOW} s', {'tag': tag},
                   'no result', 'a molecule', 'wall-clock deadline')
            continue
        if m is None:
            continue
        # the Python search sees every input; Coq (verified checker, certificates, correspondence) sees everything except the
        # corpus molecules beyond the first 100 (quick) / 2000 (thorough)
        to_coq = True
        if tag.startswith('lipo:'):
            n_lipo += 1
            to_coq = n_lipo <= (100 if quick else 2000)     # thorough: 2000 of the 4200 corpus molecules (and their rebuilt copies) go through Coq
        handle(tag, m, to_coq=to_coq, renumber=2 if quick else 3)
        if len(m) <= 60:
            for t in range(2):
                try:
                    with deadline(SLOW):
                        ht = history_search(ck, m, tag, hrng, stats, batch if to_coq else None, hist_budget)
                        if ht:
                            sent.add(ht)
                            n_coq += 1
                except Deadline:
                    stats['ring views after a standardisation history do not return'] += 1
                    report(ck, f'sssr-timeout:after-history:{tag[:200]}', f'the ring views after a standardisation method did not return within {SLOW} s',
                           {'tag': tag}, 'no result', 'ring views', 'wall-clock deadline')
            for t in range(2):
                try:
                    with deadline(SLOW):
                        edit_search(ck, m, tag, erng, stats)
                except Deadline:
                    stats['ring views after an edit do not return'] += 1
                    report(ck, f'sssr-timeout:after-edit:{tag[:200]}', f'the ring views after an edit did not return within {SLOW} s', {'tag': tag},
                           'no result', 'ring views', 'wall-clock deadline')
    timing['generated / corpus / test-set molecules (python)'] = round(time.time() - t0, 1)
    t0 = time.time()
    # ---- thorough: the exhaustive domain of the property text, in parallel on the adjacency level
    if not quick:
        jobs = []
        for n, maxrings in ((7, 5), (8, 3)):
            npairs = n * (n - 1) // 2
            for k in range(n - 1, n - 1 + maxrings + 1):
                for first in range(0, npairs - k + 1):
                    if n == 8 and k >= 8 and first <= 6:        # the chunks with millions of edge sets are split once more
                        for second in range(first + 1, npairs - k + 2):
                            jobs.append((n, k, first, second))
                    else:
                        jobs.append((n, k, first, None))
        import math
        jobs.sort(key=lambda j: -math.comb(n * 0 + (j[0] * (j[0] - 1) // 2) - 1 - (j[3] if j[3] is not None else j[2]), j[1] - (2 if j[3] is not None else 1)))
        import multiprocessing as mp
        with mp.get_context('fork').Pool(max(JOBS, min(16, os.cpu_count() or 4)) if 'VERIF_JOBS' not in os.environ else JOBS) as pool:
            for out, finds in pool.imap_unordered(exhaustive_chunk, jobs, chunksize=1):
                for key, v in out.items():
                    ck.count(f'thorough exhaustive:{key}', v)
                    if key == 'graphs':
                        ck.evaluations += v
                for what, es, rs, ref in finds:
                    adj = {}
                    for a, c in es:
                        adj.setdefault(a, set()).add(c)
                        adj.setdefault(c, set()).add(a)
                    report(ck, f'exhaustive-{what}:{graph_key(adj)}', f'_sssr on an exhaustively enumerated graph: {what}', {'edges': es}, rs, ref,
                                      'pure-Python reference',
                                      replay_py=f"from chython.algorithms.rings import _sssr\nadj={adj!r}\nprint(_sssr(adj, {len(es) - len(adj) + 1}))")
    # ---- helpers
    hc = helper_cases(ck, rng, rings_pool)
    for i in range(0, len(hc), 150):
        batch.add('', hc[i:i + 150])
    timing['thorough exhaustive + helpers (python)'] = round(time.time() - t0, 1)
    t0 = time.time()
    ok, failing, log, n_cases = batch.run('c06')
    timing['coq evaluation'] = round(time.time() - t0, 1)
    timing['slowest coq files (s, cases, first tag)'] = sorted(batch.times, reverse=True)[:6]
    ck.extra['coq_cases'] = n_cases
    ck.extra['minimum_certificates_evaluated_in_coq'] = sum(1 for f in batch.files for _, cs in f for c in cs if c[0] == 'oracle' and c[3].startswith('c_ref'))
    ck.extra['molecules_through_verified_checker'] = n_coq
    ck.extra['search_stats'] = dict(stats)
    corr_fail = [f for f in failing if f[0] == 'corr']
    chk_fail = [f for f in failing if f[0] == 'checker']
    ora_fail = [f for f in failing if f[0] == 'oracle']
    ck.oblige('correspondence: _connected_components, _skin_graph, rings_count, not_special_connectivity, _canonic_ring, _ring_scissors, '
              '_ring_adjacency, atoms_rings(_sizes), aromatic_rings, ring marks of calc_labels, _rings_filter / _connected_rings / _is_condensed_ring / _get_unique_chord, _bfs / _make_pid / _c_set / whole sssr == Coq model', ok and not corr_fail, 'correspondence',
              log[-1500:] or repr(corr_fail[:5]))
    rejected = {tag for _, tag, _ in chk_fail}
    only_coq = sorted(rejected - INVALID)            # rejected by the verified checker, accepted by the Python oracle
    only_py = sorted((INVALID & sent) - rejected)    # the other way round
    ck.oblige('every sssr output is run through the verified checker is_cycle_basis; rejections coincide with the findings of the Python validity oracle',
              ok and not only_coq and not only_py, 'checker', repr((only_coq[:3], only_py[:3])))
    ck.extra['rejected_by_verified_checker'] = sorted(rejected)[:50]
    ck.sample({'coq_case': 'is_cycle_basis (graph_of_not_special m) sssr', 'molecules': n_coq, 'rejected': len(rejected)})
    if not ok:
        ck.unchecked('correspondence / checker evaluation inside Coq did not run', log[-3000:])
    if corr_fail:
        ck.unchecked('correspondence Rings model vs chython/algorithms/rings.py + calc_labels', repr(corr_fail[0])[:1500],
                     [repr(f)[:600] for f in corr_fail[:20]])
    for kind, tag, payload in chk_fail:
        if tag in only_coq and tag not in GAP_TAGS:
            # a concrete implementation output that the verified checker rejects (the Python oracle did not see the defect)
            report(ck, f'sssr-rejected-by-verified-checker:{tag[:300]}', 'the verified checker is_cycle_basis rejects this sssr output',
                              {'tag': tag}, payload, 'a cycle basis', 'is_cycle_basis evaluated inside Coq (theorem C06_basis_checker_sound)')
    if only_py:
        ck.unchecked('the Python validity oracle rejects sssr outputs that the verified checker accepts', repr(only_py[:5]))
    for kind, tag, payload in ora_fail:
        report(ck, f'sssr-not-minimum-coq:{tag[:200]}', 'total ring size differs from the Coq reference basis mcb_ref (or mcb_ref is no basis)',
                          {'tag': tag}, payload if isinstance(payload, dict) else str(payload), 'total_size (mcb_ref g)', 'mcb_ref evaluated inside Coq')
    ck.extra['search_stats'] = dict(stats)
    ck.extra['counterexamples_per_class'] = dict(CE_CLASS)
    ck.extra['proved'] = proved
    ck.extra['tied'] = bool(ok and not corr_fail)
