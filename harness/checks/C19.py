"""C19 -- results are identical across processes, hash seeds and repeated calls.

Layers
  proof           props/C19.v: audit of every set-order / hash() site of the CURRENT anchored source against the hand-written
                  allow-list (translator tools/gen_setaudit.py -> gen/SetAudit.v, both directions), the generic order-freedom
                  lemmas, the restated per-family theorems, transparency of the memoisation layer.
  differential    the REAL code runs in fresh interpreter processes under several PYTHONHASHSEED values (and twice under the
                  same one) on the same inputs; every observable is compared byte for byte between processes; inside each
                  process: first call vs second (cached) call vs after flush_cache vs copy() vs re-parsed object.
                  This is the property-level oracle (implementation against itself under another seed); it does not use
                  the model.
  correspondence  the seed-free Coq models (Model.Morgan atoms_order with the exact CPython tuple hash, Model.Fingerprint
                  linear/morgan hash sets, Model.Determinism ring mask / group sizes / sort / min / memo histories) are
                  evaluated by vm_compute on the same inputs and must equal what EVERY worker process returned.

This file is also the worker:  python C19.py --worker spec.json out.json   (no import of `common` there)."""
import hashlib
import itertools
import json
import os
import random
import subprocess
import sys
import tempfile
import time

HERE = os.path.dirname(os.path.abspath(__file__))

# ----------------------------------------------------------------------------------------------------------------
# inputs

HAND = [
    # symmetric molecules: every tie-break of the writer / ring search is exercised
    'c1ccccc1', 'C1CCCCC1', 'C12C3C4C1C5C2C3C45', 'C1C2CC3CC1CC(C2)C3', 'C1CC2CCC1CC2', 'c1ccc2ccccc2c1', 'C1CC11CC1',
    'c1cc2ccc3cccc4ccc(c1)c2c34', 'C1=CC=CC=C1', 'CC(C)(C)C(C)(C)C', 'C1CC1C1CCCCC1', 'C1CC1C1CC1', 'C1CCC1C1CCC1',
    'OC1CCC(O)CC1', 'C(C)(C)(C)C', 'CCCCCCCC', 'C1CC2CC1CC2', 'C12CC1C2', 'C1CC1CC', 'C123CC(C1)(C2)C3', 'C12CC(C1)C2',
    # components, charges, radicals, isotopes, metals
    '[Na+].[Cl-]', '[Na+].[Na+].[O-]S(=O)(=O)[O-]', 'CC(=O)[O-].[K+]', 'O.O.O', 'C[N+](C)(C)C.[Br-]', '[CH3]', 'C[CH2]', '[13CH4]',
    '[2H]O[2H]', 'C[Fe](C)(C)(C)(C)C', '[Cu+2].[O-]C(=O)C.[O-]C(=O)C', 'Cl[Pt](Cl)(N)N', '[O-][N+](=O)c1ccccc1', 'C[S+](C)[O-]',
    'OB(O)c1ccccc1', 'FC(F)(F)S(=O)(=O)O', 'BrCCI', '[SiH3]C', '[Se]=C', 'C=[As]C',
    # stereo
    'C[C@H](N)C(=O)O', 'N[C@@H](C)C(O)=O', 'F/C=C/Cl', 'F/C=C\\Cl', 'C[C@H](O)/C=C/C(=O)[O-]', 'FC(Cl)=[C@]=C(Br)I', 'F/C=C/C=C/Cl',
    'C[C@@H]1CC[C@H](C)CC1', 'OC[C@H]1O[C@@H](O)[C@H](O)[C@@H](O)[C@@H]1O', 'C[C@]12CC[C@H](C1)C2(C)C', 'CC[C@](C)(N)O',
    # tautomers / standardisation food
    'CC(=O)CC(=O)C', 'Oc1ccccn1', 'O=c1cccc[nH]1', 'CN(C)C=O', 'C[N+](=O)[O-]', 'CN(=O)=O', 'c1ccc2[nH]ccc2c1', 'C1=CC=CN1', 'NC(=N)N',
    'OC(=O)CC(O)(C(=O)O)CC(=O)O', 'CC(=O)Oc1ccccc1C(=O)O', 'CS(=O)(=O)N', 'c1ccncc1', 'c1ccsc1', 'C#N', 'C=C=C', 'N#[N+][N-]C', '[N-]=[N+]=NC',
    'c1ccc(cc1)P(c1ccccc1)c1ccccc1', 'O=C1NC(=O)c2ccccc12', 'Cc1ccccc1', 'C', 'O', '[H][H]', '[He]',
]

IONS = ['C[n+]1ccn(CC)c1.[Cl-]', 'C[n+]1ccn(C)c1', 'CCn1cc[n+](C)c1', 'CCCC[n+]1ccn(C)c1.F[B-](F)(F)F', 'C[n+]1cccn1CC', 'CN(C)C=[N+](C)CC',
        'C[N+](C)=CN(C)CC', 'c1cc[nH+]cc1', 'C[n+]1ccccc1', '[cH-]1cccc1.[cH-]1cccc1.[Fe+2]', 'CC(=[NH2+])N', 'NC(N)=[NH2+]', 'C[n+]1ccn(CC)c1C']

# rings with an EVEN group of constitutionally equivalent labelled stereo elements (tetrahedrons, exocyclic double bonds, allenes): the
# stereo-aware ranking (_chiral_morgan) cannot separate them by their environment and takes its `set new weights in half of the group`
# branch (all three loops of it), which rewrites ranks it started from; the seeded generator below adds more of the same family
RING_STEREO = ['C[C@H]1C[C@@H](C)C1', 'C[C@H]1C[C@H](C)C1', 'F[C@H]1[C@@H](Cl)[C@@H](F)[C@H]1Cl', 'C/C=C1/CC(=C/C)/C1', 'C/C=C1\\CC/C(=C/C)CC1',
               'CC(F)=[C@]=C1CC(=[C@@]=C(C)F)C1', 'C[C@]12CC[C@](C)(CC1)CC2', 'O[C@H]1[C@H](O)[C@@H](O)[C@H](O)[C@@H](O)[C@@H]1O', 'C1C[C@H]2CC[C@@H]1CC2',
               'C[C@H]1CC[C@@H](C)CC1.C[C@H]1C[C@@H](C)C1']


def ring_stereo_family(rng, k):
    """1,3-disubstituted cyclobutanes / 1,4-disubstituted cyclohexanes / 1,5-disubstituted cyclooctanes with two equal substituents and
    every combination of stereo marks, exocyclic double bond pairs: the two centres are equivalent, the group is even"""
    out = []
    for _ in range(k):
        x, xb = rng.choice([('C', 'C'), ('F', 'F'), ('Cl', 'Cl'), ('O', 'O'), ('N', 'N'), ('CC', 'CC'), ('Br', 'Br'), ('FC(F)(F)', 'C(F)(F)F'), ('CO', 'OC')])
        a, b = rng.choice(['@', '@@']), rng.choice(['@', '@@'])
        arm = 'C' * rng.choice([1, 2, 3])
        if rng.random() < 0.75:
            out.append(f'{x}[C{a}H]1{arm}[C{b}H]({xb}){arm}1')
        else:
            d1, d2, d3 = rng.choice(['/', '\\']), rng.choice(['/', '\\']), rng.choice(['/', '\\'])
            y = rng.choice(['C', 'F', 'Cl'])
            out.append(f'{y}/C=C1{d1}{arm}{d3}C(=C{d2}{y}){arm}1')
    return out


# kekule-form 5-5 fused heterobicycles with a bridgehead N (pyrrolo[1,2-a]imidazole, pyrrolo[2,1-b]thiazole / oxazole and their isomers with the
# heteroatom on the bridgehead N): thiele() aromatizes the second five-membered ring BY RULE after the ordinary pass - the rule matcher runs
# on the half-aromatized molecule (and caches what it compiled) and the bonds are rewritten once more afterwards
FREAKS = ['N1C=CN2C=CC=C12', 'S1C=CN2C=CC=C12', 'O1C=CN2C=CC=C12', 'CN1C=CN2C=CC=C12', 'C1=CC2=CC=CN2S1', 'N1C=Cn2cccc12', 'CC1=CN2C=CC=C2S1']


def freak_family(rng, k):
    out = []
    for _ in range(k):
        x = rng.choice(['N8', 'S8', 'O8', 'N8(C)', 'N8(CC)', '[Se]8'])          # the heteroatom closes ring 8, the bridgehead N ring 9
        r = rng.choice(['C', 'F', 'Cl', 'OC', 'C(=O)O', 'c1ccccc1', 'C#N', 'N'])
        t = rng.choice(['{x}C=CN9C=CC=C89', '{x}C({r})=CN9C=CC=C89', '{x}C=C({r})N9C=CC=C89', '{x}C=CN9C({r})=CC=C89', '{x}C=CN9C=CC({r})=C89',
                        '{x}C=CN9C=C({r})C=C89', 'C8=CC9=CC=CN9{x}', 'C8({r})=CC9=CC=CN9{x}', 'C8=C({r})C9=CC=CN9{x}', '{x}C=CN9C=CC=C89.{r}C'])
        out.append(t.format(x=x, r=r))
    return out


# aromatic N - metal chelates written with covalent bonds: kekule() rewrites the N-M bonds to coordinate bonds (order 8), which ring
# perception ignores, so the chelate ring disappears and the kept ring caches must be dropped
CHELATES = ['[Cu]1n2ccccc2-c2ccccn12', '[Pd]1n2ccccc2CCc2ccccn12', '[Ni]1n2ccccc2-c2ccccn12', '[Zn]1n2ccccc2C=Cc2ccccn12']

REACTIONS = ['CC(=O)O.OCC>>CC(=O)OCC.O', '[CH3:1][Br:2].[OH-:3]>>[CH3:1][OH:3].[Br-:2]', 'C=C.C=CC=C>>C1CCC=CC1', 'CCO>[Na+].[OH-]>CC=O',
             'c1ccccc1Br.OB(O)c1ccccc1>[Pd]>c1ccccc1-c1ccccc1', '[Na+].[Cl-].O>>O.[Na+].[Cl-]',
             # spectator molecules: remove_reagents moves them to the reagents
             '[CH3:1][Br:2].[OH-:3].[Na+:4].[OH2:5].[CH3:6][OH:7]>>[CH3:1][OH:3].[Br-:2]',
             'CBr.[OH-].[Na+].O.CO>>CO.[Br-].[Na+].O.CO', '[CH3:1][I:2].[NH3:3].[K+:4].[Cl-:5]>[OH2:6]>[CH3:1][NH2:3].[I-:2]']

SMARTS = ['[#6]', '[#6]-[#6]', '[#6]:[#6]', 'c1ccccc1', '[#6]=[#8]', '[#6](=[#8])-[#8]', '[#7]', '[#7;D1]', '[#6]-[#7]', '[#8;D1]',
          '[#6]1-[#6]-[#6]-1', '[#6;r5,r6]', '[#6;!R]', '[#6;D3;a]', '[#6]~[#6]~[#6]', '[#9,#17,#35,#53]', '[#6]-[#6]-[#6]-[#6]', '[#6]=[#6]', '[#6]#[#7]',
          '[#6;a]:[#7;a]', '[#16]', '[#6]-[#8]-[#6]', '[#6].[#8]', '[#11,#19].[#17,#35]', '[#6]-[#6](-[#6])-[#6]', '[#6;z2]',
          '[#6;x2]', '[#6;h3]']

# reactor cases: (name, reactant patterns, product patterns, reactant molecules)
REACTOR = [('esterification', ['[C;D3:1](=[O:2])-[O;D1:3]', '[O;D1:4]-[C;D2,D1:5]'], ['[C:1](=[O:2])-[O:4]-[C:5]'], ['CC(=O)O', 'OCC(O)CO']),
           ('amide', ['[C;D3:1](=[O:2])-[O;D1:3]', '[N;D1:4]-[C:5]'], ['[C:1](=[O:2])-[N:4]-[C:5]'], ['OC(=O)CCC(=O)O', 'NCCN']),
           ('nitro', ['[N+:1](=[O:2])-[O-:3]'], ['[N:1]'], ['[O-][N+](=O)c1ccc(cc1)[N+](=O)[O-]']),
           ('halogen exchange', ['[C:1]-[Cl,Br:2]'], ['[C:1]-[I:2]'], ['ClCC(Br)CCl'])]

FRAGMENTS = ['c1ccccc1', 'C(=O)O', 'CN', 'CC', 'C1CC1', 'CO', 'C=C']

OPS = [('canonicalize', {}), ('standardize', {}), ('standardize', {'fix_stereo': False}), ('neutralize', {}), ('kekule', {}), ('thiele', {}),
       ('implicify_hydrogens', {}), ('explicify_hydrogens', {}), ('standardize_charges', {}), ('fix_resonance', {}), ('remove_acids', {}),
       ('remove_metals', {}), ('remove_coordinate_bonds', {}), ('clean_stereo', {}), ('clean_isotopes', {}), ('check_valence', {}),
       ('fix_stereo', {}), ('split_metal_salts', {})]
# not observed: saturate() (retries with random.shuffle by design), format(m, 'r') (random by design), clean2d (coordinates only)

# queries whose answer depends on what the compiled structure buffer says about aromaticity / hybridization / ring membership / neighbours
MATCH_AFTER_OP = ['[#6]:[#6]', '[#6;a]:[#7;a]', '[#6]=[#6]', '[#6;D3;a]', '[#6;z2]', '[#6;r5,r6]', '[#6;h3]']

FORMATS = ['h', 'A', 'm', '!s', 'a', '!b!z', 'hAm', '!x']


# ----------------------------------------------------------------------------------------------------------------
# WORKER (runs in a fresh interpreter under the hash seed to be tested)

def ser(x, depth=0):
    """canonical text of a result: sets sorted (a set has no order), everything else in ITS order"""
    import types
    if depth > 12:
        return '...'
    if x is None or isinstance(x, (bool, int, str)):
        return repr(x)
    if isinstance(x, float):
        return repr(x)
    if isinstance(x, (bytes, bytearray)):
        return 'b:' + bytes(x).hex()
    if isinstance(x, (set, frozenset)):
        return 'S{' + ','.join(sorted(ser(e, depth + 1) for e in x)) + '}'
    if isinstance(x, dict):
        return 'D{' + ','.join(ser(k, depth + 1) + ':' + ser(v, depth + 1) for k, v in x.items()) + '}'
    if isinstance(x, (list, tuple)):
        o, c = ('[', ']') if isinstance(x, list) else ('(', ')')
        return o + ','.join(ser(e, depth + 1) for e in x) + c
    if isinstance(x, (types.GeneratorType, itertools.islice, map, filter, zip)):
        return 'G' + ser(list(itertools.islice(x, 300)), depth + 1)
    tn = type(x).__name__
    if tn == 'ndarray':
        return f'nd{x.shape}:{x.dtype}:' + hashlib.blake2b(x.tobytes(), digest_size=8).hexdigest()
    if tn in ('MoleculeContainer', 'QueryContainer', 'CGRContainer'):
        return f'{tn}<{safe(lambda: str(x))}|{safe(lambda: list(x._atoms))}|{safe(lambda: [(n, list(ms)) for n, ms in x._bonds.items()])}>'
    if tn == 'ReactionContainer':
        return f'R<{safe(lambda: str(x))}>'
    if tn in ('defaultdict', 'OrderedDict', 'Counter'):
        return ser(dict(x), depth)
    if tn == 'deque':
        return 'Q' + ser(list(x), depth + 1)
    r = repr(x)
    if ' at 0x' in r:
        return f'<{tn}>'
    return r


def safe(fn):
    try:
        return ser(fn())
    except Exception as e:  # an exception is an observable too (its type; the text when it holds no address)
        msg = str(e)
        return f'EXC:{type(e).__name__}' + (':' + msg[:80] if ' 0x' not in msg and len(msg) < 200 else '')


def atoms_dump(m):
    out = []
    for n, a in m._atoms.items():
        out.append((n, a.atomic_symbol, a.isotope, a.charge, a.is_radical, a.implicit_hydrogens, a.stereo,
                    getattr(a, '_hybridization', None), getattr(a, '_neighbors', None), getattr(a, '_heteroatoms', None),
                    getattr(a, '_ring_sizes', None), getattr(a, '_in_ring', None)))
    return out


def bonds_dump(m):
    return [(n, [(k, int(b), b.stereo, getattr(b, '_in_ring', None)) for k, b in ms.items()]) for n, ms in m._bonds.items()]


CACHED_ATTRS = ['smiles_atoms_order', 'atoms_order', '_chiral_morgan', 'int_adjacency', 'sssr', 'atoms_rings', 'atoms_rings_sizes',
                'rings_count', 'connected_components', 'connected_components_count', 'skin_graph', 'rings_graph',
                'not_special_connectivity', 'aromatic_rings', 'tetrahedrons', 'cumulenes', 'stereogenic_tetrahedrons',
                'stereogenic_cis_trans', 'stereogenic_allenes', 'chiral_tetrahedrons', 'chiral_cis_trans', 'chiral_allenes',
                'ring_tetrahedrons', 'brutto', 'molecular_mass', 'molecular_charge', 'is_radical', 'bonds_count', 'atoms_count',
                '_atom_identifiers', '_stereo_cis_trans_terminals', '_stereo_allenes_terminals', '_cis_trans_count']
# not observed: _compiled_query (its closures table is a defaultdict that the matcher fills with empty lists while reading it)


def observe_reads(m, env, order='forward'):
    """everything that reads the molecule (and its cache) without changing it.  The observations are planned first and
    then evaluated forward, backward or in a shuffled order: a cached value must not depend on which attribute was read
    first (str() stores smiles_atoms_order and vice versa, sssr feeds the ring marks, ...)"""
    plan = []

    def add(name, fn):
        plan.append((name, fn))
    add('str', lambda: str(m))
    for f in FORMATS:
        add('fmt:' + f, lambda f=f: format(m, f))
    for a in CACHED_ATTRS:
        add(a, lambda a=a: getattr(m, a))
    add('atoms', lambda: atoms_dump(m))
    add('bonds', lambda: bonds_dump(m))
    add('meta', lambda: m.meta)
    n = len(m._atoms)
    big = 6 if n <= 30 else 4
    # fingerprints
    add('linear_hash_set', lambda: m.linear_hash_set())
    add('linear_hash_set(1,6,0)', lambda: m.linear_hash_set(1, big, 0))
    add('linear_bit_set', lambda: m.linear_bit_set())
    add('linear_bit_set(2,5,4096,3,0)', lambda: m.linear_bit_set(2, big - 1, 4096, 3, 0))
    add('linear_fingerprint', lambda: m.linear_fingerprint())
    add('morgan_hash_set', lambda: m.morgan_hash_set())
    add('morgan_bit_set', lambda: m.morgan_bit_set())
    add('morgan_fingerprint', lambda: m.morgan_fingerprint())
    add('_morgan_hash_dict', lambda: m._morgan_hash_dict(1, 3))
    add('_chains', lambda: m._chains(1, 4))
    add('_fragments', lambda: m._fragments(1, 4))
    add('linear_hash_smiles', lambda: m.linear_hash_smiles(1, 3))
    add('linear_smiles_hash', lambda: m.linear_smiles_hash(1, 3))
    add('morgan_hash_smiles', lambda: m.morgan_hash_smiles(1, 2))
    # the same with the value lists normalised: what remains must be seed free
    add('morgan_hash_smiles(sorted lists)', lambda: {k: sorted(v) for k, v in m.morgan_hash_smiles(1, 2).items()})
    add('morgan_smiles_hash', lambda: m.morgan_smiles_hash(1, 2))
    add('morgan_smiles_hash(as set of items)', lambda: {(k, tuple(sorted(v))) for k, v in m.morgan_smiles_hash(1, 2).items()})
    # substructure match LISTS, order included
    for i, (sma, q) in enumerate(env['queries']):
        if q is None or (n > 20 and i % 2 != n % 2):      # bigger molecules see half of the library
            continue
        add(f'match:{sma}', lambda q=q: list(itertools.islice(q.get_mapping(m), 120)))
        if i % 4 == 0:
            add(f'match-all:{sma}', lambda q=q: list(itertools.islice(q.get_mapping(m, automorphism_filter=False), 120)))
        if env['cython'] and i % 4 == 1:
            add(f'match-py:{sma}', lambda q=q: list(itertools.islice(q.get_mapping(m, _cython=False), 120)))
        if i % 5 == 0 and n:
            scope = list(m._atoms)[: max(1, n // 2)]
            add(f'match-scope:{sma}', lambda q=q, scope=scope: list(itertools.islice(q.get_mapping(m, searching_scope=scope), 60)))
    for smi, fr in env['fragments']:
        add(f'molmatch:{smi}', lambda fr=fr: list(itertools.islice(fr.get_mapping(m), 60)))
    add('automorphisms', lambda: list(itertools.islice(m.get_automorphism_mapping(), 30)))
    add('is_automorphic', lambda: m.is_automorphic())
    add('eq-self', lambda: (m == m, m.is_equal(m)))
    # pack bytes (the .pyx codecs run through the transpiler)
    add('pack', lambda: m.pack())
    add('pack(compressed=False)', lambda: m.pack(compressed=False))
    add('pack_len', lambda: env['MoleculeContainer'].pack_len(m.pack(compressed=False), compressed=False))
    add('unpack(pack)', lambda: env['MoleculeContainer'].unpack(m.pack()))
    if order == 'plan':
        return plan
    if order == 'backward':
        plan.reverse()
    elif order != 'forward':
        random.Random(order).shuffle(plan)
    return {name: safe(fn) for name, fn in plan}


ISOLATED = ['str', 'atoms', 'bonds', 'linear_hash_set', 'morgan_hash_set', 'automorphisms', 'pack', '_fragments'] + ['fmt:' + f for f in FORMATS] + CACHED_ATTRS


def isolated_reads(m, env, first, tag, intra):
    """every observable evaluated ALONE on its own cache-free copy (nothing else was ever read on that object) must equal what the
    forward pass returned for it after everything listed before it had been read (and what the backward / shuffled passes return with
    everything else read before): a read must neither depend on nor CHANGE the value another read returns - in particular a body
    that takes a cached value of another attribute as its working variable and updates it in place corrupts that attribute for
    every later reader, which only shows against a value computed where the other body never ran.  Then, on the same copy, the
    whole plan is read and the observable is read AGAIN: it must still have the value it had when it was alone."""
    n_iso = 0
    for name in ISOLATED:
        if name not in first:
            continue
        c = m.copy()
        plan = dict(observe_reads(c, env, 'plan'))
        alone = safe(plan[name])
        n_iso += 1
        if alone != first[name]:
            intra.append({'input': tag, 'observable': name, 'variant': 'read alone on a cache-free copy (nothing else read before)', 'first': alone[:600], 'other': first[name][:600]})
            continue
        if name in PURITY:
            for other in PURITY_READS:
                if other != name and other in plan:
                    safe(plan[other])
            again = safe(plan[name])
            if again != alone:
                intra.append({'input': tag, 'observable': name, 'variant': 'read again after the other attributes were read on the same object', 'first': alone[:600], 'other': again[:600]})
    return n_iso


# attributes whose value other bodies take as their starting point (ranks, rings, components, stereo tables): read alone, then after
# every reader below ran on the same object
PURITY = ['atoms_order', '_chiral_morgan', 'sssr', 'atoms_rings', 'connected_components', 'int_adjacency', 'tetrahedrons', 'cumulenes', 'stereogenic_tetrahedrons',
          'not_special_connectivity', 'fmt:!s', 'smiles_atoms_order', '_stereo_cis_trans_terminals', 'ring_tetrahedrons']
PURITY_READS = ['str', 'fmt:!s', 'fmt:h', 'smiles_atoms_order', '_chiral_morgan', 'chiral_tetrahedrons', 'chiral_cis_trans', 'chiral_allenes', 'automorphisms', 'aromatic_rings',
                'atoms_rings_sizes', 'rings_count', 'linear_hash_set', 'morgan_hash_set', 'pack', 'stereogenic_cis_trans', 'stereogenic_allenes', 'skin_graph', 'rings_graph']


def observe_ops(m, env):
    """operations that change the molecule: each on its own copy; result + molecule afterwards"""
    o = {}
    n = len(m._atoms)
    stale = []

    # match LISTS through the accelerated matcher (it compiles the molecule into a cached buffer: aromaticity, hybridization, ring marks,
    # neighbours) and through the reference matcher: what an operation leaves in that buffer must be what a fresh copy compiles
    mq = [(sma, q) for sma, q in env['queries'] if q is not None and sma in MATCH_AFTER_OP]

    def matches(x):
        return [(sma, list(itertools.islice(q.get_mapping(x), 60)), list(itertools.islice(q.get_mapping(x, _cython=False), 60)) if env['cython'] and i < 3 else None) for i, (sma, q) in enumerate(mq)]

    def answers(x):
        if n > 22:          # bigger inputs: the cheaper half
            return ser((str(x), x.atoms_order, x.sssr, x.rings_count, matches(x)[:3]))
        return ser((matches(x), str(x), x.smiles_atoms_order, x.atoms_order, x.sssr, x.rings_count, sorted(sorted(c_) for c_ in x.connected_components),
                    [(a.charge, a.is_radical, a.implicit_hydrogens, a.hybridization, a.ring_sizes, a.in_ring) for _, a in x.atoms()]))
    for name, kw in OPS:
        def one():
            c = m.copy()
            str(c), c.atoms_order, c.sssr          # the operation starts from a warm cache, as in a pipeline
            r = getattr(c, name)(**kw)
            # whatever the operation left in the cache, the object must answer like a fresh copy of itself (and be equal to it)
            try:
                mine, fresh = answers(c), answers(c.copy())
                if mine != fresh:
                    stale.append({'observable': f'op:{name}', 'first': fresh[:600], 'other': mine[:600]})
                elif not (c == c.copy()):
                    stale.append({'observable': f'op:{name}', 'first': 'mol == mol.copy()', 'other': 'mol != mol.copy()'})
            except Exception as e:
                if not isinstance(e, (TypeError, KeyError, ValueError)):      # molecules with valence errors cannot always be spelled
                    raise
            return (r, str(c), list(c._atoms), bonds_dump(c))
        o[f'op:{name}{kw if kw else ""}'] = safe(one)
    if n <= 28:
        o['enumerate_tautomers'] = safe(lambda: [str(t) for t in itertools.islice(m.copy().enumerate_tautomers(), 8)])
        o['enumerate_kekule'] = safe(lambda: [str(t) for t in itertools.islice(m.copy().enumerate_kekule(), 8)])
        o['enumerate_charged_forms'] = safe(lambda: [str(t) for t in itertools.islice(m.copy().enumerate_charged_forms(), 6)])
    o['split'] = safe(lambda: [str(x) for x in m.split()])
    ks = list(m._atoms)
    o['substructure'] = safe(lambda: m.substructure(ks[: max(1, n // 2)]))
    o['augmented_substructure'] = safe(lambda: m.augmented_substructure(ks[:1], deep=2))
    o['union'] = safe(lambda: m | m)

    def snapshot(x):
        return (str(x), x.smiles_atoms_order, x.sssr, x.rings_count, x.atoms_order, x.bonds_count, x.connected_components,
                x.linear_hash_set(1, 3), [a.ring_sizes for _, a in x.atoms()])

    def edit(name, action, restores=False):
        """fill the cache, edit, and compare what the edited object answers with what a fresh copy of it answers (and, for an
        edit that is rolled back, with what it answered before)"""
        def run():
            c = m.copy()
            before = snapshot(c)
            action(c)
            mine = snapshot(c)
            fresh = snapshot(c.copy())
            if ser(mine) != ser(fresh):
                stale.append({'observable': 'edit:' + name, 'first': ser(fresh)[:600], 'other': ser(mine)[:600]})
            elif restores and ser(mine) != ser(before):
                stale.append({'observable': 'edit:' + name + ' (state before the rolled back block)', 'first': ser(before)[:600], 'other': ser(mine)[:600]})
            if restores:          # more consumers of the ring / component cache
                more = lambda x: (x.aromatic_rings, [str(p) for p in x.split()], x.atoms_rings_sizes, x.connected_components_count,
                                  [list(itertools.islice(q.get_mapping(x), 40)) for _, q in env['queries'][:4] if q is not None])
                a, b = ser(more(c)), ser(more(c.copy()))
                if a != b:
                    stale.append({'observable': 'edit:' + name + ' (aromatic_rings / split / match lists)', 'first': b[:600], 'other': a[:600]})
                th = lambda x: (x.thiele(), str(x))
                untouched = c.copy()          # taken BEFORE thiele() changes c in place
                a, b = ser(th(c)), ser(th(untouched))
                if a != b:
                    stale.append({'observable': 'edit:' + name + ' (thiele afterwards)', 'first': b[:600], 'other': a[:600]})
            return mine
        o['edit:' + name] = safe(run)

    class Rejected(Exception):
        pass

    def transaction(change, reads, fail):
        """`with mol:` block: a skeleton change, ring / component properties read on the edited structure inside the block, then
        (fail) an exception that rolls the transaction back"""
        def action(c):
            try:
                with c:
                    change(c)
                    for r in reads:
                        getattr(c, r)
                    if fail:
                        raise Rejected()
            except Rejected:
                pass
        return action
    if ks:
        edit('remap+100', lambda c: c.remap({k: k + 100 for k in ks}))
        edit('add_atom+add_bond', lambda c: c.add_bond(c.add_atom('C'), ks[0], 1))
        edit('add_atom,delete_atom', lambda c: c.delete_atom(c.add_atom('O')))
        far = next((k for k in reversed(ks) if k != ks[0] and k not in m._bonds[ks[0]]), None)
        if far is not None:
            edit('add_bond(between existing atoms)', lambda c: c.add_bond(ks[0], far, 1))
        edit('delete_atom(last)', lambda c: c.delete_atom(ks[-1]))
        if n > 1 and m._bonds[ks[-1]]:
            edit('delete_bond', lambda c: c.delete_bond(ks[-1], next(iter(c._bonds[ks[-1]]))))
        edit('union in place', lambda c: c.union(env['fragments'][0][1], remap=True, copy=False))
        # transactions: rolled back after the edited structure was looked at, and committed
        ring_reads = ('sssr', 'rings_count', 'atoms_rings_sizes', 'not_special_connectivity')
        comp_reads = ('connected_components', 'connected_components_count')
        small = n <= 20          # the transaction family runs on the smaller inputs (time)
        rb = next(((r[0], r[-1]) for r in m.sssr), None) if small else None          # a ring bond (closure of the first SSSR ring)
        lb = next(((a, b) for a in reversed(ks) for b in m._bonds[a]), None) if small else None
        if rb is not None:
            edit('failed transaction: ring bond deleted, rings read', transaction(lambda c: c.delete_bond(*rb), ring_reads, True), restores=True)
            edit('failed transaction: ring bond deleted, components read', transaction(lambda c: c.delete_bond(*rb), comp_reads, True), restores=True)
            edit('committed transaction: ring bond deleted, rings read', transaction(lambda c: c.delete_bond(*rb), ring_reads + comp_reads, False))
        if lb is not None:
            edit('failed transaction: bond deleted, components and rings read', transaction(lambda c: c.delete_bond(*lb), comp_reads + ring_reads, True), restores=True)
        if far is not None and small:
            edit('failed transaction: bond added, rings read', transaction(lambda c: c.add_bond(ks[0], far, 1), ring_reads + comp_reads, True), restores=True)
        if small:
            edit('failed transaction: atom deleted, everything read', transaction(lambda c: c.delete_atom(ks[-1]), ring_reads + comp_reads, True), restores=True)
            edit('failed transaction: nothing read', transaction(lambda c: c.delete_atom(ks[-1]), (), True), restores=True)
    # which attribute is read FIRST on a fresh object must not matter (cross-stored cache entries)
    def first_read():
        def light(x):
            return ser((str(x), x.smiles_atoms_order, x.atoms_order, x.sssr, x.rings_count, [a.ring_sizes for _, a in x.atoms()]))
        base = light(m.copy())
        bad = []
        for a in ('smiles_atoms_order', 'atoms_order', 'sssr', 'atoms_rings_sizes', 'connected_components', '__hash__', '__format__h'):
            c = m.copy()
            try:
                if a == '__hash__':
                    hash(c)
                elif a == '__format__h':
                    c.__format__('', _return_order=True)
                else:
                    getattr(c, a)
            except Exception:
                pass
            mine = light(c)
            if mine != base:
                bad.append(a)
                stale.append({'observable': 'first-read:' + a, 'first': base[:600], 'other': mine[:600]})
        return bad
    o['first-read'] = safe(first_read)
    o['__stale__'] = json.dumps(stale)
    return o


def observe_reaction(r, env):
    def state(c):
        return (str(c), [str(m) for m in c.reactants], [str(m) for m in c.reagents], [str(m) for m in c.products], safe(lambda: c.pack()))
    o = {'str': safe(lambda: str(r)), 'fmt:m': safe(lambda: format(r, 'm')), 'pack': safe(lambda: r.pack()),
         'compose': safe(lambda: r.compose()), 'meta': safe(lambda: r.meta), 'state': safe(lambda: state(r))}
    for name, kw in (('canonicalize', {}), ('standardize', {}), ('kekule', {}), ('thiele', {}), ('implicify_hydrogens', {}),
                     ('explicify_hydrogens', {}), ('remove_reagents', {}), ('remove_reagents', {'keep_reagents': True}),
                     ('remove_reagents', {'keep_reagents': True, 'mapping': False}), ('contract_ions', {}), ('fix_mapping', {}),
                     ('check_valence', {})):
        def one():
            c = r.copy()
            res = getattr(c, name)(**kw)
            return (res, state(c))
        o[f'rxn-op:{name}' + (':' + ','.join(f'{k}={v}' for k, v in kw.items()) if kw else '')] = safe(one)
    o['hash-eq'] = safe(lambda: (r == r.copy(), len({r, r.copy()})))
    return o


def inject_pyx(repo):
    """transpile the .pyx codecs / matcher from the repository under test and install them (no import of `common`)"""
    import types
    notes = []
    import chython  # noqa
    try:
        import pyx2py
        for name, rel in (('chython.containers._pack_v2', 'chython/containers/_pack_v2.pyx'),
                          ('chython.containers._unpack_v0v2', 'chython/containers/_unpack_v0v2.pyx')):
            py = pyx2py.transpile(open(os.path.join(repo, rel)).read(), rel)
            mod = types.ModuleType(name)
            mod.__file__ = rel
            sys.modules[name] = mod
            exec(compile(py, rel, 'exec'), mod.__dict__)
    except Exception as e:
        notes.append(f'pack codecs not injected: {type(e).__name__}: {e}')
    cython = False
    try:
        import iso_pyx
        rel = 'chython/algorithms/_isomorphism.pyx'
        py, _ = iso_pyx.transpile(open(os.path.join(repo, rel)).read(), rel)
        mod = types.ModuleType('chython.algorithms._isomorphism')
        mod.__file__ = rel
        exec(compile(py, rel, 'exec'), mod.__dict__)
        sys.modules['chython.algorithms._isomorphism'] = mod
        import chython.algorithms as alg
        alg._isomorphism = mod
        cython = True
    except Exception as e:
        notes.append(f'_isomorphism.pyx not injected (pure Python matcher only): {type(e).__name__}: {e}')
    return cython, notes


def coq_terms(m):
    """inputs of the Coq models for this molecule, printed by the worker (they must be identical in every process too)"""
    import coqmol
    from coqfmt import zraw, lst, tup
    t = {'mol': coqmol.mol_term(m),
         'rings': lst([n for n, a in m._atoms.items() if a.in_ring], zraw),
         'atoms_order': lst([tup(zraw(k), zraw(v)) for k, v in m.atoms_order.items()]),
         'linear_hash_set': lst(sorted(m.linear_hash_set(1, 4, 4)), zraw),
         'morgan_hash_set': lst(sorted(m.morgan_hash_set(1, 3)), zraw),
         'ring_sizes': [(n, lst(list(a.ring_sizes), zraw)) for n, a in m._atoms.items()],
         'smiles_atoms_order': list(m.smiles_atoms_order)}
    # long IV of the structure buffer (ring-size mask) per atom, read back from _cython_compiled_structure
    import struct
    buf = m._cython_compiled_structure
    cnt = struct.unpack_from('I', buf, 0)[0]
    masks = []
    for i in range(cnt):
        rec = struct.unpack_from('QQQQIII', buf, 4 + i * struct.calcsize('QQQQIII'))
        masks.append((rec[6], rec[3]))
    t['ring_masks'] = masks
    # the two-element unpack of _connected_rings: every pair of SSSR rings with exactly one common bond, merged in both orders
    from chython.algorithms.rings import _canonic_ring, _ring_scissors, _ring_adjacency
    pairs = []
    rings = list(m.sssr)
    for i in range(len(rings)):
        for j in range(i + 1, len(rings)):
            c, r = rings[i], rings[j]
            common = set(c) & set(r)
            if len(common) == 2:
                n, k = sorted(common)
                if k in _ring_adjacency(c)[n] and k in _ring_adjacency(r)[n]:
                    e1 = _canonic_ring((*_ring_scissors(c, n, k), *_ring_scissors(r, k, n)[1:-1]))
                    e2 = _canonic_ring((*_ring_scissors(c, k, n), *_ring_scissors(r, n, k)[1:-1]))
                    pairs.append((list(c), list(r), n, k, list(e1), list(e2)))
    t['fused_pairs'] = pairs[:8]
    # _fragments: the enumeration order of the chain set as this process sees it, and the dict it builds (order included)
    ch = list(m._chains(1, 3))
    t['chains_enum'] = [list(c) for c in ch]
    t['identifiers'] = [(k, v) for k, v in m._atom_identifiers.items()]
    t['fragments'] = [(list(k), [list(c) for c in v]) for k, v in m._fragments(1, 3).items()]
    t['linear_hash_set_13'] = sorted(m.linear_hash_set(1, 3, 2))
    # the weight groups of _smiles: weights = _chiral_morgan
    w = m._chiral_morgan
    t['weights'] = [(k, v) for k, v in w.items()]
    return t


def alias_trace(m):
    """intermediate states of MoleculeStereo._chiral_morgan on a cache-free copy: a line tracer on the frame of that function records the
    identity and the content of the working variable `morgan` (and the three group lists) after every executed line.  Returned: whether
    the variable started as a COPY of the cached atoms_order (object identity), the steps (a new object / the same object updated in
    place, with the atoms whose rank the in-place loops negate as read from the group lists), atoms_order before and after, the result."""
    c = m.copy()
    ao_before = list(c.atoms_order.items())
    ao_id = id(c.atoms_order)
    code = type(c)._chiral_morgan.func.__code__ if hasattr(type(c)._chiral_morgan, 'func') else None
    if code is None:
        for klass in type(c).__mro__:
            d = klass.__dict__.get('_chiral_morgan')
            if d is not None:
                code = getattr(d, 'func', getattr(d, 'fget', None)).__code__
                break
    events = []

    def local(frame, event, arg):
        if event in ('line', 'return'):
            lc = frame.f_locals
            w = lc.get('morgan')
            if w is not None:
                # the three group lists as they are (which members are negated is the model's business: the translated loops)
                neg = [[list(g) for g in lc.get('atoms_groups') or ()], [[[p[0], list(p[1])] for p in g] for g in lc.get('cis_trans_groups') or ()],
                       [list(g) for g in lc.get('allenes_groups') or ()]]
                events.append((id(w), list(w.items()), neg))
        return local

    def glob(frame, event, arg):
        return local if frame.f_code is code else None
    sys.settrace(glob)
    try:
        cm = list(c._chiral_morgan.items())
    finally:
        sys.settrace(None)
    ao_after = list(c.atoms_order.items())
    if not events:
        return {'stereo': False, 'ao': ao_before, 'cm': cm, 'ao_after': ao_after, 'steps': [], 'copied': None}
    copied = events[0][0] != ao_id
    steps = []
    cur_id, cur = events[0][0], events[0][1]
    if cur != ao_before:
        steps.append(('new', False, cur))          # never expected: the start value is atoms_order
    pending = None          # an in-place update in progress: (atoms negated, content)
    for wid, content, neg in events[1:]:
        if wid != cur_id:
            if pending:
                steps.append(pending)
                pending = None
            steps.append(('new', False, content))
            cur_id, cur = wid, content
        elif content != cur:
            pending = ('neg', neg, content)          # same object, other content: the in-place loops (all three) until the next rebinding
            cur = content
    if pending:
        steps.append(pending)
    return {'stereo': True, 'ao': ao_before, 'cm': cm, 'ao_after': ao_after, 'steps': steps, 'copied': copied, 'lines': len(events)}


# ---- insertion histories and pickles (extension round, goal 3) ----------------------------------------------------

def reordered(m, rng, inner):
    """the same molecule object state with other dict orders: a copy whose atom dict (and, with `inner`, every neighbour dict) is
    re-inserted in a shuffled order - what another sequence of add_atom / add_bond calls would have left behind, with every atom
    and bond attribute kept.  Stored stereo signs are relative to the neighbour order, so molecules with labels keep it."""
    c = m.copy()
    ks = list(c._atoms)
    rng.shuffle(ks)
    c._atoms = {n: c._atoms[n] for n in ks}
    nb = {}
    for n in ks:
        ms = list(c._bonds[n])
        if inner:
            rng.shuffle(ms)
        nb[n] = {k: c._bonds[n][k] for k in ms}
    c._bonds = nb
    c.flush_cache()
    return c


def hist_obs(x, env, ordered):
    """observables of one history variant; `ordered`: the variant has the dict orders of the original, so everything that
    follows insertion order must coincide too, otherwise only what is a function of the structure"""
    import pickle
    o = {}
    o['str'] = safe(lambda: str(x))
    o['sorted sets'] = safe(lambda: (sorted(x.linear_hash_set()), sorted(x.morgan_hash_set()), sorted(x.atoms_order.items()), sorted(sorted(c) for c in x.connected_components),
                                    x.rings_count, sorted(len(r) for r in x.sssr), sorted(x.brutto.items()) if all(a.implicit_hydrogens is not None for _, a in x.atoms()) else None))
    o['unpack(pack) str'] = safe(lambda: str(env['MoleculeContainer'].unpack(x.pack())))
    # which of several equivalent embeddings onto the same atoms is reported first follows the neighbour order (by design of the
    # automorphism filter): the matched ATOM SETS are the structure function
    o['matched atom sets'] = safe(lambda: [sorted({tuple(sorted(mp.values())) for mp in itertools.islice(q.get_mapping(x), 400)}) for _, q in env['queries'][:8] if q is not None])
    if ordered:
        o['pack'] = safe(lambda: x.pack())
        o['pack(compressed=False)'] = safe(lambda: x.pack(compressed=False))
        o['orders'] = safe(lambda: (x.smiles_atoms_order, x.atoms_order, x.sssr, x.connected_components, list(x._atoms), bonds_dump(x)))
        for sma, q in env['queries'][:6]:
            if q is not None:
                o['match:' + sma] = safe(lambda q=q: list(itertools.islice(q.get_mapping(x), 60)))
    return o


def history_variants(tag, smi, env, pkdir, intra):
    """one molecule reached through different insertion histories: copy, an atom added and deleted again, unpack(pack), renumbered
    forth and back, pickled and unpickled (same dict orders: EVERYTHING must coincide with the parsed molecule, pack bytes
    included); rebuilt by add_atom/add_bond in the original and in a shuffled order (other dict orders: everything that is a
    function of the structure must coincide).  Pickles are written for the cross-process loaders."""
    import pickle
    from chython import smiles
    MC = env['MoleculeContainer']
    rng = random.Random('hist:' + tag)
    out = {}
    m = smiles(smi)
    try:
        fresh_pickle = pickle.dumps(m)                    # before anything is cached
    except Exception as e:
        fresh_pickle = None
        out['pickle:fresh'] = f'EXC:{type(e).__name__}'
    V = {}
    V['copy'] = (lambda: m.copy(), True)

    def dummy():
        c = m.copy()
        k = c.add_atom('C')
        c.add_bond(k, next(iter(c._atoms)), 1)
        c.delete_atom(k)
        return c
    V['atom added and deleted'] = (dummy, True)
    V['unpack(pack)'] = (lambda: MC.unpack(m.pack()), True)

    def remapped():
        c = m.copy()
        ks = list(c._atoms)
        c.remap({k: k + 1000 for k in ks})
        c.remap({k + 1000: k for k in ks})
        return c
    V['renumbered forth and back'] = (remapped, True)
    if fresh_pickle is not None:
        V['pickle.loads(pickle.dumps)'] = (lambda: pickle.loads(fresh_pickle), True)
    has_stereo = any(a.stereo is not None for _, a in m.atoms()) or any(b.stereo is not None for *_, b in m.bonds())
    V['atom dict re-inserted in shuffled order'] = (lambda: reordered(m, rng, False), False)
    if not has_stereo:
        V['atom and neighbour dicts re-inserted in shuffled order'] = (lambda: reordered(m, rng, True), False)
    base = hist_obs(smiles(smi), env, True)
    for k, v in base.items():
        out['parsed:' + k] = v
    for name, (make, ordered) in V.items():
        try:
            x = make()
        except Exception as e:
            out[name] = f'EXC:{type(e).__name__}'
            continue
        o = hist_obs(x, env, ordered)
        for k, v in o.items():
            out[f'{name}:{k}'] = v
            if base.get(k) != v:
                intra.append({'input': tag, 'observable': f'history:{k.split(":")[0]}', 'variant': 'history: ' + name, 'first': base.get(k, '')[:600], 'other': v[:600]})
    # pickles: idempotent, and written for the loaders of ANOTHER process / hash seed
    if fresh_pickle is not None:
        out['pickle:fresh'] = 'b:' + hashlib.blake2b(fresh_pickle, digest_size=8).hexdigest() + f':{len(fresh_pickle)}'
        # informational: a set of ints can change its iteration order through a pickle round trip (it is re-inserted in pickled
        # order), so dumps(loads(b)) == b is NOT required; what the reloaded molecule ANSWERS is compared above
        out['pickle:fresh is a fixed point of loads/dumps'] = ser(pickle.dumps(pickle.loads(fresh_pickle)) == fresh_pickle)
        warm = smiles(smi)
        for a in ('atoms_order', 'sssr', 'atoms_rings_sizes', 'connected_components', 'rings_count', '_chiral_morgan', 'not_special_connectivity'):
            try:
                getattr(warm, a)
            except Exception:
                pass
        try:
            warm_pickle = pickle.dumps(warm)
            out['pickle:warm cached_property cache'] = 'b:' + hashlib.blake2b(warm_pickle, digest_size=8).hexdigest() + f':{len(warm_pickle)}'
        except Exception as e:
            warm_pickle = None
            out['pickle:warm cached_property cache'] = f'EXC:{type(e).__name__}'
        hot = smiles(smi)
        hash(hot)
        try:            # with CachedMethods 0.2 a lock sits in __dict__ after str()/hash(): TypeError; if it ever pickles, the loaders test it
            hot_pickle = pickle.dumps(hot)
            out['pickle:after str() and hash()'] = 'pickled'
        except Exception as e:
            hot_pickle = None
            out['pickle:after str() and hash()'] = f'EXC:{type(e).__name__}'
        os.makedirs(pkdir, exist_ok=True)
        n = len(os.listdir(pkdir))
        with open(os.path.join(pkdir, f'{n}.pkl'), 'wb') as f:
            pickle.dump({'tag': tag, 'smiles': smi, 'fresh': fresh_pickle, 'warm': warm_pickle, 'hot': hot_pickle}, f)
    return out


def loader(spec_path, pkdir, out_path):
    """second phase: THIS process (its own hash seed) loads the pickles another process wrote under another seed"""
    import pickle
    spec = json.load(open(spec_path))
    import boot  # noqa
    cython, notes = inject_pyx(spec['repo'])
    from chython import smiles, MoleculeContainer
    problems, obs = [], {}
    files = sorted(os.listdir(pkdir), key=lambda x: int(x.split('.')[0])) if os.path.isdir(pkdir) else []
    for fn in files:
        rec = pickle.load(open(os.path.join(pkdir, fn), 'rb'))
        tag, smi = rec['tag'], rec['smiles']
        fresh = smiles(smi)
        o = {}
        for kind in ('fresh', 'warm', 'hot'):
            if rec.get(kind) is None:
                continue
            try:
                x = pickle.loads(rec[kind])
            except Exception as e:
                problems.append({'input': tag, 'what': f'{kind} pickle of another process does not load: {type(e).__name__}'})
                continue
            facts = {'== freshly parsed': x == fresh, 'hash == hash(freshly parsed)': hash(x) == hash(fresh), 'in {freshly parsed}': x in {fresh},
                     'freshly parsed in {loaded}': fresh in {x}, 'str equal': str(x) == str(fresh), 'pack bytes equal': x.pack() == fresh.pack(),
                     'atoms_order equal': x.atoms_order == fresh.atoms_order, 'sssr equal': x.sssr == fresh.sssr,
                     'smiles_atoms_order equal': x.smiles_atoms_order == fresh.smiles_atoms_order,
                     'connected_components equal': x.connected_components == fresh.connected_components}
            bad = [k for k, v in facts.items() if not v]
            if bad:
                problems.append({'input': tag, 'what': f'{kind} pickle written under another hash seed, loaded here: ' + ', '.join(bad)})
            o[kind] = ser((str(x), x.smiles_atoms_order, x.sssr, sorted(x.linear_hash_set())))
        obs[tag] = o
    json.dump({'problems': problems, 'obs': obs, 'loaded': len(files), 'hashseed': os.environ.get('PYTHONHASHSEED')}, open(out_path, 'w'))


def compare_variants(tag, base, other, name_b, intra):
    for k, v in base.items():
        if k in other and other[k] != v:
            intra.append({'input': tag, 'observable': k, 'variant': name_b, 'first': v[:600], 'other': other[k][:600]})


def worker(spec_path, out_path):
    t0 = time.time()
    spec = json.load(open(spec_path))
    import boot  # noqa
    instrumented = os.environ.get('C19_INSTRUMENT') == '1'
    if instrumented:
        # run-time cross-check of the audit's typing: the audited modules are imported through the recording AST rewriter
        import gen_setaudit
        gen_setaudit.install_runtime_audit(spec['repo'])
    cython, notes = inject_pyx(spec['repo'])
    from chython import smiles, smarts, MoleculeContainer, SDFRead, SDFWrite
    env = {'cython': cython, 'MoleculeContainer': MoleculeContainer}
    env['queries'] = []
    for s in spec['smarts']:
        try:
            env['queries'].append((s, smarts(s)))
        except Exception as e:
            env['queries'].append((s, None))
            notes.append(f'smarts {s}: {type(e).__name__}')
    env['fragments'] = [(s, smiles(s)) for s in spec['fragments']]
    obs, intra, terms, alias = {}, [], {}, {}
    for idx, (tag, smi) in enumerate(spec['molecules']):
        def parse():
            m = smiles(smi)
            if m is not None and tag.startswith(('corpus', 'gen', 'ion')):
                m.canonicalize()          # corpus inputs are observed in standardised form, hand-made ones as parsed
            if m is not None:
                m.meta.update({'zeta': 'z', 'alpha': smi, 'name': tag})
            return m
        try:
            m = parse()
        except Exception as e:
            obs[tag] = {'parse': f'EXC:{type(e).__name__}'}
            continue
        if m is None:
            obs[tag] = {'parse': 'None'}
            continue
        first = observe_reads(m, env)
        ops = observe_ops(m, env)                           # operations on copies: m itself must stay untouched
        for d in json.loads(ops.pop('__stale__')):
            intra.append(dict(d, input=tag, variant='fresh copy after the edit' if d['observable'].startswith('edit') else 'fresh copy of the object after the in-place operation' if d['observable'].startswith('op:') else 'that attribute read first on a fresh copy'))
        if instrumented:         # one pass over every observable is enough to execute the code; the comparisons are for the others
            first.update(ops)
            obs[tag] = first
            if tag in spec.get('history_inputs', ()):
                try:
                    history_variants(tag, smi, env, out_path + '.pk', intra)
                except Exception:
                    pass
            continue
        if len(m._atoms) <= 40:
            isolated_reads(m, env, first, tag, intra)
        second = observe_reads(m, env, 'backward')          # every cached value is now read from the cache
        compare_variants(tag, first, second, 'second call (cached, after operations on copies)', intra)
        if idx % 3 == 1 or tag.startswith('hand'):
            m.flush_cache()
            compare_variants(tag, first, observe_reads(m, env, 'backward'), 'after flush_cache (read in reverse order)', intra)
        c = m.copy()
        c.meta.update(m.meta)
        compare_variants(tag, first, observe_reads(c, env, tag), 'copy() (read in shuffled order)', intra)
        if idx % 3 == 0:
            cops = observe_ops(c, env)
            cops.pop('__stale__')
            compare_variants(tag, ops, cops, 'ops on copy()', intra)
        if idx % 6 == 2:
            compare_variants(tag, first, observe_reads(parse(), env), 're-parsed object', intra)
        first.update(ops)
        obs[tag] = first
        if tag in spec.get('history_inputs', ()):
            try:
                obs['hist|' + tag] = history_variants(tag, smi, env, out_path + '.pk', intra)
            except Exception as e:
                obs['hist|' + tag] = {'error': f'EXC:{type(e).__name__}:{str(e)[:100]}'}
        if tag in spec['model_inputs']:
            try:
                terms[tag] = coq_terms(m)
            except Exception as e:
                terms[tag] = {'error': f'{type(e).__name__}: {e}'}
        if tag in spec.get('alias_inputs', ()):
            try:
                alias[tag] = alias_trace(m)
            except Exception as e:
                alias[tag] = {'error': f'{type(e).__name__}: {e}'}
    for tag, smi in spec['reactions']:
        try:
            r = smiles(smi)
        except Exception as e:
            obs[tag] = {'parse': f'EXC:{type(e).__name__}'}
            continue
        first = observe_reaction(r, env)
        compare_variants(tag, first, observe_reaction(r, env), 'second call (cached)', intra)
        compare_variants(tag, first, observe_reaction(r.copy(), env), 'copy()', intra)
        obs[tag] = first
    # reactor: the LIST of generated reactions, order included
    if spec.get('reactor'):
        from chython import Reactor
        for name, qs, ps, ms in spec['reactor']:
            tag = 'reactor:' + name
            def run_reactor(**kw):
                rx = Reactor([smarts(q) for q in qs], [smarts(q) for q in ps], **kw)
                out = []
                for r in itertools.islice(rx(*[smiles(s) for s in ms]), 25):
                    out.append((str(r), [list(m._atoms) for m in r.products]))
                return out
            obs[tag] = {'reactions': safe(run_reactor), 'reactions(again)': safe(run_reactor),
                        'reactions(automorphism_filter=False)': safe(lambda: run_reactor(automorphism_filter=False))}
            if obs[tag]['reactions'] != obs[tag]['reactions(again)']:
                intra.append({'input': tag, 'observable': 'reactions', 'variant': 'second call (cached)', 'first': obs[tag]['reactions'][:600],
                              'other': obs[tag]['reactions(again)'][:600]})
    # files with str-keyed metadata
    for path in spec['sdf']:
        tag = 'sdf:' + os.path.basename(path)
        o = {}
        try:
            with SDFRead(path) as f:
                recs = list(itertools.islice(f, spec.get('sdf_limit', 12)))
            o['records'] = safe(lambda: [(str(x), x.meta, x.name) for x in recs])
            import io
            buf = io.StringIO()
            with SDFWrite(buf) as w:
                for x in recs:
                    w.write(x)
            o['rewritten'] = hashlib.blake2b(buf.getvalue().encode(), digest_size=8).hexdigest()
            o['standardized'] = safe(lambda: [(x.standardize(), str(x)) for x in recs])
        except Exception as e:
            o['read'] = f'EXC:{type(e).__name__}'
        obs[tag] = o
    executed = None
    if instrumented:
        import gen_setaudit
        executed = {'set': [[list(k), v] for k, v in sorted(gen_setaudit.EXECUTED.items())],
                    'non_set': [[list(k), v] for k, v in sorted(gen_setaudit.SEEN_NON_SET.items())]}
    json.dump({'obs': obs, 'intra': intra, 'terms': terms, 'alias': alias, 'notes': notes, 'cython': cython, 'hashseed': os.environ.get('PYTHONHASHSEED'), 'executed': executed,
               'str_hash_probe': hash('chython') & 0xffff, 'wall': round(time.time() - t0, 1)}, open(out_path, 'w'))


if __name__ == '__main__':
    if len(sys.argv) == 4 and sys.argv[1] == '--worker':
        worker(sys.argv[2], sys.argv[3])
        sys.exit(0)
    if len(sys.argv) == 5 and sys.argv[1] == '--loader':
        loader(sys.argv[2], sys.argv[3], sys.argv[4])
        sys.exit(0)
    sys.exit('usage: C19.py --worker spec.json out.json')


# ----------------------------------------------------------------------------------------------------------------
# PARENT

import boot  # noqa
import common
import coqcases
import corpus
from coqfmt import zraw, lst, tup, b as cb

replay = common.generic_replay

REPLAY_TMPL = '''import subprocess, sys, os
code = {code!r}
outs = []
for seed in {seeds!r}:
    env = dict(os.environ, PYTHONHASHSEED=str(seed))
    p = subprocess.run([sys.executable, '-c', 'import boot\\n' + code], env=env, capture_output=True, text=True)
    outs.append(p.stdout.strip() or p.stderr.strip()[-300:])
    print('PYTHONHASHSEED=%s ->' % seed, outs[-1])
print('IDENTICAL' if len(set(outs)) == 1 else 'DIFFERENT')
'''


REPLAY_PICKLE = '''import subprocess, sys, os, tempfile
smi = {smi!r}
path = os.path.join(tempfile.mkdtemp(), 'm.pkl')
w = "import boot, pickle; from chython import smiles; pickle.dump(smiles(%r), open(%r, 'wb'))" % (smi, path)
r = ("import boot, pickle; from chython import smiles; x = pickle.load(open(%r, 'rb')); f = smiles(%r); "
     "print(x == f, hash(x) == hash(f), x in {{f}}, str(x) == str(f), x.atoms_order == f.atoms_order, x.sssr == f.sssr)") % (path, smi)
subprocess.run([sys.executable, '-c', w], env=dict(os.environ, PYTHONHASHSEED='{a}'), check=True)
p = subprocess.run([sys.executable, '-c', r], env=dict(os.environ, PYTHONHASHSEED='{b}'), capture_output=True, text=True)
print('written under {a}, loaded under {b}:', p.stdout.strip() or p.stderr[-300:])
'''


def obs_code(kind, smi, name):
    """python text that prints one observable of one input (used in replays)"""
    pre = 'from chython import smiles, smarts, MoleculeContainer; import itertools; '
    if kind == 'reaction':
        if name.startswith('rxn-op:'):
            parts = name.split(':')
            kw = ', '.join(parts[2].split(',')) if len(parts) > 2 else ''
            return pre + f'r = smiles({smi!r}); x = r.{parts[1]}({kw}); print(x, [str(m) for m in r.reactants], [str(m) for m in r.reagents], [str(m) for m in r.products])'
        return pre + f'r = smiles({smi!r}); print(str(r))'
    m = f'm = smiles({smi!r}); '
    if name.startswith('match'):
        sma = name.split(':', 1)[1]
        kw = 'automorphism_filter=False' if name.startswith('match-all') else ''
        return pre + m + f'print(list(itertools.islice(smarts({sma!r}).get_mapping(m, {kw}), 120)))'
    if name.startswith('fmt:'):
        return pre + m + f'print(format(m, {name[4:]!r}))'
    if name.startswith('op:'):
        op = name[3:].split('{')[0]
        return pre + m + f'r = m.{op}(); print(r, str(m), list(m._atoms))'
    if name in ('str',):
        return pre + m + 'print(str(m))'
    if name.startswith('morgan_hash_smiles'):
        return pre + m + 'print(m.morgan_hash_smiles(1, 2))'
    if name.startswith('morgan_smiles_hash'):
        return pre + m + 'print(list(m.morgan_smiles_hash(1, 2).items()))'
    if name in ('linear_hash_smiles', 'linear_smiles_hash'):
        return pre + m + f'print(list(m.{name}(1, 3).items()))'
    if name in CACHED_ATTRS:
        return pre + m + f'print(m.{name})'
    if name in ('enumerate_tautomers', 'enumerate_kekule', 'enumerate_charged_forms'):
        return pre + m + f'print([str(t) for t in itertools.islice(m.{name}(), 8)])'
    return pre + m + f'print(str(m))  # observable {name!r}: see harness/checks/C19.py observe_reads/observe_ops'


def op_code(smi, name):
    """replay of a `stale-after-op` difference: the in-place operation, then what the object answers (strings, orders, match lists through the
    accelerated and the reference matcher) against what a fresh copy of it answers"""
    op = name[3:].split('{')[0]
    return ('import boot, os, sys, types, itertools\nimport chython, iso_pyx\nimport chython.algorithms as alg\n'
            'rel = "chython/algorithms/_isomorphism.pyx"; repo = os.path.dirname(os.path.dirname(chython.__file__))\n'
            'py, _ = iso_pyx.transpile(open(os.path.join(repo, rel)).read(), rel); mod = types.ModuleType("chython.algorithms._isomorphism")\n'
            'exec(compile(py, rel, "exec"), mod.__dict__); sys.modules["chython.algorithms._isomorphism"] = mod; alg._isomorphism = mod\n'
            'from chython import smiles, smarts\n' + f'm = smiles({smi!r}); str(m), m.atoms_order, m.sssr\nr = m.{op}()\n' +
            f'f = lambda x: [(str(x), x.atoms_order, x.sssr)] + [(q, list(itertools.islice(smarts(q).get_mapping(x), 60))) for q in {MATCH_AFTER_OP!r}]\n' +
            f'g = lambda x: [(q, list(itertools.islice(smarts(q).get_mapping(x, _cython=False), 60))) for q in {MATCH_AFTER_OP!r}]\n' +
            'mine, fresh, ref = f(m), f(m.copy()), g(m)\n'
            'for a, b in zip(mine, fresh):\n    if a != b: print("object after the operation:", a); print("fresh copy of it         :", b)\n'
            'for a, b in zip(mine[1:], ref):\n    if a != b: print("accelerated matcher:", a); print("reference matcher  :", b)\n'
            'print("IDENTICAL" if mine == fresh and mine[1:] == ref else "DIFFERENT")\n')


def iso_code(smi, name):
    """replay of an `isolated` / `impure-read` difference: the observable alone on a cache-free copy, then again after the other readers ran"""
    expr = 'str(x)' if name == 'str' else f'format(x, {name[4:]!r})' if name.startswith('fmt:') else f'x.{name}' if name in CACHED_ATTRS else \
        f'sorted(x.{name}())' if name in ('linear_hash_set', 'morgan_hash_set') else 'x.pack().hex()' if name == 'pack' else 'str(x)'
    return ('import boot\nfrom chython import smiles\n' + f'm = smiles({smi!r})\n' + f'f = lambda x: {expr}\n' +
            'a = m.copy(); alone = repr(f(a)); print("alone on a fresh copy :", alone)\n'
            'b = m.copy(); str(b); b._chiral_morgan; b.sssr; b.atoms_order; format(b, "!s"); later = repr(f(b)); print("after other reads    :", later)\n'
            'again = repr(f(a)) if (str(a), a._chiral_morgan, format(a, "!s"), a.sssr) else None; print("first object, again  :", again)\n'
            'print("IDENTICAL" if alone == later == again else "DIFFERENT")\n')


def build_spec(ck):
    quick = ck.tier == 'quick'
    rng = random.Random(f'{ck.seed}:c19')
    mols = [('hand:' + s, s) for s in HAND]
    # cations whose charge position is decided by Morgan ranks inside standardize_charges (imidazolium / pyrazolium / amidinium
    # type, ionic liquids), ferrocene-type anions: observed as parsed (hand:) and after canonicalize() (ion:)
    for s in IONS:
        mols.append(('hand:' + s, s))
        mols.append(('ion:' + s, s))
    for s in CHELATES:
        mols.append(('hand:' + s, s))
        mols.append(('ion:' + s, s))
    for s in dict.fromkeys(FREAKS + freak_family(random.Random(f'{ck.seed}:c19freaks'), 5 if quick else 40)):
        mols.append(('hand:' + s, s))
    for s in dict.fromkeys(RING_STEREO + ring_stereo_family(random.Random(f'{ck.seed}:c19ringstereo'), 6 if quick else 40)):
        mols.append(('hand:' + s, s))
    pool = corpus.sample(corpus.lipo(), 24 if quick else 500, ck.seed, 'c19')
    for s in pool:
        mols.append(('corpus:' + s, s))
    # element-symbol rich generated inputs (str-keyed tables: symbols, brutto, organic_set)
    syms = ['B', 'C', 'N', 'O', 'F', 'Si', 'P', 'S', 'Cl', 'Se', 'Br', 'I', 'Li', 'Na', 'K', 'Mg', 'Al', 'Zn', 'Cu', 'Sn', 'As', 'Te']
    for i in range(10 if quick else 100):
        k = rng.randint(2, 6)
        parts = []
        for _ in range(k):
            s = rng.choice(syms)
            parts.append(s if s in ('B', 'C', 'N', 'O', 'F', 'P', 'S', 'Cl', 'Br', 'I') and rng.random() < 0.7 else f'[{s}]')
        sep = rng.choice(['', '', '.'])
        mols.append((f'gen:{i}', sep.join(parts)))
    model_inputs = [t for t, s in mols if t.startswith('ion:')] + [t for t, s in mols if t.startswith('hand:')][:44] + [t for t, s in mols if t.startswith('corpus:') and len(s) < 40][: (12 if quick else 120)]
    test_dir = os.path.join(common.REPO, 'test')
    sdf = sorted(os.path.join(test_dir, f) for f in os.listdir(test_dir) if f.endswith('.sdf'))[: (3 if quick else 8)] if os.path.isdir(test_dir) else []
    history_inputs = [tg for tg, s in mols if tg.startswith('hand:')][::3][: (25 if quick else 80)] + [tg for tg, s in mols if tg.startswith('corpus:')][: (3 if quick else 60)]
    # inputs of the _chiral_morgan trace (working variable, in-place steps): every hand-made / generated input with a stereo mark, some corpus ones
    alias_inputs = [tg for tg, s in mols if tg.startswith('hand:') and any(c in s for c in '@/\\')] + \
        [tg for tg, s in mols if tg.startswith('corpus:') and any(c in s for c in '@/\\')][: (6 if quick else 80)]
    return {'repo': common.REPO, 'alias_inputs': alias_inputs, 'history_inputs': history_inputs, 'molecules': mols, 'reactions': [('rxn:' + s, s) for s in REACTIONS], 'smarts': SMARTS,
            'fragments': FRAGMENTS, 'reactor': REACTOR, 'model_inputs': model_inputs, 'sdf': sdf, 'sdf_limit': 10 if quick else 40, 'reparse': True}


def run_workers(ck, spec, seeds, instrument=()):
    """one fresh interpreter per entry of `seeds`; returns list of (label, seed, result dict | None, log)"""
    tmp = tempfile.mkdtemp(prefix='c19_')
    spec_path = os.path.join(tmp, 'spec.json')
    json.dump(spec, open(spec_path, 'w'))
    # every process of this run executes the same snapshot of the worker code
    import shutil
    worker_py = os.path.join(tmp, 'c19_worker.py')
    shutil.copy(os.path.abspath(__file__), worker_py)
    procs = []
    results = []
    env_base = dict(os.environ)
    env_base['PYTHONPATH'] = f'{common.REPO}:{os.path.join(common.VERIF, "harness")}:{os.path.join(common.VERIF, "tools")}'

    def launch(i, seed):
        out = os.path.join(tmp, f'out{i}.json')
        env = dict(env_base, PYTHONHASHSEED=str(seed))
        if i in instrument:
            env['C19_INSTRUMENT'] = '1'
        logf = open(os.path.join(tmp, f'log{i}.txt'), 'w')          # a file, not a pipe: a chatty worker must never block
        p = subprocess.Popen(['/venv/bin/python', '-u', worker_py, '--worker', spec_path, out], env=env,
                             stdout=logf, stderr=subprocess.STDOUT, text=True)
        logf.close()
        return (i, seed, p, out)
    pending = list(enumerate(seeds))
    running = []
    deadline = time.time() + (900 if ck.tier == 'quick' else 6000)
    while pending or running:
        while pending and len(running) < 5:
            i, seed = pending.pop(0)
            running.append(launch(i, seed))
        for r in list(running):
            i, seed, p, out = r
            if p.poll() is not None:
                log = open(os.path.join(tmp, f'log{i}.txt'), errors='replace').read()
                res = None
                if p.returncode == 0 and os.path.exists(out):
                    res = json.load(open(out))
                results.append((i, seed, res, log[-3000:]))
                running.remove(r)
            elif time.time() > deadline:
                p.kill()
                results.append((i, seed, None, 'TIMEOUT'))
                running.remove(r)
        time.sleep(0.2)
    results.sort()
    inst_results = [r for r in results if r[0] in instrument]
    results = [r for r in results if r[0] not in instrument]
    # phase 2: every process position loads, under ITS seed, the pickles written by the next process (another seed)
    if spec.get('history_inputs') and len(results) > 1:
        loaders = []
        n = len(results)
        for pos, (i, seed, res, log) in enumerate(results):
            if res is None:
                continue
            src = os.path.join(tmp, f'out{results[(pos + 1) % n][0]}.json.pk')
            out = os.path.join(tmp, f'load{i}.json')
            env = dict(env_base, PYTHONHASHSEED=str(seed))
            logf = open(os.path.join(tmp, f'loadlog{i}.txt'), 'w')
            pr = subprocess.Popen(['/venv/bin/python', '-u', worker_py, '--loader', spec_path, src, out], env=env, stdout=logf, stderr=subprocess.STDOUT)
            logf.close()
            loaders.append((pos, i, pr, out, results[(pos + 1) % n][1]))
        for pos, i, pr, out, src_seed in loaders:
            try:
                pr.wait(timeout=600)
            except subprocess.TimeoutExpired:
                pr.kill()
            lres = None
            if pr.returncode == 0 and os.path.exists(out):
                lres = json.load(open(out))
                lres['written_under_seed'] = src_seed
            else:
                lres = {'error': open(os.path.join(tmp, f'loadlog{i}.txt'), errors='replace').read()[-2000:], 'written_under_seed': src_seed}
            results[pos][2]['loader'] = lres
    shutil.rmtree(tmp, ignore_errors=True)
    if instrument:
        return results, inst_results
    return results


def known_key(name):
    """stable key of a seed dependence: one per observable family (the input is in the replay)"""
    return 'seed-dependent:' + family(name)


def family(name):
    if name.startswith(('match', 'molmatch', 'fmt:')):
        return name.split(':')[0]
    if name.startswith(('op:', 'rxn-op:')):
        return ':'.join(name.split('{')[0].split(':')[:2])
    return name


def differential(ck, spec, results, label=''):
    smi_of = dict(spec['molecules'])
    smi_of.update(dict(spec['reactions']))
    good = [(i, seed, res) for i, seed, res, log in results if res is not None]
    for i, seed, res, log in results:
        ck.oblige(f'{label}worker process {i} (PYTHONHASHSEED={seed}) ran to completion', res is not None, 'machinery', log)
        if res is None:
            ck.unchecked(f'worker process {i} under PYTHONHASHSEED={seed} failed', log)
    if len(good) < 2:
        return False
    # the seeds really differ for str hashing (otherwise the experiment tests nothing)
    probes = {res['str_hash_probe'] for _, _, res in good}
    ck.oblige(label + 'the worker processes really run under different str-hash seeds (hash("chython") differs)', len(probes) > 1, 'machinery', str(probes))
    if len(probes) <= 1:
        ck.unchecked('hash seeds did not take effect in the worker processes', str(probes))
    ck.extra['worker_notes'] = sorted({n for _, _, res in good for n in res['notes']})
    ck.extra['cython_path_injected'] = all(res['cython'] for _, _, res in good)
    ck.extra['worker_wall_s'] = [res['wall'] for _, _, res in good]
    base_i, base_seed, base = good[0]
    n_cmp = 0
    n_diff = 0
    families = {}
    for tag, ob in base['obs'].items():
        kind = 'reaction' if tag.startswith('rxn:') else 'sdf' if tag.startswith(('sdf:', 'reactor:')) else 'molecule'
        tag_in = tag[5:] if tag.startswith('hist|') else tag
        nontrivial = not (len(ob) == 1 and 'parse' in ob)
        ck.count('inputs:' + tag.split(':')[0])
        for name, text in ob.items():
            fam = name.split(':')[0]
            families[fam] = families.get(fam, 0) + 1
            ck.case((tag, name), nontrivial=nontrivial and not text.startswith('EXC:'))
            if text.startswith('EXC:'):
                ck.count('observable raised (compared as exception type)')
            for i, seed, res in good[1:]:
                other = res['obs'].get(tag, {}).get(name)
                n_cmp += 1
                if other != text:
                    n_diff += 1
                    smi = smi_of.get(tag_in, tag_in)
                    code = obs_code(kind, smi, name)
                    same_seed = str(seed) == str(base_seed)
                    what = (f'{name} of {smi!r} differs between ' +
                            (f'two processes under the same PYTHONHASHSEED={seed}' if same_seed else f'PYTHONHASHSEED={base_seed} and PYTHONHASHSEED={seed}'))
                    key = ('process-dependent:' if same_seed else '') + known_key(name)
                    ck.counterexample(key, what, {'input': smi, 'observable': name, 'seed_a': base_seed, 'seed_b': seed},
                                      (other or 'missing')[:1500], text[:1500], 'the same computation in another interpreter process / hash seed',
                                      replay_py=REPLAY_TMPL.format(code=code, seeds=[base_seed, seed]))
                    break
    # cross-process pickles
    n_loaded = 0
    for i, seed, res in good:
        l = res.get('loader')
        if l is None:
            continue
        ok = 'error' not in l
        ck.oblige(f'{label}loader under PYTHONHASHSEED={seed} read the pickles written under PYTHONHASHSEED={l.get("written_under_seed")}', ok, 'machinery', l.get('error', ''))
        if not ok:
            ck.unchecked('pickle loader process failed', l.get('error', ''))
            continue
        n_loaded += l['loaded']
        for pb in l['problems']:
            smi = smi_of.get(pb['input'], pb['input'])
            ck.counterexample('pickle-across-processes', f'{smi!r}: {pb["what"]}', {'input': smi, 'written_under_seed': l['written_under_seed'], 'loaded_under_seed': seed},
                              pb['what'], 'the loaded molecule equals (==, hash, set membership, str, pack bytes, orders) the one parsed in the loading process',
                              'a freshly parsed molecule in the loading process',
                              replay_py=REPLAY_PICKLE.format(smi=smi, a=l['written_under_seed'], b=seed))
    if n_loaded:
        ck.extra['pickles_loaded_across_processes'] = n_loaded
        base_l = good[0][2].get('loader', {}).get('obs')
        for i, seed, res in good[1:]:
            lo = res.get('loader', {}).get('obs')
            if base_l is not None and lo is not None and lo != base_l:
                bad = [k for k in base_l if lo.get(k) != base_l[k]][:3]
                ck.counterexample('pickle-across-processes:observables', f'molecules loaded from pickles answer differently in two loading processes: {bad}',
                                  {'inputs': bad}, str([lo.get(k) for k in bad])[:1000], str([base_l[k] for k in bad])[:1000], 'another loading process')
    # inside one process: cached / flushed / copy / re-parsed
    n_intra = 0
    for i, seed, res in good:
        for d in res['intra']:
            n_intra += 1
            smi = smi_of.get(d['input'], d['input'])
            vkey = {'second call (cached, after operations on copies)': 'cached', 'second call (cached)': 'cached', 'after flush_cache': 'flushed',
                    'after flush_cache (read in reverse order)': 'flushed', 'copy() (read in shuffled order)': 'copy',
                    'read alone on a cache-free copy (nothing else read before)': 'isolated', 'read again after the other attributes were read on the same object': 'impure-read',
                    'copy()': 'copy', 're-parsed object': 'reparsed', 'ops on copy()': 'copy-ops', 'fresh copy after the edit': 'stale', 'fresh copy of the object after the in-place operation': 'stale-after-op', 'that attribute read first on a fresh copy': 'first-read'}.get(d['variant'], d['variant'])
            ck.counterexample(f'{vkey}:{family(d["observable"])}', f'{d["observable"]} of {smi!r}: first call differs from {d["variant"]}',
                              {'input': smi, 'observable': d['observable'], 'variant': d['variant'], 'PYTHONHASHSEED': seed},
                              d['other'], d['first'], 'first (uncached) evaluation of the same object',
                              replay_py=iso_code(smi, d['observable']) if vkey in ('isolated', 'impure-read') else op_code(smi, d['observable']) if vkey == 'stale-after-op' else obs_code('molecule', smi, d['observable']))
    ck.extra['differential' if not label else 'differential_directed'] = {'processes': len(good), 'seeds': [s for _, s, _ in good], 'inputs': len(base['obs']),
                                'observables_per_process': sum(len(o) for o in base['obs'].values()),
                                'pairwise_comparisons': n_cmp, 'differences': n_diff, 'intra_process_differences': n_intra,
                                'observable_families': families}
    ck.oblige(f'{label}differential: {sum(len(o) for o in base["obs"].values())} observables x {len(good)} processes identical byte for byte '
              f'(known findings excepted)', True, 'search', f'{n_diff} differences, {n_intra} intra-process differences')
    return True


# ---- correspondence with the seed-free models ----------------------------------------------------------------

EXTRA = '''From Model Require Import Graph PyHash Determinism.
From Proofs Require Import DeterminismRings.
From Model Require Morgan Fingerprint Rings.
Import ListNotations.
Open Scope list_scope.
Open Scope Z_scope.
Definition ao_ok (rings : list Z) (g : mol) (e : list (Z * Z)) : bool := Morgan.res_eqb (Morgan.py_atoms_order rings g) (Ok e).
Definition lh_ok (g : mol) (e : list Z) : bool := list_eqb Z.eqb (Fingerprint.set_z (Fingerprint.linear_hash_list hash_ztuple g 1 4 4)) e.
Definition mh_ok (g : mol) (e : list Z) : bool :=
  pyres_eqb (list_eqb Z.eqb) (match Fingerprint.morgan_hash_list hash_ztuple g 1 3 with Ok l => Ok (Fingerprint.set_z l) | Err x => Err x end) (Ok e).
Definition rm_ok (enum : list Z) (mask : Z) : bool := (ring_mask enum =? mask) && (ring_mask (rev enum) =? mask).
Definition zz_eqb := list_eqb (fun a b : Z * Z => (fst a =? fst b) && (snd a =? snd b)).
(* _fragments: the model run on the enumeration this process saw reproduces the dict INCLUDING its order; run on the reverse
   enumeration it gives the same dict up to key order and order inside the lists; linear_hash_set from both *)
Definition zll_eqb := list_eqb (list_eqb Z.eqb).
Definition frd_eqb := list_eqb (fun a b : list Z * list (list Z) => list_eqb Z.eqb (fst a) (fst b) && zll_eqb (snd a) (snd b)).
Definition ll_leb (a b : list Z) : bool := negb (zlist_ltb b a).
Definition canon_frd (d : list (list Z * list (list Z))) :=
  sort_leb (fun a b => ll_leb (fst a) (fst b)) (map (fun kv => (fst kv, sort_leb ll_leb (snd kv))) d).
Definition fr_ok (g : mol) (ids : list (Z * Z)) (enum : list (list Z)) (expect : list (list Z * list (list Z))) (hs : list Z) : bool :=
  let idf := Fingerprint.ident ids in let ord := Fingerprint.bond_order g in
  let h := fun (k : list Z) (c : Z) => hash_ztuple (k ++ [c]) in
  frd_eqb (fragments_of idf ord enum) expect &&
  frd_eqb (canon_frd (fragments_of idf ord (rev enum))) (canon_frd expect) &&
  list_eqb Z.eqb (frag_hash_set zlist_eqb (frag_key idf ord) (frag_val idf ord) h 2 enum) hs &&
  list_eqb Z.eqb (frag_hash_set zlist_eqb (frag_key idf ord) (frag_val idf ord) h 2 (rev enum)) hs.
(* n, m = common in _connected_rings: the model of the merge expression equals the real one for both enumerations *)
Definition mr_ok (c r : list Z) (n m : Z) (e1 e2 : list Z) : bool :=
  pyres_eqb (list_eqb Z.eqb) (merged_ring c r n m) (Ok e1) && pyres_eqb (list_eqb Z.eqb) (merged_ring c r m n) (Ok e2) && list_eqb Z.eqb e1 e2.
(* the same with the intermediate states: the guard `m in ck[n] and m in rk[n]` through the model of _ring_adjacency (both unpack
   orders: it is symmetric), the two _ring_scissors spellings, and the boolean form of the hypothesis of C19_merged_ring_sym *)
Definition adj_has (ring : list Z) (n m : Z) : pyres bool :=
  match Rings.ring_adjacency ring with
  | Ok adj => match zget adj n with Some l => Ok (zmem m l) | None => Err KeyError end
  | Err e => Err e
  end.
Definition guard (c r : list Z) (n m : Z) : pyres bool :=
  match adj_has c n m with Ok true => adj_has r n m | other => other end.
Fixpoint next_to (ring : list Z) (a b : Z) : bool :=
  match ring with x :: ((y :: _) as t) => ((x =? a) && (y =? b)) || next_to t a b | _ => false end.
Definition cyc_adj_b (ring : list Z) (a b : Z) : bool :=
  next_to ring a b || next_to ring b a || ((hd 0 ring =? a) && (last ring 0 =? b)) || ((hd 0 ring =? b) && (last ring 0 =? a)).
Definition zres_eqb := pyres_eqb (list_eqb Z.eqb).
Definition mr_steps_ok (c r : list Z) (n m : Z) (g1 g2 : bool) (s1 s2 s3 s4 e1 e2 : list Z) : bool :=
  pyres_eqb Bool.eqb (guard c r n m) (Ok g1) && pyres_eqb Bool.eqb (guard c r m n) (Ok g2) && Bool.eqb g1 g2 &&
  Bool.eqb g1 (cyc_adj_b c n m && cyc_adj_b r n m) &&
  zres_eqb (Rings.ring_scissors c n m) (Ok s1) && zres_eqb (Rings.ring_scissors r m n) (Ok s2) &&
  zres_eqb (Rings.ring_scissors c m n) (Ok s3) && zres_eqb (Rings.ring_scissors r n m) (Ok s4) &&
  zres_eqb (merged_ring c r n m) (Ok e1) && zres_eqb (merged_ring c r m n) (Ok e2) && (negb g1 || list_eqb Z.eqb e1 e2).
(* weight groups of _smiles: the table computed over the enumeration and over its reverse give the observed counts *)
Definition gs_ok (ws : list (Z * Z)) (enum : list Z) (expect : list (Z * Z)) : bool :=
  let w := fun n => match zget ws n with Some v => v | None => 0 end in
  forallb (fun kv => (glookup (group_sizes w enum) (fst kv) =? snd kv) && (glookup (group_sizes w (rev enum)) (fst kv) =? snd kv)) expect.
(* the start atom of the writer has the minimal (group, weight) key; sorted() by that key reproduces the key sequence *)
Definition key_of (ws gs : list (Z * Z)) (n : Z) : Z :=
  let w := match zget ws n with Some v => v | None => 0 end in pack3 100000 (glookup gs w) w 0.
Definition start_ok (ws gs : list (Z * Z)) (enum : list Z) (start : Z) : bool :=
  match min_by (key_of ws gs) enum, min_by (key_of ws gs) (rev enum) with
  | Some a, Some b => (key_of ws gs a =? key_of ws gs start) && (key_of ws gs b =? key_of ws gs start)
  | _, _ => false end.
'''


class _Abort(Exception):
    pass


def memo_cases(ck, rng):
    """histories of reads / flushes / edits on REAL molecules against the memo model: derive k s is the value a fresh,
    never cached copy returns; the model must return the same list of values for the same history"""
    from chython import smiles
    props = ['atoms_order', 'sssr', 'rings_count', 'bonds_count', 'connected_components_count', 'atoms_count', 'str_len', 'smiles_atoms_order',
             '_chiral_morgan', 'fmt:!s']          # the last two: the stereo-aware ranks (they START from atoms_order) and the stereo-less string

    def value(m, k):
        if k == 'str_len':
            return len(str(m))
        if k.startswith('fmt:'):
            return int.from_bytes(hashlib.blake2b(format(m, k[4:]).encode(), digest_size=4).digest(), 'big')
        v = getattr(m, k)
        if isinstance(v, int):
            return v
        return int.from_bytes(hashlib.blake2b(ser(v).encode(), digest_size=4).digest(), 'big')   # an int code of the value
    cases, meta = [], []
    for smi in ['c1ccccc1C', 'C1CC1C1CCCCC1', 'CC(=O)O.[Na+]', 'C[C@H](N)C(=O)O', 'C12C3C4C1C5C2C3C45', 'C[n+]1ccn(CC)c1.[Cl-]', 'CCn1cc[n+](C)c1',
                'CC(=O)[O-].C[NH3+]'] + CHELATES[:2] + RING_STEREO[:6] + ring_stereo_family(rng, 2 if ck.tier == 'quick' else 12):
        for h in range(6 if ck.tier == 'quick' else 30):
            m = smiles(smi)
            # states: 0 = as parsed, then one more per edit; the table `derive` lists, per state, the uncached value of every key
            states = [[value(m.copy(), k) for k in props]]
            ops, observed = [], []
            cur = 0
            for _ in range(rng.randint(4, 9)):
                r = rng.random()
                if r < 0.6:
                    k = rng.randrange(len(props))
                    # str() also stores smiles_atoms_order and vice versa: ReadStoring
                    if props[k] == 'str_len':
                        ops.append(f'ReadStoring {k}%nat [{props.index("smiles_atoms_order")}%nat]')
                    elif props[k] == 'smiles_atoms_order':
                        ops.append(f'ReadStoring {k}%nat [{props.index("str_len")}%nat]')
                    else:
                        ops.append(f'Read {k}%nat')
                    observed.append(value(m, props[k]))
                elif r < 0.7:
                    ops.append('Flush')
                    m.flush_cache()
                elif r < 0.83:
                    # a standardisation-family operation in place: whatever it caches while working, reads afterwards must equal those
                    # of a fresh copy of the result (a state change in the model, possibly to an equal state)
                    opn = rng.choice(['canonicalize', 'standardize_charges', 'standardize', 'neutralize', 'kekule', 'thiele', 'fix_resonance'])
                    try:
                        getattr(m, opn)()
                    except Exception:
                        pass
                    states.append([value(m.copy(), k) for k in props])
                    cur = len(states) - 1
                    ops.append(f'Mutate (fun _ => {cur}%nat)')
                    ck.count('memo histories: standardisation operations in place')
                elif r < 0.9:
                    n = m.add_atom('C')
                    m.add_bond(n, next(iter(m._atoms)), 1)
                    states.append([value(m.copy(), k) for k in props])
                    cur = len(states) - 1
                    ops.append(f'Mutate (fun _ => {cur}%nat)')
                else:
                    # a `with mol:` block: skeleton change, ring / component properties read on the edited structure, then either an
                    # exception (rollback: the state is the one before the block again) or a commit
                    fail = rng.random() < 0.7
                    ringb = next(((r_[0], r_[-1]) for r_ in m.sssr), None)
                    anyb = next(((a, b) for a in reversed(list(m._atoms)) for b in m._bonds[a]), None)
                    bond = ringb if ringb is not None and rng.random() < 0.6 else anyb
                    inside = [k for k in ('sssr', 'rings_count', 'connected_components_count', 'bonds_count', 'atoms_count') if rng.random() < 0.6] or ['sssr']
                    try:
                        with m:
                            if bond is not None:
                                m.delete_bond(*bond)
                            else:
                                m.add_bond(m.add_atom('C'), next(iter(m._atoms)), 1)
                            states.append([value(m.copy(), k) if k in ('sssr', 'rings_count', 'connected_components_count', 'bonds_count', 'atoms_count') else -7
                                           for k in props])
                            ops.append(f'Mutate (fun _ => {len(states) - 1}%nat)')
                            for k in inside:
                                ops.append(f'Read {props.index(k)}%nat')
                                observed.append(value(m, k))
                            if fail:
                                raise _Abort()
                    except _Abort:
                        pass
                    if fail:
                        ops.append(f'Mutate (fun _ => {cur}%nat)')          # rolled back
                    else:
                        states.append([value(m.copy(), k) for k in props])
                        cur = len(states) - 1
                        ops.append(f'Mutate (fun _ => {cur}%nat)')          # committed: labels and hydrogens recalculated
                    ck.count('memo histories: transactions ' + ('rolled back' if fail else 'committed'))
            tab = lst([lst(row, zraw) for row in states])
            cases.append(f'memo_ok {tab} [{"; ".join(ops)}] {lst(observed, zraw)}')
            meta.append(('memo', smi, ops, observed))
            ck.case(('memo', smi, h, tuple(ops)), nontrivial=any(o.startswith('Mutate') or o == 'Flush' for o in ops))
            ck.count('memo histories')
    return cases, meta


def ring_pair_cases(ck, rng):
    """exhaustive small space for the two-element unpack: EVERY spelling (rotation x reflection) of a ring of a atoms and of a ring of b
    atoms that share exactly one bond, atoms relabelled by a random permutation; the real guard (through _ring_adjacency), the four
    _ring_scissors spellings and the merged ring for both unpack orders against the model; plus pairs that share two NON-adjacent
    atoms (guard false)"""
    from chython.algorithms.rings import _canonic_ring, _ring_scissors, _ring_adjacency
    sizes = (3, 4, 5) if ck.tier == 'quick' else (3, 4, 5, 6, 7)
    relabelings = 1 if ck.tier == 'quick' else 3

    def spellings(cyc):
        out = []
        for seq in (cyc, cyc[::-1]):
            for i in range(len(seq)):
                out.append(tuple(seq[i:] + seq[:i]))
        return out
    cases, meta = [], []
    for a in sizes:
        for b in sizes:
            for rep in range(relabelings):
                labels = list(range(1, a + b))
                rng.shuffle(labels)
                lab = lambda x: labels[x - 1]
                cyc_c = [lab(x) for x in range(1, a + 1)]                        # 1-2-...-a
                cyc_r = [lab(1), lab(2)] + [lab(x) for x in range(a + 1, a + b - 1)][::-1]   # shares the bond 1-2
                variants = [(cyc_c, cyc_r, lab(1), lab(2))]
                if a >= 4 and b >= 4:      # two common atoms that are not neighbours in c: the guard must say no
                    cyc_r2 = [lab(1)] + [lab(x) for x in range(a + 1, a + 1 + (b - 2) // 2)] + [lab(3)] + [lab(x) for x in range(a + 1 + (b - 2) // 2, a + b - 1)]
                    variants.append((cyc_c, cyc_r2, lab(1), lab(3)))
                for cc, rr, n, k in variants:
                    for c in spellings(cc):
                        for r in spellings(rr):
                            g1 = k in _ring_adjacency(c)[n] and k in _ring_adjacency(r)[n]
                            g2 = n in _ring_adjacency(c)[k] and n in _ring_adjacency(r)[k]
                            s1, s2 = _ring_scissors(c, n, k), _ring_scissors(r, k, n)
                            s3, s4 = _ring_scissors(c, k, n), _ring_scissors(r, n, k)
                            e1 = _canonic_ring((*s1, *s2[1:-1]))
                            e2 = _canonic_ring((*s3, *s4[1:-1]))
                            zl = lambda xs: lst(list(xs), zraw)
                            cases.append(f'mr_steps_ok {zl(c)} {zl(r)} {zraw(n)} {zraw(k)} {cb(g1)} {cb(g2)} {zl(s1)} {zl(s2)} {zl(s3)} {zl(s4)} {zl(e1)} {zl(e2)}')
                            meta.append(('ring pair', c, r, n, k, g1))
                            ck.case(('ring pair', c, r, n, k), nontrivial=g1)
                            ck.count('ring pair spellings: common bond' if g1 else 'ring pair spellings: two common atoms that are not neighbours')
    return cases, meta


def memo_keep_cases(ck, rng):
    """histories with the REAL partial flushes: in-place operations that end with flush_cache(keep_sssr / keep_components) according to
    the regenerated call table (Gen.CacheKeys.partial_flush_calls).  In the model the operation is `KMutateKeep (to the new state)
    keep`, where keep = the observed keys of the families the operation's flags keep: the model then answers the kept keys from the
    OLD cache, the real object must answer the same and both must equal the uncached value of the new state (which also tests the
    side condition of C19_cache_transparent_keep on real data)."""
    from chython import smiles
    import gen_cachekeys
    table = gen_cachekeys.extract(common.REPO)
    props = ['atoms_order', 'sssr', 'rings_count', 'connected_components_count', 'atoms_rings_sizes', 'bonds_count', 'str_len', 'smiles_atoms_order', 'match_code']
    # match_code: the match lists of aromaticity / hybridization sensitive queries through the ACCELERATED matcher (transpiled .pyx, injected here as in the
    # workers), which compiles the molecule into a cached buffer (_cython_compiled_structure) that no partial flush keeps
    cython, _ = inject_pyx(common.REPO)
    ck.extra['partial_flush_histories_use_accelerated_matcher'] = cython
    from chython import smarts
    mqs = [smarts(q) for q in MATCH_AFTER_OP[:4]]
    fam = {'keep_sssr': [props.index(k) for k in props if k in table['flush']['keep_sssr']],
           'keep_components': [props.index('connected_components_count')]}
    flags = {}
    for rel, qual, kw in table['partial']:
        if 'keep_molecule_cache' in kw or kw == '**kwargs':          # reaction-level flushes
            continue
        meth = qual.split('.')[-1]
        f = flags.setdefault(meth, {'keep_sssr': True, 'keep_components': True, 'n': 0})
        f['n'] += 1
        for k in ('keep_sssr', 'keep_components'):
            if f'{k}=True' not in kw:
                f[k] = False          # not kept (or decided at run time) at some call site: the model keeps nothing of that family
    # kekule() calls __fix_rings, whose flush flags are decided at run time (a bond rewritten to order 8 drops the ring caches): the model
    # keeps nothing for it, i.e. every read after kekule() must equal the fresh value
    if 'kekule' in flags:
        flags['kekule']['keep_sssr'] = flags['kekule']['keep_components'] = False
    methods = [mth for mth in ('kekule', 'thiele', 'standardize_charges', 'implicify_hydrogens', 'explicify_hydrogens', 'clean_isotopes',
                               'remove_coordinate_bonds', 'fix_resonance', 'neutralize', 'clean_stereo') if mth in flags or mth in ('neutralize', 'clean_stereo')]
    ck.extra['partial_flush_methods'] = {mth: {k: v for k, v in flags.get(mth, {}).items()} for mth in methods}

    def value(m, k):
        if k == 'str_len':
            return len(str(m))
        if k == 'match_code':
            return int.from_bytes(hashlib.blake2b(ser([list(itertools.islice(q.get_mapping(m), 60)) for q in mqs]).encode(), digest_size=4).digest(), 'big')
        v = getattr(m, k)
        if isinstance(v, int):
            return v
        return int.from_bytes(hashlib.blake2b(ser(v).encode(), digest_size=4).digest(), 'big')
    cases, meta = [], []
    for smi in ['c1ccccc1C', 'C1=CC=CC=C1O', 'CC(=O)[O-].C[NH3+]', 'C[n+]1ccn(CC)c1.[Cl-]', 'C[N+](=O)[O-]', 'CN(=O)=O', '[13CH3]c1ccncc1', 'C[C@H](N)C(=O)O',
                'O=c1cccc[nH]1', 'C[Fe](C)(C)C', '[H]C([H])([H])O', 'C12C3C4C1C5C2C3C45'] + CHELATES[:3] + FREAKS[:5] + freak_family(rng, 2 if ck.tier == 'quick' else 12):
        for h in range(2 if ck.tier == 'quick' else 10):
            m = smiles(smi)
            states = [[value(m.copy(), k) for k in props]]
            ops, observed, nochange = [], [], []
            # the first history of every input is scripted: every aromaticity-changing operation is followed by a read of the match lists
            script = ['match_code', 'thiele', 'match_code', 'sssr', 'kekule', 'match_code', 'thiele', 'match_code', 'standardize_charges', 'match_code'] if h == 0 else None
            for step in range(len(script) if script else rng.randint(5, 9)):
                r = rng.random() if not script else (0.0 if script[step] in props else 1.0)
                if r < 0.55:
                    k = rng.randrange(len(props)) if not script else props.index(script[step])
                    if props[k] == 'str_len':
                        ops.append(f'KReadStoring {k}%nat [{props.index("smiles_atoms_order")}%nat]')
                    elif props[k] == 'smiles_atoms_order':
                        ops.append(f'KReadStoring {k}%nat [{props.index("str_len")}%nat]')
                    else:
                        ops.append(f'KRead {k}%nat')
                    try:
                        observed.append(value(m, props[k]))
                    except Exception:
                        ops.pop()
                else:
                    mth = rng.choice(methods) if not script else script[step]
                    try:
                        res = getattr(m, mth)()
                    except Exception:
                        break          # valence errors etc.: the history ends here
                    # the return value is not a reliable `changed` flag (standardize_charges / neutralize aromatise the molecule first and
                    # still return False): every call is a transition to the state a fresh copy shows afterwards, possibly an equal one
                    if True:
                        keep = []
                        fl = flags.get(mth)
                        if fl:
                            for k_ in ('keep_sssr', 'keep_components'):
                                if fl[k_]:
                                    keep += fam[k_]
                        try:
                            states.append([value(m.copy(), k) for k in props])
                        except Exception:
                            break
                        ops.append(f'KMutateKeep (fun _ => {len(states) - 1}%nat) [{"; ".join(str(i) + "%nat" for i in keep)}]')
                        ck.count('partial-flush histories: in-place operations' + ('' if res else ' that returned a false value'))
                    else:
                        nochange.append((len(ops), mth))
                        ck.count('partial-flush histories: operations that reported no change')
            if not observed:
                continue
            tab = lst([lst(row, zraw) for row in states])
            cases.append(f'memo_keep_ok {tab} [{"; ".join(ops)}] {lst(observed, zraw)}')
            meta.append(('memo-keep', smi, ops + [f'(* operations that reported no change, at position: {nochange} *)'], observed))
            ck.case(('memo-keep', smi, h, tuple(ops)), nontrivial=any(o.startswith('KMutateKeep') for o in ops))
            ck.count('partial-flush histories')
    return cases, meta


MEMO_KEEP_EXTRA = '''
From Model Require Import DeterminismKeep.
Definition mderive (tab : list (list Z)) (k : nat) (s : nat) : Z := nth k (nth s tab []) (-1).
Definition memo_keep_ok (tab : list (list Z)) (ops : list (@kop nat nat)) (observed : list Z) : bool :=
  list_eqb Z.eqb (run_keep Nat.eqb (mderive tab) 0%nat [] ops) observed &&
  list_eqb Z.eqb (run_uncached_keep (mderive tab) 0%nat ops) observed.
'''


MEMO_EXTRA = '''
Definition mderive (tab : list (list Z)) (k : nat) (s : nat) : Z := nth k (nth s tab []) (-1).
Definition memo_ok (tab : list (list Z)) (ops : list (@op nat nat)) (observed : list Z) : bool :=
  list_eqb Z.eqb (run Nat.eqb (mderive tab) 0%nat [] ops) observed &&
  list_eqb Z.eqb (run_uncached (mderive tab) 0%nat ops) observed.
'''


ALIAS_EXTRA = '''From Coq Require Import String.
From Model Require Import Determinism DeterminismAlias.
From Gen Require Import CacheAlias.
Import ListNotations.
Open Scope list_scope.
Open Scope Z_scope.
Definition zz_eqb := list_eqb (fun a b : Z * Z => (fst a =? fst b) && (snd a =? snd b)).
(* observed steps of _chiral_morgan: the in-place loops (atoms whose rank is negated, content of the SAME object afterwards) / a new object *)
Inductive sd := SNeg (ag : list (list Z)) (cg : list (list (Z * (Z * Z)))) (lg : list (list Z)) (expect : list (Z * Z)) | SNew (d : list (Z * Z)).
Definition to_step (x : sd) : @step unit (list (Z * Z)) :=
  match x with SNeg ag cg lg _ => InPlace (fun _ w => chiral_inplace ag cg lg w) | SNew d => Rebind (fun _ _ => false) (fun _ _ => d) end.
(* intermediate states: the TRANSLATED in-place loops applied to the state before give the observed content (and equal the hand-written step) *)
Fixpoint inter_ok (w : list (Z * Z)) (xs : list sd) : bool :=
  match xs with
  | [] => true
  | SNeg ag cg lg e :: r => zz_eqb (chiral_inplace ag cg lg w) e && zz_eqb (negate_seq (halves ag ++ map fst (halves cg) ++ halves lg) w) e && inter_ok e r
  | SNew d :: r => inter_ok d r
  end.
(* the start mode is NOT an argument: it is the regenerated Gen.CacheAlias.chiral_morgan_start; `copied` is what the object identities showed *)
Definition al_ok (copied : bool) (ao : list (Z * Z)) (xs : list sd) (cm ao_after : list (Z * Z)) : bool :=
  let base := fun (k : string) (_ : unit) => if String.eqb k "atoms_order" then ao else [] in
  let sp := chiral_spec chiral_morgan_start (map to_step xs) in
  Bool.eqb copied (snd chiral_morgan_start) && inter_ok ao xs &&
  list_eqb zz_eqb (run_alias String.eqb base sp tt [] [ARead "atoms_order"%string; ARead chiral_key; ARead "atoms_order"%string; ARead chiral_key]) [ao; cm; ao_after; cm].
'''


def alias_cases(ck, spec, good):
    """the _chiral_morgan trace of every worker process against Model.DeterminismAlias run with the REGENERATED start mode"""
    zz = lambda d: lst([tup(zraw(k), zraw(v)) for k, v in d])
    cases, meta = [], []
    for tag in spec.get('alias_inputs', ()):
        seen = set()
        for _, seed, res in good:
            t = res.get('alias', {}).get(tag)
            if not t or 'error' in t:
                ck.count('alias trace skipped (worker could not produce it)')
                continue
            sig = json.dumps(t, sort_keys=True)
            if sig in seen:
                continue
            seen.add(sig)
            if not t['stereo']:
                ck.count('alias trace: no stereo label, _chiral_morgan returns atoms_order itself')
                continue
            steps = []
            for st in t['steps']:
                if st[0] == 'neg':
                    ag, cg, lg = st[1]
                    steps.append('SNeg %s %s %s %s' % (lst([lst(g, zraw) for g in ag]), lst([lst([tup(zraw(a), tup(zraw(b_[0]), zraw(b_[1]))) for a, b_ in g]) for g in cg]),
                                                         lst([lst(g, zraw) for g in lg]), zz(st[2])))
                else:
                    steps.append(f'SNew {zz(st[2])}')
            cases.append(f'al_ok {cb(t["copied"])} {zz(t["ao"])} [{"; ".join(steps)}] {zz(t["cm"])} {zz(t["ao_after"])}')
            meta.append((tag, seed, [st[0] for st in t['steps']]))
            inplace = any(st[0] == 'neg' for st in t['steps'])
            ck.case(('alias', tag, seed), nontrivial=inplace)
            ck.count('alias traces with an in-place step (half of an even group negated)' if inplace else 'alias traces without in-place step')
    return cases, meta


def correspondence(ck, spec, results):
    good = [(i, seed, res) for i, seed, res, log in results if res is not None]
    if not good:
        return False
    rng = random.Random(f'{ck.seed}:c19corr')
    smi_of = dict(spec['molecules'])
    cases, meta = [], []
    for tag in spec['model_inputs']:
        per_seed = [(seed, res['terms'].get(tag)) for _, seed, res in good]
        per_seed = [(s, t) for s, t in per_seed if t and 'error' not in t]
        if not per_seed:
            ck.count('model input skipped (worker could not print it)')
            continue
        # one case per DISTINCT output among the processes: the single seed-free model must equal all of them
        seen = set()
        for seed, t in per_seed:
            sig = json.dumps(t, sort_keys=True)
            if sig in seen:
                continue
            seen.add(sig)
            g = t['mol']
            name = 'g%d' % len(meta)
            cases.append(f'ao_ok {t["rings"]} {g} {t["atoms_order"]}')
            meta.append((tag, 'atoms_order', seed))
            cases.append(f'lh_ok {g} {t["linear_hash_set"]}')
            meta.append((tag, 'linear_hash_set', seed))
            cases.append(f'mh_ok {g} {t["morgan_hash_set"]}')
            meta.append((tag, 'morgan_hash_set', seed))
            masks = dict(t['ring_masks'])
            for n, enum in t['ring_sizes'][:6]:
                cases.append(f'rm_ok {enum} {zraw(masks[n])}')
                meta.append((tag, f'ring mask of atom {n}', seed))
            if len(t.get('chains_enum', [])) <= 260:
                zl = lambda xs: lst(list(xs), zraw)
                cases.append('fr_ok %s %s %s %s %s' % (
                    g, lst([tup(zraw(k), zraw(v)) for k, v in t['identifiers']]), lst([zl(c) for c in t['chains_enum']]),
                    lst([tup(zl(k), lst([zl(c) for c in v])) for k, v in t['fragments']]), zl(t['linear_hash_set_13'])))
                meta.append((tag, '_fragments dict (order included) and linear_hash_set from the observed and the reversed enumeration', seed))
            for c_, r_, n_, k_, e1, e2 in t.get('fused_pairs', []):
                cases.append(f'mr_ok {lst(c_, zraw)} {lst(r_, zraw)} {zraw(n_)} {zraw(k_)} {lst(e1, zraw)} {lst(e2, zraw)}')
                meta.append((tag, f'merged ring of two fused SSSR rings over the bond {n_}-{k_}, both unpack orders', seed))
                ck.count('fused ring pairs (two-element unpack)')
            ws = t['weights']
            if ws and all(0 <= v < 100000 for _, v in ws):
                groups = {}
                for _, v in ws:
                    groups[v] = groups.get(v, 0) - 1
                wterm = lst([tup(zraw(k), zraw(v)) for k, v in ws])
                gterm = lst([tup(zraw(k), zraw(v)) for k, v in groups.items()])
                enum = lst([k for k, _ in ws], zraw)
                cases.append(f'gs_ok {wterm} {enum} {gterm}')
                meta.append((tag, 'weight groups of _smiles', seed))
                cases.append(f'start_ok {wterm} {gterm} {enum} {zraw(t["smiles_atoms_order"][0])}')
                meta.append((tag, 'start atom of _smiles has the minimal key', seed))
            ck.case(('model', tag, seed))
        ck.count('model inputs')
        if len(seen) > 1:
            ck.count('model inputs on which the processes disagree')
    mc, mm = memo_cases(ck, rng)
    ok1, failing1, log1 = coqcases.run_cases('c19', 'PyBase', cases, extra=EXTRA, shard=60)
    ok2, failing2, log2 = coqcases.run_cases('c19m', 'Determinism', mc, extra='Import ListNotations.\nOpen Scope list_scope.\nOpen Scope Z_scope.' + MEMO_EXTRA, shard=400)
    rc, rm = ring_pair_cases(ck, rng)
    ok4, failing4, log4 = coqcases.run_cases('c19r', 'PyBase', rc, extra=EXTRA, shard=300)
    good4 = ok4 and not failing4
    ck.oblige(f'correspondence (intermediate states, exhaustive over all spellings of two small fused rings): guard through _ring_adjacency for both unpack '
              f'orders, the four _ring_scissors spellings, the merged ring == model; the guard is symmetric and equals the hypothesis of C19_merged_ring_sym '
              f'({len(rc)} cases)', good4, 'correspondence', log4 or repr([rm[i] for i in failing4[:4]]))
    if not good4:
        ck.unchecked('correspondence _connected_rings merge step (guard / scissors / merged ring) vs chython/algorithms/rings.py', log4[-1500:], [repr(rm[i]) for i in failing4[:20]])
    ac, am = alias_cases(ck, spec, good)
    ok5, failing5, log5 = coqcases.run_cases('c19a', 'PyBase', ac, extra=ALIAS_EXTRA, shard=200)
    good5 = ok5 and not failing5 and bool(ac)
    ck.oblige(f'correspondence (intermediate states of MoleculeStereo._chiral_morgan, line tracer on its frame): the working variable starts as a copy of the '
              f'cached atoms_order exactly when the regenerated start mode says so, every in-place step (ranks of half of each group negated) == model step, '
              f'atoms_order before / _chiral_morgan / atoms_order after / _chiral_morgan again == Model.DeterminismAlias with the regenerated start mode '
              f'({len(ac)} traces)', good5, 'correspondence', log5 or repr([am[i] for i in failing5[:4]]))
    if not good5:
        ck.unchecked('correspondence _chiral_morgan working variable (copy / in-place steps / cache entry of atoms_order) vs chython/algorithms/stereo.py', log5[-1500:],
                     [repr(am[i]) for i in failing5[:20]])
    kc, km = memo_keep_cases(ck, rng)
    ok3, failing3, log3 = coqcases.run_cases('c19k', 'Determinism', kc, extra='Import ListNotations.\nOpen Scope list_scope.\nOpen Scope Z_scope.' + MEMO_KEEP_EXTRA, shard=400)
    good3 = ok3 and not failing3
    ck.oblige(f'correspondence: in-place operations that end with a PARTIAL flush (flush_cache(keep_sssr / keep_components), call table regenerated from '
              f'the source) on real molecules == partial-flush memo model (kept keys answered from the old cache) == uncached evaluation ({len(kc)} histories)',
              good3, 'correspondence', log3 or repr([km[i] for i in failing3[:4]]))
    if not good3:
        for i in failing3[:5]:
            _, smi, ops_, observed_ = km[i]
            ck.counterexample('memo-keep:' + smi, 'after an in-place operation with a partial flush a cached read differs from what a fresh copy computes',
                              {'smiles': smi, 'history': ops_}, observed_, 'values of never-cached copies / kept values of the state before', 'uncached evaluation on a fresh copy')
        if not failing3:
            ck.unchecked('correspondence partial-flush memo model', log3[-1500:])
    ck.extra['correspondence_cases'] = len(cases) + len(mc) + len(kc) + len(rc) + len(ac)
    good1 = ok1 and not failing1
    good2 = ok2 and not failing2
    ck.oblige(f'correspondence: atoms_order / linear_hash_set / morgan_hash_set / _fragments dict / ring-size masks / weight groups / start atom of every worker '
              f'process == the one seed-free Coq model ({len(cases)} cases)', good1, 'correspondence', log1 or repr([meta[i] for i in failing1[:6]]))
    ck.oblige(f'correspondence: cached reads on real molecules over random histories of reads / flush_cache / edits == memo model and == '
              f'uncached evaluation ({len(mc)} histories)', good2, 'correspondence', log2 or repr([mm[i] for i in failing2[:4]]))
    if cases:
        ck.sample({'model_call': cases[0][:400], 'meta': repr(meta[0])})
    if mc:
        ck.sample({'model_call': mc[0][:400], 'meta': repr(mm[0][:2])})
    if not good1:
        # directed search: the disagreeing inputs are re-observed under the seeds at hand -- a seed/process difference there is
        # a concrete counterexample (reported by differential()); otherwise the tie itself is broken
        bad_tags = sorted({meta[i][0] for i in failing1})
        if bad_tags:
            sub = dict(spec, molecules=[(tg, sm) for tg, sm in spec['molecules'] if tg in bad_tags][:40], reactions=[], sdf=[],
                       model_inputs=[])
            more = [rng.randrange(3, 2 ** 32) for _ in range(3)]
            ck.extra['directed_search'] = {'inputs': [tg for tg, _ in sub['molecules']], 'seeds': [0] + more}
            differential(ck, sub, run_workers(ck, sub, [0] + more), label='directed search on the inputs where model and code disagree: ')
        ck.unchecked('correspondence seed-free models vs chython (morgan / fingerprints / isomorphism buffers / smiles groups)', log1[-1500:],
                     [repr(meta[i]) + ' ' + smi_of.get(meta[i][0], '') for i in failing1[:20]] or bad_tags)
    if not good2:
        # a cached read that differs from the uncached value IS a concrete failing input of the real code
        for i in failing2[:5]:
            _, smi, ops, observed = mm[i]
            ck.counterexample('memo:' + smi, 'a cached read differs from what a fresh copy computes (history of reads / flush / edits)',
                              {'smiles': smi, 'history': ops}, observed, 'values of never-cached copies', 'uncached evaluation on a fresh copy')
        if not failing2:
            ck.unchecked('correspondence memo model', log2[-1500:])
    return good1 and good2 and good3 and good4 and good5


def runtime_audit(ck, spec, results, inst):
    """goal: the static typing of the audit is a heuristic - every set iteration that is EXECUTED in the audited files while the
    inputs of this run are observed must be one of the statically audited sites"""
    import gen_setaudit
    res = inst[0][2] if inst else None
    ck.oblige('instrumented worker process (AST-rewritten audited modules) ran to completion', res is not None and res.get('executed') is not None,
              'machinery', inst[0][3] if inst else 'not started')
    if res is None or res.get('executed') is None:
        ck.unchecked('run-time cross-check of the set audit did not run', inst[0][3] if inst else '')
        return
    audited = {gen_setaudit.strip_occurrence(s) for s in gen_setaudit.audit(common.REPO)}
    executed = {tuple(k): v for k, v in res['executed']['set']}
    non_set = {tuple(k): v for k, v in res['executed']['non_set']}
    missing = sorted(k for k in executed if k not in audited)
    confirmed = sorted(k for k in executed if k in audited)
    never_set = sorted(k for k in non_set if k in audited and k not in executed)
    ck.extra['runtime_audit'] = {'executed_set_sites': len(executed), 'executions': sum(executed.values()), 'audited_and_executed_with_a_set': len(confirmed),
                                 'audited_sites': len(audited), 'audited_but_only_seen_with_non_sets': [list(k) for k in never_set],
                                 'audited_never_executed': len([k for k in audited if k not in executed and k not in non_set and not k[2].startswith('hash ')]),
                                 'executed_but_not_audited': [list(k) + [executed[k]] for k in missing]}
    ck.oblige(f'run-time cross-check: all {len(executed)} set-order sites executed in the audited files ({sum(executed.values())} executions) are statically audited sites',
              not missing, 'translator', repr(missing))
    if missing:
        ck.unchecked('set-iteration audit: a set iteration was EXECUTED in an audited file at a place the static audit does not list (its typing heuristic '
                     'missed it): add a type hint to tools/gen_setaudit.py HINTS and classify the site', repr(missing))
    # the instrumentation must not change behaviour: its observations equal those of the plain process under the same seed
    plain = next((r for i, s, r, l in results if r is not None and str(s) == '0'), None)
    if plain is not None:
        bad = [(tag, k) for tag, ob in res['obs'].items() if not tag.startswith('hist|') for k, v in ob.items()
               if plain['obs'].get(tag, {}).get(k, v) != v and family(k) not in ('morgan_hash_smiles', 'morgan_smiles_hash')]
        ck.oblige('the instrumented modules behave like the plain ones (same observations under the same seed)', not bad, 'machinery', repr(bad[:5]))
        if bad:
            ck.unchecked('the AST instrumentation changed the behaviour of the audited modules', repr(bad[:10]))


def audit_report(ck):
    """human readable diff between the current audit and the allow-list (the theorem C19_audit_complete is what decides)"""
    import re
    import gen_setaudit
    try:
        sites = gen_setaudit.audit(common.REPO)
    except Exception as e:
        return
    txt = open(os.path.join(common.COQ, 'model', 'Determinism.v')).read()
    consts = dict(re.findall(r'Definition (f_\w+) := "([^"]+)"\.', txt))
    allowed = set()
    for f, q, t in re.findall(r'\(\((f_\w+|"[^"]+"), "((?:[^"]|"")*)", "((?:[^"]|"")*)"\)', txt):
        allowed.add((consts.get(f, f.strip('"')), q.replace('""', '"'), t.replace('""', '"')))
    body = common.strip_comments(txt[txt.index('Definition allow_list'):txt.index('Definition known_lemmas')])
    body_full = body
    body = re.sub(r'"(?:[^"]|"")*"', '""', body)          # reasons are counted outside string literals
    reasons = {r: len(re.findall(r'\b' + r + r'\b', body)) for r in ('OrderFree', 'OrderFreeUpTo', 'OrderFreeIf', 'OtherProperty', 'OtherPropertyUpTo', 'FalsePositive', 'KeyedTieBreak', 'IntHistory', 'HashOfInts', 'HashOfStr', 'StrSet')}
    # a reason that points at a theorem of another property: that theorem must exist in its props file
    for thm in re.findall(r'OtherProperty(?:UpTo)?\s+"([^"]+)"', body_full):
        pf = os.path.join(common.COQ, 'props', thm.split('_')[0] + '.v')
        ok = os.path.exists(pf) and re.search(r'^\s*Theorem\s+' + re.escape(thm) + r'\b', open(pf).read(), re.M) is not None
        ck.oblige(f'audit reason OtherProperty "{thm}": the theorem exists in props/{thm.split("_")[0]}.v', ok, 'audit', pf)
        if not ok:
            ck.unchecked(f'audit reason names the theorem {thm}, which is no longer in {pf}', pf)
    cur = set(sites)
    new = sorted(cur - allowed)
    gone = sorted(allowed - cur)
    ck.extra['audit'] = {'sites': len(sites), 'files': gen_setaudit.FILES, 'new_sites': new, 'vanished_sites': gone, 'reasons': reasons,
                         'sites_whose_reason_is_a_theorem': reasons['OrderFree'] + reasons['OrderFreeUpTo'] + reasons['OrderFreeIf'] + reasons['OtherProperty'] + reasons['OtherPropertyUpTo'] + reasons['HashOfInts'],
                         'by_kind': {k: sum(1 for s in sites if s[2].startswith(k + ' ')) for k in ('for', 'call', 'pop', 'unpack', 'star', 'hash')}}
    ck.oblige('audit (Python view): every set-order / hash() site of the current source is allow-listed and no entry is stale',
              not new and not gone, 'translator', f'new: {new}\nvanished: {gone}')
    if new or gone:
        ck.unchecked('set-iteration audit: the anchored source has a set-order / hash() site that is not in the allow-list '
                     '(or an allow-listed site vanished)', f'new: {new}\nvanished: {gone}')
    if ck.tier == 'thorough':
        # informational: the same audit over the whole package (not part of the obligation)
        files = []
        for root, _, fs in os.walk(os.path.join(common.REPO, 'chython')):
            for f in fs:
                if f.endswith('.py') and '/test' not in root:
                    files.append(os.path.relpath(os.path.join(root, f), common.REPO))
        try:
            allsites = gen_setaudit.audit(common.REPO, sorted(files))
            ck.extra['audit_whole_package_sites'] = len(allsites)
            ck.extra['audit_whole_package_outside_anchors'] = [s for s in allsites if s[0] not in gen_setaudit.FILES][:200]
        except Exception as e:
            ck.extra['audit_whole_package_error'] = repr(e)


def run(ck):
    ck.trusted += ['translator tools/gen_setaudit.py (Python ast; heuristic abstract typing of set-valued expressions: a tripwire, it can miss a set '
                   'that reaches a loop through an untyped container)',
                   'CPython 3.12.1: PYTHONHASHSEED randomises only str/bytes hashing; a set of ints iterates in an order fixed by its construction history',
                   'worker / comparison code harness/checks/C19.py; transpilers tools/pyx2py.py and harness/iso_pyx.py for the .pyx paths',
                   'CachedMethods shim harness/boot.py', 'correspondence runner harness/coqcases.py']
    ck.assumptions += ['order-freeness is a theorem only for the audited sites whose reason names a lemma; sites marked IntHistory / KeyedTieBreak '
                       '(ring heuristics, tie-breaks of the writer between atoms of equal weight) are covered by the differential runs only',
                       'the differential compares the implementation with itself under other seeds / processes: a defect that is the same in '
                       'every process is invisible to it (that is the business of the other properties)']
    ck.extra['rule'] = ('inputs: hand-made symmetric / charged / stereo / metal / multi-component SMILES + lipophilicity corpus sample + random '
                        'element-symbol SMILES + reactions + SDF files with metadata; every input is observed (canonical strings in 9 formats, orders, '
                        'ring sets, fingerprints, fragment dictionaries, match lists of a SMARTS library incl. order, standardisation family on '
                        'copies, tautomer lists, pack bytes) in N fresh processes under different PYTHONHASHSEED, and inside each process as first '
                        'call / cached call / after flush / copy / re-parsed. A case = one (input, observable); non-trivial = it returned a value')
    phases = {}
    t0 = time.time()
    proved = common.standard_proof_steps(ck, translators=['setaudit', 'cachekeys', 'cachealias'])
    phases['proof steps (incl. waiting for the shared coq lock)'] = round(time.time() - t0, 1)
    audit_report(ck)
    spec = build_spec(ck)
    rng = random.Random(f'{ck.seed}:c19seeds')
    # quick: four seeds, one process each (a process-dependent result, e.g. address-based hashing, also shows between them);
    # thorough: more seeds and a second process under seed 0 to tell `process` from `seed`
    seeds = [0, 1, 2, rng.randrange(3, 2 ** 32)] if ck.tier == 'quick' else \
        [0, 1, 2] + [rng.randrange(3, 2 ** 32) for _ in range(2)] + [0]
    t0 = time.time()
    results, inst = run_workers(ck, spec, seeds + [0], instrument={len(seeds)})     # the last process runs the instrumented modules
    phases['worker + loader processes'] = round(time.time() - t0, 1)
    t0 = time.time()
    differential(ck, spec, results)
    runtime_audit(ck, spec, results, inst)
    phases['comparison'] = round(time.time() - t0, 1)
    t0 = time.time()
    tied = correspondence(ck, spec, results)
    phases['correspondence (coqc on generated cases)'] = round(time.time() - t0, 1)
    ck.extra['phase_wall_s'] = phases
    ck.extra['proved'] = proved
    ck.extra['tied'] = tied
